#!/bin/sh
# Demonstrates the binding of the trace validators: corrupted traces must be rejected with the expected clause.
D="$(cd "$(dirname "$0")" && pwd)"
export PYTHONPATH="$D/harness:${VF_REPO:-/repo}/src" PYTHONHASHSEED=0 PYTHONDONTWRITEBYTECODE=1
cd "$D" && exec /venv/bin/python -B -m vf.selftest
