------------------------------ MODULE RuleSelect ------------------------------
(* C21 — rule selection is exact; rules are independent.

   Contract layer : RefMap (what a reference means: code > name > group > alias), Glob (fnmatch
                    semantics, POSIX = case-sensitive), Expand, Selected = allow \ deny, OnlySelected,
                    Independent.
   Algo layer     : core/rules/base.py as written —
                      RuleSet.rule_reference_map : code map, then the name / group / alias maps merged one
                                                   after the other with "existing references take
                                                   precedence" and the per-entry collision checks,
                      RuleSet._expand_rule_refs  : direct hit, else glob over *all* reference keys,
                      RuleSet.get_rulepack       : allowlist defaults to every code when empty, keylist
                                                   filter `r in allow and r not in deny`.
   TLC checks Algo => Contract for the whole registry (reference map) and for every (allow, deny) pair
   of the scope, and emits each pair with the contract's `Selected` for replay into the real
   get_rulepack.

   The registry is either the synthetic one defined below (collisions between codes, names, groups
   and aliases, plugin-style code, rule without name) or the live one, extracted from
   sqlfluff.core.rules.get_ruleset() by the driver at check time and read from IOEnv.VF_REGISTRY.
   Strings are TLC strings; Len, SubSeq and \o work on them, which is all the glob matcher needs.   *)
EXTENDS Naturals, Integers, Sequences, FiniteSets, TLC, Json, IOUtils, FiniteSetsExt, SequencesExt

CONSTANTS Source,      \* "synthetic" or "live"
          MaxAllow,    \* selectors in the allowlist  (rules = ...)
          MaxDeny,     \* selectors in the denylist   (exclude_rules = ...)
          MaxTotal     \* bound on their sum

(* Registration order matters for the transcription (dict insertion order).
   AA01  name alpha.one
   AA02  group "alpha.one" collides with AA01's name (group dropped); alias L001 shared with AA01
         (alias -> both); alias AB01 collides with a code (alias dropped)
   AB01  name "core" collides with the group "core" of AA01/BA01 (name wins, the group disappears);
         alias "grp" collides with a group (alias dropped)
   BA01  name "AA01" collides with a code (name dropped: the code wins)
   Plug_B002  plugin-style code, no name                                                          *)
SynthReg ==
  [rules |-> <<
     [code |-> "AA01", name |-> "alpha.one", groups |-> <<"all", "core", "grp">>, aliases |-> <<"L001", "old">>],
     [code |-> "AA02", name |-> "alpha.two", groups |-> <<"all", "grp", "alpha.one">>, aliases |-> <<"L001", "AB01">>],
     [code |-> "AB01", name |-> "core",      groups |-> <<"all", "beta">>, aliases |-> <<"grp", "L00x">>],
     [code |-> "BA01", name |-> "AA01",      groups |-> <<"all", "core", "beta">>, aliases |-> <<"old-b">>],
     [code |-> "Plug_B002", name |-> "",     groups |-> <<"all", "beta">>, aliases |-> <<>>] >>,
   pool |-> << "AA01", "AB01", "Plug_B002", "alpha.one", "core", "all", "grp", "beta",
               "L001", "L00x", "old-b", "ZZ99", "aa01",
               "A*", "A?01", "*01", "L00[1x]", "L00[!1]", "[!A]*", "alpha.*", "[A-B]A01",
               "*[_-]*", "AA0[1-2]", "[a-z]*", "Z*" >>]

Reg   == IF Source = "synthetic" THEN SynthReg ELSE JsonDeserialize(IOEnv.VF_REGISTRY)
Rules == Reg.rules
Pool  == Reg.pool
RI    == 1..Len(Rules)
PI    == 1..Len(Pool)
ToSetS(s) == {s[i] : i \in 1..Len(s)}

---------------------------------------------------------------------------------
(* Glob: fnmatch.fnmatchcase as used by fnmatch.filter on POSIX.  `*` any run, `?` one character,
   `[seq]` / `[!seq]` character class with ranges, a `]` directly after `[` or `[!` is a member, a `[`
   without a closing `]` is a literal; everything else (including `.`) is literal; case-sensitive.   *)
Chars(s) == [i \in 1..Len(s) |-> SubSeq(s, i, i)]        \* a string as a tuple of one-character strings
Alphabet == Chars("!*-.0123456789?ABCDEFGHIJKLMNOPQRSTUVWXYZ[]_abcdefghijklmnopqrstuvwxyz")    \* ASCII order
OrdMap   == [c \in {Alphabet[i] : i \in 1..Len(Alphabet)} |-> CHOOSE i \in 1..Len(Alphabet) : Alphabet[i] = c]
Ord(c)   == OrdMap[c]

\* p, s below are tuples of characters
RECURSIVE FindClose(_, _)
FindClose(p, j) == IF j > Len(p) THEN 0 ELSE IF p[j] = "]" THEN j ELSE FindClose(p, j + 1)
Negated(p, i)   == i + 1 <= Len(p) /\ p[i + 1] = "!"
BodyStart(p, i) == IF Negated(p, i) THEN i + 2 ELSE i + 1
ClassEnd(p, i)  == LET b == BodyStart(p, i) IN          \* index of the closing bracket, 0 if none
                   FindClose(p, IF b <= Len(p) /\ p[b] = "]" THEN b + 1 ELSE b)

RECURSIVE InBody(_, _, _, _)
InBody(p, k, e, c) ==                                    \* c is a member of the set written p[k..e-1]
   IF k >= e THEN FALSE
   ELSE IF k + 2 < e /\ p[k + 1] = "-"
        THEN (Ord(p[k]) <= Ord(c) /\ Ord(c) <= Ord(p[k + 2])) \/ InBody(p, k + 3, e, c)
        ELSE p[k] = c \/ InBody(p, k + 1, e, c)
InClass(p, i, e, c) == IF Negated(p, i) THEN ~InBody(p, i + 2, e, c) ELSE InBody(p, i + 1, e, c)

RECURSIVE GM(_, _, _, _)
GM(p, i, s, j) ==                                        \* p[i..] matches s[j..]
   IF i > Len(p) THEN j > Len(s)
   ELSE LET c == p[i] IN
        IF c = "*" THEN GM(p, i + 1, s, j) \/ (j <= Len(s) /\ GM(p, i, s, j + 1))
        ELSE IF j > Len(s) THEN FALSE
        ELSE IF c = "?" THEN GM(p, i + 1, s, j + 1)
        ELSE IF c = "[" /\ ClassEnd(p, i) # 0
             THEN LET e == ClassEnd(p, i) IN InClass(p, i, e, s[j]) /\ GM(p, e + 1, s, j + 1)
        ELSE c = s[j] /\ GM(p, i + 1, s, j + 1)
HasMeta(p)     == \E i \in 1..Len(p) : p[i] \in {"*", "?", "["}
GlobC(pc, sc)  == GM(pc, 1, sc, 1)
Glob(p, s)     == GlobC(Chars(p), Chars(s))

---------------------------------------------------------------------------------
(* Contract: what a reference selects *)
Codes      == {Rules[i].code : i \in RI}
Names      == {Rules[i].name : i \in RI} \ {""}
GroupsOf(i)  == ToSetS(Rules[i].groups)
AliasesOf(i) == ToSetS(Rules[i].aliases)
AllGroups  == UNION {GroupsOf(i) : i \in RI}
AllAliases == UNION {AliasesOf(i) : i \in RI}
RefKeys    == Codes \cup Names \cup AllGroups \cup AllAliases
CodesOf(I) == {Rules[i].code : i \in I}
\* precedence: code > name > group > alias (a key means what the strongest kind that defines it says)
RefMap == [k \in RefKeys |->
             IF k \in Codes THEN {k}
             ELSE IF k \in Names THEN CodesOf({i \in RI : Rules[i].name = k})
             ELSE IF k \in AllGroups THEN CodesOf({i \in RI : k \in GroupsOf(i)})
             ELSE CodesOf({i \in RI : k \in AliasesOf(i)})]
NamesUnique == \A i, j \in RI : (Rules[i].name # "" /\ Rules[i].name = Rules[j].name) => i = j

KeyChars     == [k \in RefKeys |-> Chars(k)]                           \* evaluated once
\* fnmatch.filter(keys, r): the keys a selector matches as a glob (a selector without *, ?, [ matches itself only)
GlobKeys(r)  == IF ~HasMeta(Chars(r)) THEN {r} \cap RefKeys
                ELSE LET rc == Chars(r) IN {k \in RefKeys : GlobC(rc, KeyChars[k])}
Expand(r)    == IF r \in DOMAIN RefMap THEN RefMap[r]
                ELSE UNION {RefMap[k] : k \in GlobKeys(r)}
GlobPool     == [i \in PI |-> GlobKeys(Pool[i])]                      \* evaluated once, shared with the Algo layer
ExpandPool   == [i \in PI |-> IF Pool[i] \in DOMAIN RefMap THEN RefMap[Pool[i]]
                               ELSE UNION {RefMap[k] : k \in GlobPool[i]}]
ExpandAll(S) == UNION {ExpandPool[i] : i \in S}
\* allow, deny: sets of pool indices.  No allowlist means every rule.
Selected(A, D) == (IF A = {} THEN Codes ELSE ExpandAll(A)) \ ExpandAll(D)
\* the same on reference strings (used by RuleSelectTrace, where selectors come from the trace)
SelectedRefs(A, D) == (IF A = {} THEN Codes ELSE UNION {Expand(r) : r \in A}) \ UNION {Expand(r) : r \in D}

Special == {"TMP", "LXR", "PRS"}
OnlySelected(sel, reported) == reported \subseteq (sel \cup Special)
Independent(inset, alone)   == inset = alone        \* violations of r linting with S  =  linting with {r}

---------------------------------------------------------------------------------
(* Algo: rule_reference_map / _expand_rule_refs / get_rulepack *)
Empty == [x \in {} |-> {}]
Upd(m, k, c) == (k :> ((IF k \in DOMAIN m THEN m[k] ELSE {}) \cup {c})) @@ m

\* The loops over the register are folds (FoldLeft is evaluated iteratively; the live register is ~80 rules
\* with ~400 group/alias entries, too deep for a RECURSIVE operator on TLC's stack).
AlgoM0 == [c \in Codes |-> {c}]
\* name_map = {manifest.name: {manifest.code} for manifest in register if manifest.name}: a later rule wins
AlgoNameMap == FoldLeft(LAMBDA m, i : IF Rules[i].name # "" THEN (Rules[i].name :> {Rules[i].code}) @@ m ELSE m,
                        Empty, [i \in RI |-> i])
AlgoM1 == AlgoM0 @@ AlgoNameMap                          \* {**name_map, **reference_map}
\* for manifest in register: for x in manifest.groups (aliases): skip if x in reference_map else map[x].add(code)
Entries(kind) == FlattenSeq([i \in RI |-> LET xs == IF kind = "group" THEN Rules[i].groups ELSE Rules[i].aliases
                                         IN [j \in 1..Len(xs) |-> <<i, xs[j]>>]])
EntryFold(kind, have) == FoldLeft(LAMBDA m, e : IF e[2] \in DOMAIN have THEN m ELSE Upd(m, e[2], Rules[e[1]].code),
                                  Empty, Entries(kind))
AlgoM2 == AlgoM1 @@ EntryFold("group", AlgoM1)           \* {**group_map, **reference_map}
AlgoRefMap == AlgoM2 @@ EntryFold("alias", AlgoM2)       \* {**alias_map, **reference_map}

\* _expand_rule_refs: direct hit, else fnmatch.filter(reference_map.keys(), r)
AlgoExpandPool == [i \in PI |-> IF Pool[i] \in DOMAIN AlgoRefMap THEN AlgoRefMap[Pool[i]]
                                 ELSE UNION {AlgoRefMap[k] : k \in GlobPool[i] \cap DOMAIN AlgoRefMap}]
AlgoSelected(A, D) ==
   LET allow == IF A = {} THEN Codes ELSE UNION {AlgoExpandPool[i] : i \in A}    \* `or list(valid_codes)`
       deny  == UNION {AlgoExpandPool[i] : i \in D}
   IN {c \in Codes : c \in allow /\ c \notin deny}

---------------------------------------------------------------------------------
VARIABLES allow, deny
vars == <<allow, deny>>

SelSets(n) == UNION {kSubset(k, PI) : k \in 0..n}
Init == /\ allow \in SelSets(MaxAllow) /\ deny \in SelSets(MaxDeny)
        /\ Cardinality(allow) + Cardinality(deny) <= MaxTotal
\* Emit is a stuttering step: TLC evaluates Next once per distinct state, so every pair is printed exactly once
Emit == /\ UNCHANGED <<allow, deny>>
        /\ PrintT(ToJson([a   |-> SetToSeq(allow), d |-> SetToSeq(deny),
                          sel |-> SetToSeq({i \in RI : Rules[i].code \in Selected(allow, deny)}),   \* rule indices
                          algo_same |-> (AlgoSelected(allow, deny) = Selected(allow, deny))]))
Next == Emit
Spec == Init /\ [][Next]_vars

\* the registry the model works on, printed once (the driver builds / cross-checks the real RuleSet from it)
ASSUME PrintT(ToJson([registry |-> Rules, pool |-> Pool,
                      refmap |-> [k \in RefKeys |-> SetToSeq(RefMap[k])]]))
ASSUME \A i \in PI : ExpandPool[i] = Expand(Pool[i])      \* the cached table is Expand
ASSUME NamesUnique        \* two rules with one name: the code keeps the last registered only (out of scope)

---------------------------------------------------------------------------------
(* Algo => Contract *)
RefMapPrecedence    == allow \subseteq PI /\ AlgoRefMap = RefMap
IndexedIsByRef      == Selected(allow, deny) = SelectedRefs({Pool[i] : i \in allow}, {Pool[i] : i \in deny})
SelectedMatches     == AlgoSelected(allow, deny) = Selected(allow, deny)
(* sanity of the contract itself *)
SelectedAreRules    == Selected(allow, deny) \subseteq Codes
DenyWins            == \A i \in deny : ExpandPool[i] \cap Selected(allow, deny) = {}
AllowCovers         == allow # {} => Selected(allow, deny) \subseteq ExpandAll(allow)
ExactlyAllowLessDeny == \A c \in Codes : c \in Selected(allow, deny) <=>
                            /\ (allow = {} \/ \E i \in allow : c \in ExpandPool[i])
                            /\ ~\E i \in deny : c \in ExpandPool[i]
===============================================================================
