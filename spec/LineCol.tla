------------------------------- MODULE LineCol -------------------------------
(* C31 — offset -> (line, column).

   Contract layer : CLine / CCol, the definition in the property statement.
   Algo layer     : (a) sqlfluff.core.templaters.base.iter_indices_of_newlines + bisect_left as used by
                        TemplatedFile.get_line_pos_of_char_pos   (ALine / ACol);
                    (b) PositionMarker.infer_next_position (split based)      (InferNext);
                    (c) the one-character-per-step scanning machine that (b) is chained into by
                        BaseSegment position inference                          (Scan* actions).
   TLC checks Algo => Contract for every string up to MaxLen over the two character classes
   {newline, other} and every offset, and emits every case for replay into the real functions.

   Offsets are 0-based as in Python: the characters before offset p are s[1..p].                  *)
EXTENDS Naturals, Integers, Sequences, FiniteSets, TLC, Json, FiniteSetsExt

CONSTANTS MaxLen,     \* longest string enumerated
          Emit        \* TRUE: print one JSON record per case (spec -> code replay)

NL == 1                                  \* character class of "\n"; 0 is any other character
Str == UNION {[1..n -> {0, 1}] : n \in 0..MaxLen}

---------------------------------------------------------------------------------
(* Contract *)
NLBefore(s, p) == {i \in 1..p : s[i] = NL}
CLine(s, p)    == 1 + Cardinality(NLBefore(s, p))
CCol(s, p)     == p - (IF NLBefore(s, p) = {} THEN 0 ELSE Max(NLBefore(s, p))) + 1

---------------------------------------------------------------------------------
(* Algo (a): newline index list (0-based, ascending) and bisect_left *)
NLIdx(s)      == SelectSeq([i \in 1..Len(s) |-> i - 1], LAMBDA k : s[k + 1] = NL)
Bisect(S, p)  == Cardinality({k \in 1..Len(S) : S[k] < p})        \* library contract of bisect_left on sorted S
ALineCol(s, p) == LET S == NLIdx(s)  n == Bisect(S, p)
                  IN IF n > 0 THEN <<n + 1, p - S[n]>> ELSE <<1, p + 1>>

(* Algo (b): infer_next_position(raw, line_no, line_pos) *)
NLs(r)        == {i \in 1..Len(r) : r[i] = NL}
InferNext(r, l, c) ==
   IF r = <<>> THEN <<l, c>>
   ELSE LET parts == Cardinality(NLs(r)) + 1                       \* len(raw.split("\n"))
            lastlen == Len(r) - (IF NLs(r) = {} THEN 0 ELSE Max(NLs(r)))
        IN <<l + parts - 1, IF parts = 1 THEN c + Len(r) ELSE lastlen + 1>>

---------------------------------------------------------------------------------
(* State machine: pick a string, scan it one character per step (Algo (c)), query offsets. *)
VARIABLES s, i, line, col, emitted
vars == <<s, i, line, col, emitted>>

Init == /\ s \in Str /\ i = 0 /\ line = 1 /\ col = 1 /\ emitted = FALSE

ScanStep == /\ i < Len(s)
            /\ i' = i + 1
            /\ IF s[i + 1] = NL THEN line' = line + 1 /\ col' = 1
                                ELSE line' = line /\ col' = col + 1
            /\ UNCHANGED <<s, emitted>>

EmitCases == /\ Emit /\ i = Len(s) /\ ~emitted /\ emitted' = TRUE
             /\ PrintT(ToJson([s |-> s,
                               pos |-> [q \in 1..(Len(s) + 1) |-> <<CLine(s, q - 1), CCol(s, q - 1)>>],
                               \* infer_next_position from working location (2, 3) over each suffix-free prefix
                               infer |-> [q \in 1..(Len(s) + 1) |-> InferNext(SubSeq(s, 1, q - 1), 2, 3)]]))
             /\ UNCHANGED <<s, i, line, col>>

Next == ScanStep \/ EmitCases
Spec == Init /\ [][Next]_vars

---------------------------------------------------------------------------------
(* Properties *)
ScanMatchesContract  == line = CLine(s, i) /\ col = CCol(s, i)
BisectMatchesContract == \A p \in 0..Len(s) : ALineCol(s, p) = <<CLine(s, p), CCol(s, p)>>
\* infer_next_position from (1,1) over the prefix s[1..i] lands where the scan is; and it composes.
InferMatchesScan     == InferNext(SubSeq(s, 1, i), 1, 1) = <<line, col>>
InferComposes        == \A k \in 0..i :
                           LET a == InferNext(SubSeq(s, 1, k), 1, 1)
                           IN InferNext(SubSeq(s, k + 1, i), a[1], a[2]) = <<line, col>>
ColInLine            == col >= 1 /\ line >= 1
===============================================================================
