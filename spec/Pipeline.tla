---------------------------------- MODULE Pipeline ----------------------------------
(* The per-file pipeline of sqlfluff as a state machine — composition root of the specification and the
   contract for C04 (parse, lint and fix never crash) and C05 (no rule fails internally).

       Start(mode) -> Render -> ( Lex -> Parse )* per rendered variant -> Lint* -> [FixString] -> End(result)

   Every stage ends either normally or by *reporting* violations (TMP from Render, LXR from Lex, PRS from
   Parse, rule codes from Lint).  There is no Crash action: an exception that escapes the entry point is
   not a behaviour of this specification.  Parse limits are part of the contract: when the token count
   exceeds max_parse_nodes (> 0) the Parse stage must return no tree and at least one PRS violation.

   Variables
     stage     where the file is in its lifecycle
     nvariants rendered variants still to be lexed / parsed
     mode      "parse" | "lint" | "fix"
   The same actions are used (with the logged fields bound) by PipelineTrace to validate recorded runs. *)
EXTENDS Naturals, Sequences

VARIABLES stage, mode, variants, lexed, parsed
pvars == <<stage, mode, variants, lexed, parsed>>

Modes == {"parse", "lint", "fix"}
PInit == stage = "init" /\ mode \in Modes /\ variants = 0 /\ lexed = 0 /\ parsed = 0

Render(n) ==                     \* n rendered variants (0 = templating failed, reported as TMP)
   /\ stage = "init" /\ stage' = "rendered" /\ variants' = n /\ UNCHANGED <<mode, lexed, parsed>>
Lex ==
   /\ stage \in {"rendered", "parsed_one"} /\ lexed < variants
   /\ lexed' = lexed + 1 /\ stage' = "lexed" /\ UNCHANGED <<mode, variants, parsed>>
\* ntok: tokens handed to the parser; limit: max_parse_nodes; tree: a tree came back; nprs: PRS violations
ParseOk(ntok, limit, tree, nprs) ==
   /\ (limit > 0 /\ ntok > limit) => (~tree /\ nprs >= 1)          \* LimitReported
   /\ ~tree => nprs >= 1                                          \* NoTreeWithoutPRS
Parse(ntok, limit, tree, nprs) ==
   /\ stage = "lexed" /\ ParseOk(ntok, limit, tree, nprs)
   /\ parsed' = parsed + 1 /\ stage' = "parsed_one" /\ UNCHANGED <<mode, variants, lexed>>
\* internal: TRUE iff some reported violation is an "Unexpected exception" (C05 forbids it)
LintOk(internal) == ~internal
Lint(internal) ==
   /\ mode \in {"lint", "fix"} /\ stage \in {"parsed_one", "linted"} /\ LintOk(internal)
   /\ stage' = "linted" /\ UNCHANGED <<mode, variants, lexed, parsed>>
FixString ==
   /\ mode = "fix" /\ stage \in {"linted", "parsed_one", "rendered"}
   /\ stage' = "fixed" /\ UNCHANGED <<mode, variants, lexed, parsed>>
End ==
   /\ stage \in {"rendered", "parsed_one", "linted", "fixed"}
   /\ stage' = "done" /\ UNCHANGED <<mode, variants, lexed, parsed>>

PNext == (\E n \in 0..5 : Render(n)) \/ Lex
         \/ (\E ntok \in 0..3, limit \in 0..2, tree \in BOOLEAN, nprs \in 0..1 : Parse(ntok, limit, tree, nprs))
         \/ (\E b \in BOOLEAN : Lint(b)) \/ FixString \/ End
PSpec == PInit /\ [][PNext]_pvars

\* design-level properties of the lifecycle (checked by TLC on the bounded model)
TypeOK == stage \in {"init", "rendered", "lexed", "parsed_one", "linted", "fixed", "done"} /\ lexed <= variants /\ parsed <= lexed
NoLintInParseMode == mode = "parse" => stage \notin {"linted", "fixed"}
=====================================================================================
