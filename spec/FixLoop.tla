------------------------------- MODULE FixLoop -------------------------------
(* C13 / C17 / C18 — the fix loop of the linter: Linter.lint_fix_parsed (core/linter/linter.py:457-708).

   Abstraction.  A parse tree is a *version* v \in 0..K-1 (what the code keys `previous_versions` on:
   (tree.raw, source_fixes)).  A rule is a table  version -> proposal, a proposal being "no fixes" or
   "fixes that turn the tree into version `to`, and apply_fixes reports `ok`" (ok = the `_valid` bit
   returned by apply_fixes = validate_segment_with_reparse on the edited token list), plus the two
   class attributes the loop looks at: lint_phase (main/post) and is_fix_compatible.

   Contract layer (what C13/C17/C18 require of the engine, independent of how the loop is written):
     AdoptedTreesValid   the current tree is always reachable from the original through proposals that
                         apply_fixes declared valid (a version with ok = FALSE never becomes the tree)
     NoRevisit           the current tree never returns to a version it has left in the same run
     LimitRollback       a run that hits the loop limit returns the tree it was given
     IdempotentIfAcyclic under IdemHyp (no limit hit, valid-proposal graph acyclic, every proposing
                         rule is fix-compatible) a second run on the result adopts nothing

   Algo layer: a transcription of lint_fix_parsed with fix=True, one action per statement group:
     LoopHead  top of `for loop in range(loop_limit if phase == "main" else 2)`, incl. the for/else
               (limit hit -> return save_tree) and the first-pass `rules_this_phase = rule_pack.rules`
     Crawl     one iteration of `for crawler in rules_this_phase` with every branch of the body:
               skip (not fix-compatible after the first pass) / no fixes / `fixes == last_fixes` /
               unchanged after apply / `not _valid` / unseen -> adopt / seen before -> warn
     PassEnd   `if fix and not changed: break`, next loop, next phase, return
   Quirk modelled on purpose (Sticky = TRUE is the code): the first pass *re-binds* `rules_this_phase`
   to all rules and the variable is only reset at the top of the next phase, so post-phase rules run in
   every main-phase loop, not only in the first one as the comment in the code says.  Sticky = FALSE is
   the documented intent; with it idempotence additionally needs PostClosed (see below).
   fix_even_unparsable: apply_fixes waives the re-parse validation only for a section that was *already*
   unparsable (core/linter/fix.py: "Was it already unparsable?").  Every version of this model is a tree that
   parses, so `ok` is the validation verdict whatever the flag says; the replay (vf/fixloop_replay.py) runs each
   emitted behaviour under one value of the flag, alternating, and requires the same behaviour.
   Not modelled: the `compute_anchor_edit_info` conflict branch (pragma: no cover), rule timings.

   Tables are chosen lazily (Lazy = TRUE): an entry is picked the first time the loop consults it, so
   TLC enumerates every *behaviour* once instead of every table; entries never consulted stay Unset and
   read as "no fixes".  This loses nothing: a run depends only on the entries it consults, and a
   sub-table of an acyclic table is acyclic.  Lazy = FALSE enumerates all tables up front (cross-check).

   Each completed double run is emitted (EmitRecs) with the model's prediction and the contract's data,
   for replay into the real Linter.lint_fix_parsed with synthetic rules (harness/vf/fixloop_replay.py). *)
EXTENDS Naturals, Integers, Sequences, FiniteSets, TLC, Json, FiniteSetsExt, SequencesExt

CONSTANTS K,         \* number of versions
          NR,        \* number of rules in the pack (pack order = 1..NR)
          Limits,    \* set of runaway_limit values explored
          Lazy,      \* TRUE: choose table entries on first use
          Sticky,    \* TRUE: the code's behaviour (first pass re-binds rules_this_phase for the whole main phase)
          EmitRecs,  \* TRUE: print one JSON record per completed behaviour ...
          EmitMod,   \* ... whose checksum is 0 modulo EmitMod (1 = every behaviour; >1 = a fixed 1/EmitMod sample)
          Phases,    \* lint_phase values a rule may have ({"main","post"} is everything)
          Compats    \* is_fix_compatible values a rule may have (BOOLEAN is everything)

V == 0..(K - 1)
R == 1..NR
NoneTo  == K          \* proposal "no fixes"
UnsetTo == K + 1      \* table entry not chosen yet (reads as "no fixes")
P(to, ok) == [to |-> to, ok |-> ok]
None  == P(NoneTo, TRUE)
Unset == P(UnsetTo, TRUE)
\* proposals a rule can make on version v: nothing, a valid rewrite to any version (to = v is a fix that
\* changes nothing), or an invalid rewrite (its target is irrelevant: it is never adopted)
Props(v) == {None} \cup {P(w, TRUE) : w \in V} \cup {P((v + 1) % K, FALSE)}
NoLast == <<K, None>>
RuleTabs == {g \in [V -> UNION {Props(v) : v \in V}] : \A v \in V : g[v] \in Props(v)}

VARIABLES prop, phs, compat, limit,                       \* the rule pack and config (fixed per behaviour)
          run, pc, phase, loop, allrules, ri,             \* control
          tree, orig, prev, last, changed,                \* the code's variables
          hist, path, res, hit                            \* history: decisions, adopted versions, results
vars == <<prop, phs, compat, limit, run, pc, phase, loop, allrules, ri, tree, orig, prev, last, changed,
          hist, path, res, hit>>

-------------------------------------------------------------------------------
(* Contract *)
Entry(r, v) == IF prop[r][v].to = UnsetTo THEN None ELSE prop[r][v]
ValidEdge(a, b) == a # b /\ \E r \in R : Entry(r, a) = P(b, TRUE)
RECURSIVE ReachN(_, _)
ReachN(S, n) == IF n = 0 THEN S ELSE ReachN(S \cup {b \in V : \E a \in S : ValidEdge(a, b)}, n - 1)
ValidReach(v) == ReachN({v}, K)
Acyclic == \A a \in V : a \notin ReachN({b \in V : ValidEdge(a, b)}, K)
Proposes(r) == \E v \in V : Entry(r, v) # None
AllFixersCompat == \A r \in R : Proposes(r) => compat[r]
\* needed only for the documented (non-sticky) phase behaviour: what a post rule produces enables no main rule
PostClosed == \A q \in R, v \in V : (phs[q] = "post" /\ Entry(q, v).ok /\ Entry(q, v).to \in V \ {v})
                 => \A m \in R : phs[m] = "main" => ~(Entry(m, Entry(q, v).to).ok /\ Entry(m, Entry(q, v).to).to \in V \ {Entry(q, v).to})
IdemHyp == Acyclic /\ ~hit[1] /\ AllFixersCompat /\ (Sticky \/ PostClosed)

AdoptedTreesValid == tree \in ValidReach(orig)
NoRevisit == \A i, j \in 1..Len(path) : i # j => path[i] # path[j]
PrevIsPath == prev = {path[i] : i \in 1..Len(path)} /\ tree = path[Len(path)]
LimitRollback == \A n \in 1..2 : hit[n] => res[n] = (IF n = 1 THEN 0 ELSE res[1])
Adopts(h) == {i \in 1..Len(h) : h[i].out = "adopt"}
\* consequence of the Sticky quirk: every rule of the post phase already ran, unchanged, in the last main-phase loop,
\* so the post phase never adopts anything (it is dead code today; its 2-loop limit cannot be hit)
PostPhaseIdle == Sticky => \A n \in 1..2 : \A i \in Adopts(hist[n]) : hist[n][i].ph = "main"
IdempotentIfAcyclic == pc = "done" => (IdemHyp => res[2] = res[1] /\ Adopts(hist[2]) = {})
\* Expected NON-invariants (run with expect_violation): what each hypothesis is for
IdempotentIfNoLimit == pc = "done" => ((~hit[1] /\ AllFixersCompat /\ (Sticky \/ PostClosed)) => res[2] = res[1])   \* drops Acyclic: rule oscillation
IdempotentAnyCompat == pc = "done" => ((Acyclic /\ ~hit[1] /\ (Sticky \/ PostClosed)) => res[2] = res[1])           \* drops AllFixersCompat
IdempotentAnyPhase  == pc = "done" => ((Acyclic /\ ~hit[1] /\ AllFixersCompat) => res[2] = res[1])                   \* drops PostClosed

-------------------------------------------------------------------------------
(* Algo: lint_fix_parsed(fix=True) *)
RulesOfPhase(ph) == SelectSeq([i \in R |-> i], LAMBDA r : phs[r] = ph)
RulesThisPhase == IF allrules THEN [i \in R |-> i] ELSE RulesOfPhase(phase)
Bound == IF phase = "main" THEN limit ELSE 2
First == phase = "main" /\ loop = 0              \* is_first_linter_pass()
Note(r, out) == hist' = [hist EXCEPT ![run] = Append(@, [r |-> r, tree |-> tree, out |-> out, ph |-> phase])]

StartRun(n, v) ==
  /\ run' = n /\ pc' = "head" /\ phase' = "main" /\ loop' = 0 /\ allrules' = FALSE /\ ri' = 1
  /\ tree' = v /\ orig' = v /\ prev' = {v} /\ last' = NoLast /\ changed' = FALSE /\ path' = <<v>>

EndRun(v, limhit) ==
  /\ res' = [res EXCEPT ![run] = v] /\ hit' = [hit EXCEPT ![run] = limhit]
  /\ IF run = 1 THEN StartRun(2, v)
     ELSE /\ pc' = "done"
          /\ UNCHANGED <<run, phase, loop, allrules, ri, tree, orig, prev, last, changed, path>>

\* for loop in range(Bound): ... else: return save_tree   (linter.py:520, 673-699)
LoopHead ==
  /\ pc = "head"
  /\ IF loop >= Bound
     THEN /\ EndRun(orig, TRUE)                                        \* loop limit: original tree, fixes discarded
          /\ UNCHANGED <<prop, hist>>
     ELSE /\ changed' = FALSE
          /\ allrules' = (IF First THEN TRUE ELSE (Sticky /\ allrules))   \* rules_this_phase = rule_pack.rules (never reset: Sticky)
          /\ ri' = 1 /\ pc' = "crawl"
          /\ UNCHANGED <<prop, run, phase, loop, tree, orig, prev, last, hist, path, res, hit>>
  /\ UNCHANGED <<phs, compat, limit>>

\* one crawler of the inner loop (linter.py:543-662)
Crawl ==
  /\ pc = "crawl" /\ ri <= Len(RulesThisPhase)
  /\ LET r == RulesThisPhase[ri] IN
     IF ~First /\ ~compat[r]
     THEN /\ Note(r, "skip")                                           \* `continue`: not fix-compatible after first pass
          /\ UNCHANGED <<prop, tree, prev, last, changed, path>>
     ELSE \E p \in (IF prop[r][tree] = Unset THEN (IF Lazy THEN Props(tree) ELSE {None}) ELSE {prop[r][tree]}) :
          /\ prop' = [prop EXCEPT ![r][tree] = p]
          /\ IF p = None
             THEN /\ Note(r, "none") /\ UNCHANGED <<tree, prev, last, changed, path>>
             ELSE IF last = <<tree, p>>                                \* fixes == last_fixes
             THEN /\ Note(r, "same_as_last") /\ UNCHANGED <<tree, prev, last, changed, path>>
             ELSE /\ last' = <<tree, p>>                               \* last_fixes = fixes ; apply_fixes(...)
                  /\ IF p.to = tree                                    \* loop_check_tuple == (tree.raw, source_fixes)
                     THEN /\ Note(r, "unchanged") /\ UNCHANGED <<tree, prev, changed, path>>
                     ELSE IF ~p.ok                                     \* elif not _valid
                     THEN /\ Note(r, "invalid") /\ UNCHANGED <<tree, prev, changed, path>>
                     ELSE IF p.to \notin prev                          \* elif loop_check_tuple not in previous_versions
                     THEN /\ Note(r, "adopt")
                          /\ tree' = p.to /\ prev' = prev \cup {p.to} /\ changed' = TRUE
                          /\ path' = Append(path, p.to)
                     ELSE /\ Note(r, "seen") /\ UNCHANGED <<tree, prev, changed, path>>   \* _warn_unfixable
  /\ ri' = ri + 1
  /\ UNCHANGED <<phs, compat, limit, run, pc, phase, loop, allrules, orig, res, hit>>

\* after the inner loop: `if fix and not changed: break`, else next loop; after break: next phase or return
PassEnd ==
  /\ pc = "crawl" /\ ri > Len(RulesThisPhase)
  /\ IF changed
     THEN /\ loop' = loop + 1 /\ pc' = "head"
          /\ UNCHANGED <<run, phase, allrules, ri, tree, orig, prev, last, changed, path, res, hit>>
     ELSE IF phase = "main"
     THEN /\ phase' = "post" /\ loop' = 0 /\ allrules' = FALSE /\ pc' = "head"   \* rules_this_phase recomputed
          /\ UNCHANGED <<run, ri, tree, orig, prev, last, changed, path, res, hit>>
     ELSE EndRun(tree, FALSE)
  /\ UNCHANGED <<prop, phs, compat, limit, hist>>

Tab(r) == [i \in 1..K |-> <<Entry(r, i - 1).to, Entry(r, i - 1).ok>>]
RECURSIVE SumTab(_, _)
SumTab(r, v) == IF r > NR THEN 0
                ELSE IF v >= K THEN SumTab(r + 1, 0)
                ELSE Entry(r, v).to * (3 * r + 7 * v + 1) + (IF Entry(r, v).ok THEN 0 ELSE 13) + SumTab(r, v + 1)
Checksum == SumTab(1, 0) + limit + 5 * Len(hist[1]) + 11 * Len(hist[2])
Emit ==
  /\ pc = "done" /\ pc' = "emitted"
  /\ (EmitRecs /\ Checksum % EmitMod = 0) => PrintT(ToJson(
       [k |-> K, limit |-> limit, sticky |-> Sticky,
        rules |-> [r \in R |-> [phase |-> phs[r], compat |-> compat[r], tab |-> Tab(r)]],
        pred |-> [res |-> res, hit |-> hit, hist |-> hist],
        contract |-> [reach0 |-> SetToSeq(ValidReach(0)), acyclic |-> Acyclic,
                      idem_required |-> IdemHyp]]))
  /\ UNCHANGED <<prop, phs, compat, limit, run, phase, loop, allrules, ri, tree, orig, prev, last, changed,
                 hist, path, res, hit>>

Init ==
  /\ prop \in (IF Lazy THEN {[r \in R |-> [v \in V |-> Unset]]} ELSE [R -> RuleTabs])
  /\ phs \in [R -> Phases]
  /\ compat \in [R -> Compats]
  /\ limit \in Limits
  /\ run = 1 /\ pc = "head" /\ phase = "main" /\ loop = 0 /\ allrules = FALSE /\ ri = 1
  /\ tree = 0 /\ orig = 0 /\ prev = {0} /\ last = NoLast /\ changed = FALSE
  /\ hist = <<<<>>, <<>>>> /\ path = <<0>> /\ res = <<0, 0>> /\ hit = <<FALSE, FALSE>>

Next == LoopHead \/ Crawl \/ PassEnd \/ Emit
Spec == Init /\ [][Next]_vars

TypeOK == /\ tree \in V /\ orig \in V /\ prev \subseteq V /\ loop \in 0..(limit + 2) /\ ri \in 1..(NR + 1)
          /\ pc \in {"head", "crawl", "done", "emitted"} /\ phase \in {"main", "post"} /\ run \in 1..2
=============================================================================
