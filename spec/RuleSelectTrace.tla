--------------------------- MODULE RuleSelectTrace ---------------------------
(* Code -> spec validation for C21.  One trace = one input linted in lint mode with a rule selection
   (allow, deny selector strings) and then with every selected rule alone, on the live registry
   (IOEnv.VF_REGISTRY).  Events, in the order recorded:

     Pack   codes      : codes of the rule pack the real Linter.get_rulepack built for (allow, deny)
     Lint   reported   : distinct rule codes of all violations of the LintedFile (before any filtering)
     Alone  rule, pack, codes, inset, alone :
                         the run with `rules = <rule>` only — its pack, its reported codes, the
                         violations of <rule> in the run with the whole selection (inset) and in this
                         run (alone), each a sequence of <<line, pos, description id>> in report order.

   Contract: RuleSelect!SelectedRefs (evaluated here, on the trace's own selector strings),
   OnlySelected, Independent.                                                                      *)
EXTENDS RuleSelect, TLCExt

Traces == JsonDeserialize(IOEnv.VF_TRACES)
VARIABLES tid, pc, rej, nacc, fin, sel, seen
tvars == <<tid, pc, rej, nacc, fin, sel, seen, allow, deny>>

T  == Traces[tid]
Ev == T.events[pc + 1]
SelOf(t) == SelectedRefs(ToSetS(t.allow), ToSetS(t.deny))

Clause ==
  CASE Ev.ev = "Pack"  -> IF ToSetS(Ev.codes) # sel THEN "PackIsSelected" ELSE "ok"
    [] Ev.ev = "Lint"  -> IF ~OnlySelected(sel, ToSetS(Ev.reported)) THEN "OnlySelected" ELSE "ok"
    [] Ev.ev = "Alone" -> IF Ev.rule \notin sel THEN "AloneRuleSelected"
                          ELSE IF ToSetS(Ev.pack) # SelectedRefs({Ev.rule}, {}) \/ ToSetS(Ev.pack) # {Ev.rule}
                               THEN "AlonePackExact"
                          ELSE IF ~OnlySelected({Ev.rule}, ToSetS(Ev.codes)) THEN "OnlySelectedAlone"
                          ELSE IF ~Independent(Ev.inset, Ev.alone) THEN "Independent"
                          ELSE "ok"
    [] OTHER -> "UnknownEvent"

Load(k) == IF k <= Len(Traces) THEN sel' = SelOf(Traces[k]) ELSE sel' = {}
NextTrace == tid' = tid + 1 /\ pc' = 0 /\ seen' = {} /\ Load(tid + 1)
TInit == /\ tid = 1 /\ pc = 0 /\ rej = <<>> /\ nacc = 0 /\ fin = FALSE /\ seen = {}
         /\ allow = {} /\ deny = {}
         /\ sel = (IF Len(Traces) >= 1 THEN SelOf(Traces[1]) ELSE {})
Step == /\ tid <= Len(Traces) /\ pc < Len(T.events)
        /\ IF Clause = "ok"
           THEN /\ pc' = pc + 1
                /\ seen' = (IF Ev.ev = "Alone" THEN seen \cup {Ev.rule} ELSE seen)
                /\ UNCHANGED <<tid, rej, nacc, fin, sel>>
           ELSE /\ rej' = Append(rej, [id |-> T.id, step |-> pc + 1, clause |-> Clause])
                /\ NextTrace /\ UNCHANGED <<nacc, fin>>
        /\ UNCHANGED <<allow, deny>>
\* end-of-trace obligation: the differential covered every selected rule (unless the trace says it is partial)
EndTrace == /\ tid <= Len(Traces) /\ pc = Len(T.events)
            /\ IF T.complete => seen = sel
               THEN nacc' = nacc + 1 /\ UNCHANGED rej
               ELSE rej' = Append(rej, [id |-> T.id, step |-> pc, clause |-> "EveryRuleAlone"]) /\ UNCHANGED nacc
            /\ NextTrace /\ UNCHANGED <<fin, allow, deny>>
Finish == /\ tid = Len(Traces) + 1 /\ ~fin /\ fin' = TRUE
          /\ PrintT(ToJson([accepted |-> nacc, rejected |-> rej]))
          /\ UNCHANGED <<tid, pc, rej, nacc, sel, seen, allow, deny>>
TraceNext == Step \/ EndTrace \/ Finish
TraceSpec == TInit /\ [][TraceNext]_tvars
=============================================================================
