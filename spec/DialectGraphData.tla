---- MODULE DialectGraphData ----
\* Stand-in data so that DialectGraph.tla parses on its own.  At check time harness/vf/dialect_graph.py
\* generates a module of the same name from the expanded dialect libraries (one entry per dialect) and the
\* TLC driver stages it over this file.  The toy graph below has one reachable dangling reference
\* (B -> "Missing") and one unreachable one (D -> "Other").
Dialects == <<"toy">>
NDefined == <<4>>
RootOf == <<1>>
NameOf == << <<"A", "B", "C", "D", "Missing", "Other">> >>
EdgesOf == << << {2, 3}, {3, 5}, {1}, {6} >> >>
ObservedOf == << {1, 2, 3} >>
====
