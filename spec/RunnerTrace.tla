---------------------------- MODULE RunnerTrace ----------------------------
(* Code -> spec validation for C24.  One trace = one real run of Linter.lint_paths / `sqlfluff lint|fix`
   on a generated directory with some number of processes, together with the serial run (processes = 1) of
   the same command on an identical copy of the directory (`base`).

   Events, in the order of the lines of the NDJSON file every process appends to:
     take(w,f) finish(w,f)    worker side, runner hook in ParallelRunner._apply           (hooked runs only)
     consume(f) skip(f)       main side, runner hook in ParallelRunner.run's loop         (hooked runs only)
     add(f,rec,dir)           LintedDir.add           } recorded by wrappers the harness installs in the main
     persist(f,pre,post,main) LintedFile.persist_tree } process (no source change), so present in every run
     rskip(f)                 Linter.render_file raising SQLFluffSkipFile in the main process (serial runs, and pool
                              runs that render in the main process while feeding the pool: Runner!SkipAtSubmit)
   Files, records and file contents are interned to small integers by the recorder; equal ids <=> equal
   values.  The state is Runner's; each event is bound to the Runner action it witnesses (TakeAt, FinishOf,
   Skip, Drop, Add, PersistTo), and Runner's `outcome` -- the fixed function of the file -- is what the
   serial run observed.  Without the hook nothing is known about the workers, so such a trace starts with
   every task already finished and only the main-side actions and the outcome clauses are validated.    *)
EXTENDS Runner, IOUtils, TLCExt

Traces == JsonDeserialize(IOEnv.VF_TRACES)
VARIABLES tid, pc, rej, nacc, fin,
          held,     \* the result the main loop has taken from the iterator and not yet classified (hooked runs)
          seqs,     \* last per-process sequence number seen, per event stream
          nworkers  \* highest worker id seen
tvars == <<tid, pc, rej, nacc, fin, held, seqs, nworkers, vars>>

Tr  == Traces[tid]
Ev  == Tr.events[pc + 1]
B   == Tr.base
NoTask == [t |-> 0, c |-> Unread]

(* Runner!outcome as observed by the serial run.  rec0 = the record of the first visit, rec1 = of the last
   (they differ only for a file named twice whose fix was written in between).                         *)
OutOf(tr, f) ==
  LET rs == tr.base.recs[f] IN
  [skip  |-> tr.base.skip[f], raise |-> rs = <<>> /\ ~tr.base.skip[f],
   rec0  |-> IF rs = <<>> THEN 0 ELSE rs[1], rec1 |-> IF rs = <<>> THEN 0 ELSE rs[Len(rs)],
   live  |-> FALSE, unfix |-> FALSE,
   block |-> ~tr.base.persist[f], fix |-> tr.base.content[f] # tr.orig[f]]

Load(k) ==
  IF k > Len(Traces)
  THEN /\ tasks' = <<>> /\ outcome' = <<>> /\ nw' = 0 /\ mode' = "serial" /\ op' = "lint" /\ queue' = <<>>
       /\ mainrender' = FALSE /\ ready' = <<>>
       /\ running' = <<>> /\ done' = {} /\ files' = <<>>
  ELSE LET tr == Traces[k] IN
       /\ tasks' = tr.tasks
       /\ mainrender' = FALSE /\ ready' = <<>>     \* where rendering happens is not assumed: see rskip below
       /\ outcome' = [f \in 1..tr.nfiles |-> OutOf(tr, f)]
       /\ nw' = tr.n /\ mode' = tr.mode /\ op' = (IF tr.apply THEN "fix" ELSE "lint")
       /\ queue' = (IF tr.hook THEN [i \in 1..Len(tr.tasks) |-> i] ELSE <<>>)
       /\ done' = (IF tr.hook THEN {} ELSE {[t |-> i, c |-> Unread] : i \in 1..Len(tr.tasks)})
       /\ running' = [w \in 1..tr.n |-> Idle]
       /\ files' = tr.orig

Reset(k) == /\ Load(k)
            /\ consumed' = {} /\ dropped' = {} /\ skipped' = 0 /\ pending' = 0 /\ persisted' = {}
            /\ comp' = <<>> /\ ncons' = 0 /\ aborted' = FALSE /\ emitted' = FALSE
            /\ held' = NoTask /\ seqs' = [s \in 1..64 |-> 0] /\ nworkers' = 0

QueuedOf(f) == {i \in 1..Len(queue) : tasks[queue[i]] = f}
DoneOf(f)   == {d \in done \ {held} : tasks[d.t] = f}
Least(S)    == CHOOSE x \in S : \A y \in S : x <= y
PickDone(f) == CHOOSE d \in DoneOf(f) : \A e \in DoneOf(f) : d.t <= e.t
(* the records a visit of f may report: the serial run's first; or, once f's fix is on disk, its later ones *)
MayReport(f, rec) == \/ (B.recs[f] # <<>> /\ rec = B.recs[f][1])
                     \/ (f \in persisted /\ rec \in ToSet(B.recs[f]))

(* per-process sequence numbers: no line of a process was lost or reordered (threads of one process share
   the counter and race between counting and writing, so thread-pool runs are exempt)                    *)
SeqClause == IF mode # "ordered" /\ seqs[Ev.src] # 0 /\ Ev.seq # seqs[Ev.src] + 1 THEN "EventStreamContiguous"
             ELSE "ok"

Clause ==
  IF SeqClause # "ok" THEN SeqClause ELSE
  CASE Ev.ev = "take" ->
         IF ~(Ev.w \in 1..nw) THEN "PoolSizeRespected"
         ELSE IF running[Ev.w].t # 0 THEN "WorkerTakesOneAtATime"
         ELSE IF QueuedOf(Ev.f) = {} THEN "TakenOnce"
         ELSE "ok"
    [] Ev.ev = "finish" ->
         IF ~(Ev.w \in 1..nw) \/ running[Ev.w].t = 0 \/ tasks[running[Ev.w].t] # Ev.f THEN "FinishedOnceAfterTake"
         ELSE "ok"
    [] Ev.ev = "consume" ->
         IF pending # 0 THEN "PersistFollowsAdd"
         ELSE IF DoneOf(Ev.f) = {} THEN "ConsumedOnceAfterFinish"
         ELSE IF mode = "ordered" /\ tasks[LeastOf(Outstanding \ {held.t})] # Ev.f THEN "OrderedMapYieldsInOrder"
         ELSE IF held.t # 0 /\ ~O(held.t).raise THEN "ResultNeitherAddedNorSkipped"
         ELSE "ok"
    [] Ev.ev = "skip" ->
         IF held.t = 0 \/ tasks[held.t] # Ev.f THEN "SkipOfConsumedResult"
         ELSE IF ~O(held.t).skip THEN "SkippedIffSerialSkipped"
         ELSE "ok"
    [] Ev.ev = "add" ->
         IF Tr.hook /\ (held.t = 0 \/ tasks[held.t] # Ev.f) THEN "AddOfConsumedResult"
         ELSE IF ~Tr.hook /\ DoneOf(Ev.f) = {} THEN "NothingLost"
         ELSE IF pending # 0 THEN "PersistFollowsAdd"
         ELSE IF O(Least({t \in T : tasks[t] = Ev.f})).skip THEN "SkippedIffSerialSkipped"
         ELSE IF ~MayReport(Ev.f, Ev.rec) THEN "RecordsAgree"
         ELSE IF ~(Ev.f \in ToSet(Tr.expands[Ev.dir])) THEN "RecordUnderItsOwnPath"
         ELSE "ok"
    [] Ev.ev = "persist" ->
         IF ~Tr.apply THEN "WrittenAgree"
         ELSE IF ~Ev.main THEN "PersistInMain"
         ELSE IF pending = 0 \/ tasks[pending] # Ev.f THEN "PersistFollowsAdd"
         ELSE IF Ev.pre # files[Ev.f] THEN "WriteAfterAdd"
         ELSE IF Ev.post # B.content[Ev.f] THEN "WrittenAgree"
         ELSE "ok"
    [] Ev.ev = "rskip" ->               \* render_file raised SQLFluffSkipFile in the main process
         IF ~Tr.hook THEN "ok"          \* serial / unhooked runs: informative; the end-of-trace clauses decide
         ELSE IF Ev.w # 0                \* written by a pool *thread* that holds the task: the skip will be shipped
         THEN (IF ~(Ev.w \in 1..nw) \/ running[Ev.w].t = 0 \/ tasks[running[Ev.w].t] # Ev.f
               THEN "RenderSkipByHoldingWorker" ELSE "ok")          \* as a DelayedException (consume/skip follow)
         ELSE IF QueuedOf(Ev.f) = {} THEN "SkippedBeforeSubmit"      \* by the feeder, rendering in main: Runner!SkipAtSubmit
         ELSE IF ~O(queue[Least(QueuedOf(Ev.f))]).skip THEN "SkippedIffSerialSkipped"
         ELSE "ok"
    [] OTHER -> "UnknownEvent"

Bump == seqs' = [seqs EXCEPT ![Ev.src] = Ev.seq]
Apply1 ==
  CASE Ev.ev = "take"    -> /\ TakeAt(Ev.w, Least(QueuedOf(Ev.f))) /\ UNCHANGED held
                            /\ nworkers' = (IF Ev.w > nworkers THEN Ev.w ELSE nworkers)
    [] Ev.ev = "finish"  -> FinishOf(Ev.w) /\ UNCHANGED <<held, nworkers>>
    [] Ev.ev = "consume" -> /\ held' = PickDone(Ev.f) /\ UNCHANGED nworkers
                            /\ IF held.t # 0 THEN Drop(held) ELSE UNCHANGED vars
    [] Ev.ev = "skip"    -> Skip(held) /\ held' = NoTask /\ UNCHANGED nworkers
    [] Ev.ev = "add"     -> /\ Add(IF Tr.hook THEN held ELSE PickDone(Ev.f), Ev.rec)
                            /\ held' = NoTask /\ UNCHANGED nworkers
    [] Ev.ev = "persist" -> PersistTo(Ev.post) /\ UNCHANGED <<held, nworkers>>
    [] Ev.ev = "rskip"   -> /\ IF Tr.hook /\ Ev.w = 0 THEN SkipAtSubmit(Least(QueuedOf(Ev.f))) ELSE UNCHANGED vars
                            /\ UNCHANGED <<held, nworkers>>

(* End of trace: the contract's outcome clauses (Runner!RecordsAgree etc. with outcome = serial run), on the
   state reached through the events and on what the run finally reported.                                *)
FinalRecsOf(f) == Tr.final.recs[f]
Count(seq, r)  == Cardinality({i \in 1..Len(seq) : seq[i] = r})
AddedCount(f, r) == Cardinality({x \in consumed : tasks[x.t] = f /\ x.rec = r})
RecIds(f) == {x.rec : x \in {y \in consumed : tasks[y.t] = f}} \cup ToSet(FinalRecsOf(f))
ResultIsWhatWasAdded == \A f \in 1..Tr.nfiles : \A r \in RecIds(f) : AddedCount(f, r) = Count(FinalRecsOf(f), r)
Leftover == {d.t : d \in done}                      \* includes `held`, which stays in `done` until classified
Escaped  == B.raised \/ Tr.final.raised             \* an exception left lint_paths: no result to compare
EndClause ==
  IF Tr.final.raised # B.raised THEN "EscapeAgrees"
  ELSE IF Escaped THEN "ok"
  ELSE IF Tr.hook /\ (queue # <<>> \/ \E w \in 1..nw : running[w].t # 0) THEN "EveryTaskTakenAndFinished"
  ELSE IF pending # 0 THEN "PersistFollowsAdd"
  ELSE IF Tr.hook /\ \E t \in Leftover : ~O(t).raise THEN "ConsumedOnceAfterFinish"
  ELSE IF ~Tr.hook /\ \E t \in Leftover : ~(O(t).raise \/ O(t).skip) THEN "NothingLost"
  ELSE IF ~RecordsAgree THEN "RecordsAgree"
  ELSE IF ~NothingLost THEN "NothingLost"
  ELSE IF ~ResultIsWhatWasAdded THEN "ResultIsWhatWasAdded"
  ELSE IF Tr.hook /\ ~SkipsCounted THEN "SkipsCounted"
  ELSE IF Tr.final.skipknown /\ Tr.final.skipped # ExpSkipped THEN "SkipsCounted"
  ELSE IF \E f \in 1..Tr.nfiles : Tr.final.content[f] # B.content[f] THEN "WrittenAgree"
  ELSE IF ~(persisted \subseteq {f \in 1..Tr.nfiles : B.persist[f]}) THEN "PersistInMain"
  ELSE IF Tr.final.exit # B.exit THEN "ExitAgrees"
  ELSE "ok"

NextTrace == tid' = tid + 1 /\ pc' = 0 /\ Reset(tid + 1)
TInit == /\ tid = 0 /\ pc = 0 /\ rej = <<>> /\ nacc = 0 /\ fin = FALSE
         /\ tasks = <<>> /\ outcome = <<>> /\ nw = 0 /\ mode = "serial" /\ op = "lint" /\ queue = <<>>
         /\ mainrender = FALSE /\ ready = <<>>
         /\ running = <<>> /\ done = {} /\ files = <<>>
         /\ consumed = {} /\ dropped = {} /\ skipped = 0 /\ pending = 0 /\ persisted = {}
         /\ comp = <<>> /\ ncons = 0 /\ aborted = FALSE /\ emitted = FALSE
         /\ held = NoTask /\ seqs = [s \in 1..64 |-> 0] /\ nworkers = 0
Start == tid = 0 /\ NextTrace /\ UNCHANGED <<rej, nacc, fin>>
Step == /\ tid >= 1 /\ tid <= Len(Traces) /\ pc < Len(Tr.events) /\ ~Escaped
        /\ IF Clause = "ok" THEN pc' = pc + 1 /\ Bump /\ Apply1 /\ UNCHANGED <<tid, rej, nacc, fin>>
           ELSE /\ rej' = Append(rej, [id |-> Tr.id, step |-> pc + 1, clause |-> Clause])
                /\ NextTrace /\ UNCHANGED <<nacc, fin>>
EndTrace == /\ tid >= 1 /\ tid <= Len(Traces) /\ (pc = Len(Tr.events) \/ Escaped)
            /\ IF EndClause = "ok" THEN nacc' = nacc + 1 /\ UNCHANGED rej
               ELSE rej' = Append(rej, [id |-> Tr.id, step |-> pc + 1, clause |-> EndClause]) /\ UNCHANGED nacc
            /\ NextTrace /\ UNCHANGED fin
Finish1 == /\ tid = Len(Traces) + 1 /\ ~fin /\ fin' = TRUE
           /\ PrintT(ToJson([accepted |-> nacc, rejected |-> rej]))
           /\ UNCHANGED <<tid, pc, rej, nacc, held, seqs, nworkers, vars>>
TraceNext == Start \/ Step \/ EndTrace \/ Finish1
TraceSpec == TInit /\ [][TraceNext]_tvars
=============================================================================
