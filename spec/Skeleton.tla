-------------------------------- MODULE Skeleton --------------------------------
(* Small-scope input space for the templating / lexing properties (C01, C07, C04): every balanced Jinja
   template skeleton of at most MaxFrags fragments over the fragment kinds below.  TLC enumerates the
   space completely; each emitted skeleton is concretised by the harness as
        "SELECT " + fragments + " FROM t\n"
   with the context  t = 'x',  e = '',  w = ' ',  r = [1, 2].

   fragment kinds
     w      a            sp     (one space)        spw    (space)b        comma  ,          nl  newline
     et     {{ t }}      ee     {{ e }}            es     {{ w }}
     ift    {% if true %}   iff  {% if false %}    else   {% else %}      endif  {% endif %}
     for    {% for i in r %}                       endfor {% endfor %}
     cmt    {# c #}      ifws   {%- if true -%}                                                      *)
EXTENDS Naturals, Sequences, TLC, Json

CONSTANTS MaxFrags, Emit
Plain  == {"w", "sp", "spw", "comma", "nl", "et", "ee", "es", "cmt"}
Kinds  == Plain \cup {"ift", "iff", "ifws", "else", "endif", "for", "endfor"}

VARIABLES frags, stack, emitted
vars == <<frags, stack, emitted>>

Top == stack[Len(stack)]
Pop == SubSeq(stack, 1, Len(stack) - 1)
Room(extra) == Len(frags) + 1 + extra <= MaxFrags      \* every open block can still be closed

Init == frags = <<>> /\ stack = <<>> /\ emitted = FALSE
Add(kd) ==
   /\ ~emitted /\ frags' = Append(frags, kd) /\ UNCHANGED emitted
   /\ CASE kd \in Plain -> Room(Len(stack)) /\ UNCHANGED stack
        [] kd \in {"ift", "iff", "ifws"} -> Room(Len(stack) + 1) /\ stack' = Append(stack, "if")
        [] kd = "for" -> Room(Len(stack) + 1) /\ stack' = Append(stack, "for")
        [] kd = "else" -> stack # <<>> /\ Top = "if" /\ Room(Len(stack)) /\ stack' = Append(Pop, "else")
        [] kd = "endif" -> stack # <<>> /\ Top \in {"if", "else"} /\ Room(Len(stack) - 1) /\ stack' = Pop
        [] kd = "endfor" -> stack # <<>> /\ Top = "for" /\ Room(Len(stack) - 1) /\ stack' = Pop
EmitIt == /\ Emit /\ ~emitted /\ stack = <<>> /\ frags # <<>>
          /\ emitted' = TRUE /\ PrintT(ToJson(frags)) /\ UNCHANGED <<frags, stack>>
Next == (\E kd \in Kinds : Add(kd)) \/ EmitIt
Spec == Init /\ [][Next]_vars

Balanced == emitted => stack = <<>>
WithinBudget == Len(frags) <= MaxFrags
=================================================================================
