---------------------------------- MODULE PosTrace ----------------------------------
(* C23 — reported violation positions are accurate.  Code -> spec validation of lint runs (lint mode).

   One trace = one linted file; `lens` = the lengths of the source file's lines (split on "\n", computed by
   the recorder independently of the code's newline index); one event per reported violation:

     line, col             what the violation reports (1-based)
     hasoff, sline, scol, sfp, eline, ecol, efp     the machine-readable dict (SQLBaseError.to_dict), if it has offsets
     fixes                 << <<sline, scol, sfp, eline, ecol, efp>> ... >>  offsets of the serialised fix edits
     anchor                TRUE iff the violation is on code that exists in the source: the anchor segment is not a
                           meta, has text, and its source span is literal and non-empty
     as0, texteq           the anchor's source start; src[as0, as1) = anchor text
   and one final event "Formats" with the (code, line, col) rows each output format printed.

   The offset <-> (line, col) relation is the one proved / model-checked in LineCol / LineColEquiv:
      Rel(L, p, l, c) == l \in 1..#L /\ c \in 1..L[l]+1 /\ p = sum(L[1..l-1]) + (l-1) + (c-1)                     *)
EXTENDS Naturals, Integers, Sequences, FiniteSets, TLC, Json, IOUtils, TLCExt

Traces == JsonDeserialize(IOEnv.VF_TRACES)
VARIABLES tid, pc, rej, nacc, fin
vars == <<tid, pc, rej, nacc, fin>>
T  == Traces[tid]
Ev == T.events[pc + 1]
L  == T.lens

RECURSIVE SumTo(_, _)
SumTo(S, k) == IF k = 0 THEN 0 ELSE S[k] + SumTo(S, k - 1)
\* prefix sums are precomputed once per trace by the recorder? no: computed here, files are short enough
Rel(p, l, c) == /\ l >= 1 /\ l <= Len(L) /\ c >= 1 /\ c <= L[l] + 1
                /\ p = SumTo(L, l - 1) + (l - 1) + (c - 1)
InFile(l, c) == l >= 1 /\ l <= Len(L) /\ c >= 1 /\ c <= L[l] + 1
ToSet(s) == {s[i] : i \in 1..Len(s)}

Clause ==
   IF Ev.ev = "Formats"
   THEN IF \E f \in DOMAIN Ev.rows : ToSet(Ev.rows[f]) # ToSet(Ev.api) THEN "FormatsAgree" ELSE "ok"
   ELSE IF ~InFile(Ev.line, Ev.col) THEN "LineColInFile"
   ELSE IF Ev.hasoff /\ ~(Ev.sline = Ev.line /\ Ev.scol = Ev.col) THEN "DictMatchesReported"
   ELSE IF Ev.hasoff /\ ~Rel(Ev.sfp, Ev.sline, Ev.scol) THEN "StartOffsetAgrees"
   ELSE IF Ev.hasoff /\ ~Rel(Ev.efp, Ev.eline, Ev.ecol) THEN "EndOffsetAgrees"
   ELSE IF Ev.hasoff /\ Ev.sfp > Ev.efp THEN "StartBeforeEnd"
   ELSE IF \E i \in 1..Len(Ev.fixes) : ~(Rel(Ev.fixes[i][3], Ev.fixes[i][1], Ev.fixes[i][2])
                                          /\ Rel(Ev.fixes[i][6], Ev.fixes[i][4], Ev.fixes[i][5])) THEN "FixOffsetsAgree"
   ELSE IF Ev.anchor /\ ~Rel(Ev.as0, Ev.line, Ev.col) THEN "AnchorFirstChar"
   ELSE IF Ev.anchor /\ ~Ev.texteq THEN "AnchorText"
   ELSE "ok"

NextTrace == tid' = tid + 1 /\ pc' = 0
Init == tid = 1 /\ pc = 0 /\ rej = <<>> /\ nacc = 0 /\ fin = FALSE
Step == /\ tid <= Len(Traces) /\ pc < Len(T.events)
        /\ IF Clause = "ok" THEN pc' = pc + 1 /\ UNCHANGED <<tid, rej, nacc, fin>>
           ELSE /\ rej' = Append(rej, [id |-> T.id, step |-> pc + 1, clause |-> Clause])
                /\ NextTrace /\ UNCHANGED <<nacc, fin>>
EndTrace == /\ tid <= Len(Traces) /\ pc = Len(T.events)
            /\ nacc' = nacc + 1 /\ NextTrace /\ UNCHANGED <<rej, fin>>
Finish == /\ tid = Len(Traces) + 1 /\ ~fin /\ fin' = TRUE
          /\ PrintT(ToJson([accepted |-> nacc, rejected |-> rej]))
          /\ UNCHANGED <<tid, pc, rej, nacc>>
TraceNext == Step \/ EndTrace \/ Finish
TraceSpec == Init /\ [][TraceNext]_vars
=====================================================================================
