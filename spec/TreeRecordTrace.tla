--------------------------- MODULE TreeRecordTrace ---------------------------
(* Code -> spec validation for C28.  One trace = one real file parsed once (Linter.parse_string) and
   shown through every output channel: as_record (the record the CLI/API serialise), sqlfluff.parse
   (API), and the CLI `parse` command in json / yaml (parsed back) / human format, each with and
   without --code-only and --include-meta.

   Trace fields (texts and type names are interned to small integers per trace by the recorder):
     tree : pre-order list of <<depth, type, text (-1 for a node with children), is_meta, holds_code>>
            obtained by a plain walk over `.segments`
     raws : <<text, is_meta, is_code>> of tree.raw_segments (the tokens of the file, in file order)
     seqs : the distinct pre-order lists <<depth, type, text, meta mark (-1 unknown)>> read from outputs
   Events: "Tree" (the walk and raw_segments agree on the tokens; cuts = the rendered SQL cut at the
   cumulative lengths of the tokens, rest = what is left of it after them), "Rec" (one output: s = index
   into seqs, co / im flags), "NoOutput" (a channel gave nothing).

   Contract (the same as TreeRecord!TreeSeq, over recorded data): the output lists exactly the nodes
   that must be shown — all of them, minus meta leaves unless metas are included, and under --code-only
   only nodes holding code — in tree order, with the same depths and types, every non-meta leaf with its text;
   the tokens concatenate to the rendered SQL, hence so do the texts of any output without --code-only. *)
EXTENDS Naturals, Integers, Sequences, TLC, Json, IOUtils, TLCExt

Traces == JsonDeserialize(IOEnv.VF_TRACES)
VARIABLES tid, pc, rej, nacc, fin
vars == <<tid, pc, rej, nacc, fin>>

T  == Traces[tid]
Ev == T.events[pc + 1]

\* nodes that must be shown (TreeRecord!MustShow): the root always; metas only when included; under
\* code_only only non-meta nodes holding code
Shown(co, im) == LET tr == T.tree IN
   SelectSeq([x \in 1..Len(tr) |-> <<x, tr[x]>>],
             LAMBDA p : \/ p[1] = 1
                        \/ IF co THEN p[2][5] = 1 /\ p[2][4] = 0 ELSE (im \/ p[2][4] = 0))
LeafTexts(seq, k) == LET l == SelectSeq(seq, LAMBDA n : n[k] # (0 - 1)) IN [x \in 1..Len(l) |-> l[x][k]]

TreeClause ==
   LET tr == T.tree
       lv == SelectSeq(tr, LAMBDA n : n[3] # (0 - 1))
   IN IF [x \in 1..Len(lv) |-> <<lv[x][3], lv[x][4], lv[x][5]>>] # [x \in 1..Len(T.raws) |-> <<T.raws[x][1], T.raws[x][2], T.raws[x][3]>>]
      THEN "RawSegmentsAreTheTreeLeaves"
      \* the tokens of the file, in file order, concatenate to the rendered SQL (cuts = the rendered SQL cut at
      \* the cumulative token lengths, rest = what is left over); outputs are then compared token by token
      ELSE IF Ev.rest # 0 \/ Ev.cuts # [x \in 1..Len(T.raws) |-> T.raws[x][1]] THEN "TokensConcatenateToTheRenderedSQL"
      ELSE "ok"

\* An output is compared with the nodes that must be shown.  The text shown for a *meta* leaf is not
\* constrained (metas are not tokens of the file; placeholders deliberately show their source text).
RecClause ==
   LET seq  == T.seqs[Ev.s]
       want == Shown(Ev.co, Ev.im)
       wl   == [x \in 1..Len(want) |-> want[x][2]]
       LeafTypes(q) == LET l == SelectSeq(q, LAMBDA n : n[3] # (0 - 1)) IN [x \in 1..Len(l) |-> l[x][2]]
   IN IF LeafTypes(seq) # LeafTypes(wl) THEN "ListsEveryTokenInFileOrder"
      ELSE IF [x \in 1..Len(seq) |-> <<seq[x][1], seq[x][2], seq[x][3] = (0 - 1)>>]
              # [x \in 1..Len(wl) |-> <<wl[x][1], wl[x][2], wl[x][3] = (0 - 1)>>] THEN "TypesNestAsInTheTree"
      ELSE IF \E x \in 1..Len(seq) : wl[x][4] = 0 /\ seq[x][3] # wl[x][3] THEN "TokenTextsAreExact"
      ELSE IF Ev.human /\ \E x \in 1..Len(seq) : seq[x][4] # wl[x][4] THEN "MetaMarkedAsMeta"
      ELSE "ok"

Clause == CASE Ev.ev = "Tree" -> TreeClause
            [] Ev.ev = "Rec"  -> RecClause
            [] Ev.ev = "NoOutput" -> "ChannelProducedOutput"
            [] OTHER -> "UnknownEvent"

NextTrace == tid' = tid + 1 /\ pc' = 0
Init == tid = 1 /\ pc = 0 /\ rej = <<>> /\ nacc = 0 /\ fin = FALSE
Step == /\ tid <= Len(Traces) /\ pc < Len(T.events)
        /\ IF Clause = "ok" THEN pc' = pc + 1 /\ UNCHANGED <<tid, rej, nacc, fin>>
           ELSE /\ rej' = Append(rej, [id |-> T.id, step |-> pc + 1, clause |-> Clause])
                /\ NextTrace /\ UNCHANGED <<nacc, fin>>
EndTrace == /\ tid <= Len(Traces) /\ pc = Len(T.events)
            /\ nacc' = nacc + 1 /\ NextTrace /\ UNCHANGED <<rej, fin>>
Finish == /\ tid = Len(Traces) + 1 /\ ~fin /\ fin' = TRUE
          /\ PrintT(ToJson([accepted |-> nacc, rejected |-> rej]))
          /\ UNCHANGED <<tid, pc, rej, nacc>>
TraceNext == Step \/ EndTrace \/ Finish
TraceSpec == Init /\ [][TraceNext]_vars
=============================================================================
