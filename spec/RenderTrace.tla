----------------------------- MODULE RenderTrace -----------------------------
(* Code -> spec validation for C08.  One trace = one real render of a Jinja source through
   Linter.render_string (primary variant), recorded at the returns of JinjaTemplater.process and
   JinjaTemplater.construct_render_func (fast path taken = process returned without building a render
   function), together with the render of the same source and context by an independently built
   jinja2 SandboxedEnvironment (the reference).  Texts are interned per trace: src = the newline-
   normalised source, out = the primary variant's templated_str (0 = no variant), ref = the reference
   render (0 = the reference raised).  `markers` is the contract-side enabling condition of FastPath:
   for TLC-generated skeletons it is the value TLC computed (Render!HasMarkers), for corpus files the
   recorder's own scan for {{ {% {#.  The verdict is Render!TemplateClause.                        *)
EXTENDS Render, IOUtils, TLCExt

Traces == JsonDeserialize(IOEnv.VF_TRACES)
VARIABLES tid, pc, rej, nacc, fin
tvars == <<tid, pc, rej, nacc, fin, s, m>>

T  == Traces[tid]
Ev == T.events[pc + 1]

Clause == IF Ev.ev = "Template" THEN TemplateClause(Ev) ELSE "UnknownEvent"

NextTrace == tid' = tid + 1 /\ pc' = 0
TInit == /\ tid = 1 /\ pc = 0 /\ rej = <<>> /\ nacc = 0 /\ fin = FALSE
         /\ s = <<>> /\ m = [stack |-> <<>>]
Step == /\ tid <= Len(Traces) /\ pc < Len(T.events)
        /\ IF Clause = "ok" THEN pc' = pc + 1 /\ UNCHANGED <<tid, rej, nacc, fin>>
           ELSE /\ rej' = Append(rej, [id |-> T.id, step |-> pc + 1, clause |-> Clause])
                /\ NextTrace /\ UNCHANGED <<nacc, fin>>
        /\ UNCHANGED <<s, m>>
EndTrace == /\ tid <= Len(Traces) /\ pc = Len(T.events)
            /\ nacc' = nacc + 1 /\ NextTrace /\ UNCHANGED <<rej, fin, s, m>>
Finish == /\ tid = Len(Traces) + 1 /\ ~fin /\ fin' = TRUE
          /\ PrintT(ToJson([accepted |-> nacc, rejected |-> rej]))
          /\ UNCHANGED <<tid, pc, rej, nacc, s, m>>
TraceNext == Step \/ EndTrace \/ Finish
TraceSpec == TInit /\ [][TraceNext]_tvars
=============================================================================
