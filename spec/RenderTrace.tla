----------------------------- MODULE RenderTrace -----------------------------
(* Code -> spec validation for C08 (event "Template") and for the python templater of C09 (event "PyFormat").

   Template: one trace = one real render of a Jinja source through Linter.render_string (primary variant),
   recorded at the returns of JinjaTemplater.process and JinjaTemplater.construct_render_func (fast path
   taken = process returned without building a render function), together with the render of the same source
   and context by an independently built jinja2 SandboxedEnvironment (the reference).  Texts are interned per
   trace: src = the newline-normalised source, out = the primary variant's templated_str (0 = no variant),
   ref = the reference render (0 = the reference raised).  `markers` is the contract-side enabling condition of
   FastPath: for TLC-generated skeletons the value TLC computed (Render!HasMarkers), for corpus files the
   recorder's own scan for {{ {% {#.  The verdict is Render!TemplateClause.                              *)
EXTENDS Render, IOUtils, TLCExt

Traces == JsonDeserialize(IOEnv.VF_TRACES)
VARIABLES tid, pc, rej, nacc, fin
tvars == <<tid, pc, rej, nacc, fin, s, m>>

T  == Traces[tid]
Ev == T.events[pc + 1]

(* C09, python templater, code -> spec: event "PyFormat" carries a (longer, generated) source as the sequence of
   its character classes `cls` and code points `chr`, the flattened context `ctx` (plain names, and the dotted keys
   of context['sqlfluff']; values are str), the implementation's outcome ("render" | "tmp" | "exc") and, when it
   rendered, the code points of the output.  The source is scanned by Render!PyStep with the code points as
   payload; validity and the expected text are the contract's.  The same event built from string.Formatter's
   outcome (trace ids "fx..") must be accepted too: that cross-checks the specification itself.           *)
RECURSIVE PyScan(_, _, _, _)
PyScan(mm, cls, chr, i) == IF i > Len(cls) THEN mm ELSE PyScan(PyStep(mm, cls[i], chr[i]), cls, chr, i + 1)
CtxIdx(ctx, n) == LET S == {k \in 1..Len(ctx) : ctx[k].name = n} IN IF S = {} THEN 0 ELSE CHOOSE k \in S : TRUE
TFieldErr(f, ctx) == IF f.t = <<>> THEN "empty-field-name"
                     ELSE IF CtxIdx(ctx, f.t) = 0 THEN "undefined-name"
                     ELSE IF f.conv # <<>> /\ f.conv # <<SName>> THEN "bad-conversion"
                     ELSE IF f.spec # <<>> /\ f.spec # <<SName>> THEN "bad-format-spec"
                     ELSE "none"
RECURSIVE TRender(_, _, _)
TRender(segs, ctx, i) == IF i > Len(segs) THEN <<>>
                         ELSE (IF segs[i].k = "lit" THEN segs[i].t ELSE ctx[CtxIdx(ctx, segs[i].t)].val)
                              \o TRender(segs, ctx, i + 1)
PyFormatClause(ev) ==
   LET mm    == PyScan(PyInit, ev.cls, ev.chr, 1)
       valid == /\ SyntaxErr(mm) = "none"
                /\ \A i \in 1..Len(mm.segs) : mm.segs[i].k = "fld" => TFieldErr(mm.segs[i], ev.ctx) = "none"
   IN IF valid THEN (IF ev.outcome # "render" THEN "ValidRenders"
                     ELSE IF ev.out # TRender(mm.segs, ev.ctx, 1) THEN "RenderedEqualsFormat" ELSE "ok")
      ELSE IF ev.outcome = "tmp" THEN "ok" ELSE "InvalidGivesTemplaterError"

Clause == CASE Ev.ev = "Template" -> TemplateClause(Ev)
            [] Ev.ev = "PyFormat" -> PyFormatClause(Ev)
            [] OTHER -> "UnknownEvent"

NextTrace == tid' = tid + 1 /\ pc' = 0
TInit == /\ tid = 1 /\ pc = 0 /\ rej = <<>> /\ nacc = 0 /\ fin = FALSE
         /\ s = <<>> /\ m = [stack |-> <<>>]
Step == /\ tid <= Len(Traces) /\ pc < Len(T.events)
        /\ IF Clause = "ok" THEN pc' = pc + 1 /\ UNCHANGED <<tid, rej, nacc, fin>>
           ELSE /\ rej' = Append(rej, [id |-> T.id, step |-> pc + 1, clause |-> Clause])
                /\ NextTrace /\ UNCHANGED <<nacc, fin>>
        /\ UNCHANGED <<s, m>>
EndTrace == /\ tid <= Len(Traces) /\ pc = Len(T.events)
            /\ nacc' = nacc + 1 /\ NextTrace /\ UNCHANGED <<rej, fin, s, m>>
Finish == /\ tid = Len(Traces) + 1 /\ ~fin /\ fin' = TRUE
          /\ PrintT(ToJson([accepted |-> nacc, rejected |-> rej]))
          /\ UNCHANGED <<tid, pc, rej, nacc, s, m>>
TraceNext == Step \/ EndTrace \/ Finish
TraceSpec == TInit /\ [][TraceNext]_tvars
=============================================================================
