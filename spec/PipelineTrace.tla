-------------------------------- MODULE PipelineTrace --------------------------------
(* Code -> spec validation for C04 / C05: one trace = one call of an entry point (parse / lint / fix of one
   input), recorded by harness/vf/piperec.py at the returns of Linter.render_string, _lex_templated_file,
   _parse_tokens, lint_fix_parsed, LintedFile.fix_string and at the outermost entry point (End or Crash).
   Each event must be a step of Pipeline; a Crash event, or a step whose logged fields break the stage's
   contract, is rejected with the name of the clause.                                               *)
EXTENDS Pipeline, TLC, Json, IOUtils, TLCExt

Traces == JsonDeserialize(IOEnv.VF_TRACES)
VARIABLES tid, pc, rej, nacc, fin
tvars == <<tid, pc, rej, nacc, fin, stage, mode, variants, lexed, parsed>>

T  == Traces[tid]
Ev == T.events[pc + 1]

Clause ==
   CASE Ev.ev = "Render" -> IF stage # "init" THEN "StageOrder" ELSE "ok"
     [] Ev.ev = "Lex" -> IF ~(stage \in {"rendered", "parsed_one"} /\ lexed < variants) THEN "StageOrder" ELSE "ok"
     [] Ev.ev = "Parse" -> IF stage # "lexed" THEN "StageOrder"
                           ELSE IF Ev.limit > 0 /\ Ev.ntok > Ev.limit /\ ~(~Ev.tree /\ Ev.nprs >= 1) THEN "LimitReported"
                           ELSE IF ~Ev.tree /\ Ev.nprs = 0 THEN "NoTreeWithoutPRS"
                           ELSE "ok"
     [] Ev.ev = "Lint" -> IF ~(mode \in {"lint", "fix"} /\ stage \in {"parsed_one", "linted"}) THEN "StageOrder"
                          ELSE IF Ev.internal THEN "NoInternalRuleError"
                          ELSE "ok"
     [] Ev.ev = "FixString" -> IF ~(mode = "fix" /\ stage \in {"linted", "parsed_one", "rendered"}) THEN "StageOrder" ELSE "ok"
     [] Ev.ev = "End" -> IF stage \notin {"rendered", "parsed_one", "linted", "fixed"} THEN "StageOrder"
                         ELSE IF Ev.internal THEN "NoInternalRuleError"
                         ELSE "ok"
     [] Ev.ev = "Crash" -> "NeverRaises"
     [] OTHER -> "UnknownEvent"

Take ==
   CASE Ev.ev = "Render" -> Render(Ev.n)
     [] Ev.ev = "Lex" -> Lex
     [] Ev.ev = "Parse" -> Parse(Ev.ntok, Ev.limit, Ev.tree, Ev.nprs)
     [] Ev.ev = "Lint" -> Lint(Ev.internal)
     [] Ev.ev = "FixString" -> FixString
     [] Ev.ev = "End" -> End

Load(n) == /\ stage' = "init" /\ variants' = 0 /\ lexed' = 0 /\ parsed' = 0
           /\ mode' = IF n <= Len(Traces) THEN Traces[n].mode ELSE "parse"
NextTrace == tid' = tid + 1 /\ pc' = 0 /\ Load(tid + 1)
TInit == /\ tid = 1 /\ pc = 0 /\ rej = <<>> /\ nacc = 0 /\ fin = FALSE
         /\ stage = "init" /\ variants = 0 /\ lexed = 0 /\ parsed = 0
         /\ mode = (IF Len(Traces) >= 1 THEN Traces[1].mode ELSE "parse")
Step == /\ tid <= Len(Traces) /\ pc < Len(T.events)
        /\ IF Clause = "ok" THEN Take /\ pc' = pc + 1 /\ UNCHANGED <<tid, rej, nacc, fin>>
           ELSE /\ rej' = Append(rej, [id |-> T.id, step |-> pc + 1, clause |-> Clause])
                /\ NextTrace /\ UNCHANGED <<nacc, fin>>
EndTrace == /\ tid <= Len(Traces) /\ pc = Len(T.events)
            /\ IF stage = "done" THEN nacc' = nacc + 1 /\ UNCHANGED rej
               ELSE rej' = Append(rej, [id |-> T.id, step |-> pc, clause |-> "ReturnsAResult"]) /\ UNCHANGED nacc
            /\ NextTrace /\ UNCHANGED fin
Finish == /\ tid = Len(Traces) + 1 /\ ~fin /\ fin' = TRUE
          /\ PrintT(ToJson([accepted |-> nacc, rejected |-> rej]))
          /\ UNCHANGED <<tid, pc, rej, nacc, stage, mode, variants, lexed, parsed>>
TraceNext == Step \/ EndTrace \/ Finish
TraceSpec == TInit /\ [][TraceNext]_tvars
======================================================================================
