------------------------------ MODULE FixTrace ------------------------------
(* Code -> spec validation for C12 C13 C14 C15 C17 (and of the S->C replays of FixLoop behaviours):
   every recorded fix run (harness/vf/fixrec.py) is stepped through the FixContract state machine.
   TraceKit skeleton: total verdicts [id, step, clause], one final record [accepted, rejected].       *)
EXTENDS FixContract, Json, IOUtils, TLCExt

Traces == JsonDeserialize(IOEnv.VF_TRACES)
VARIABLES tid, pc, rej, nacc, fin
tvars == <<tid, pc, rej, nacc, fin, cs>>

T  == Traces[tid]
Ev == T.events[pc + 1]
Tb == [fold |-> T.fold, rst |-> T.rst, kcls |-> T.kcls, ktype |-> T.ktype]

NextTrace == tid' = tid + 1 /\ pc' = 0 /\ cs' = InitCS
TInit == tid = 1 /\ pc = 0 /\ rej = <<>> /\ nacc = 0 /\ fin = FALSE /\ cs = InitCS
Step == /\ tid <= Len(Traces) /\ pc < Len(T.events)
        /\ LET c == EvClause(Tb, T, Ev) IN
           IF c = "ok" THEN /\ cs' = EvNext(Tb, T, Ev) /\ pc' = pc + 1 /\ UNCHANGED <<tid, rej, nacc, fin>>
           ELSE /\ rej' = Append(rej, [id |-> T.id, step |-> pc + 1, clause |-> c])
                /\ NextTrace /\ UNCHANGED <<nacc, fin>>
EndTrace == /\ tid <= Len(Traces) /\ pc = Len(T.events)
            /\ nacc' = nacc + 1 /\ NextTrace /\ UNCHANGED <<rej, fin>>
Finish == /\ tid = Len(Traces) + 1 /\ ~fin /\ fin' = TRUE
          /\ PrintT(ToJson([accepted |-> nacc, rejected |-> rej]))
          /\ UNCHANGED <<tid, pc, rej, nacc, cs>>
TraceNext == Step \/ EndTrace \/ Finish
TraceSpec == TInit /\ [][TraceNext]_tvars
=============================================================================
