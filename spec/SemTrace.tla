------------------------------- MODULE SemTrace -------------------------------
(* Code -> spec validation for C16.  One trace = one generated SQLite query fixed by the real linter
   (dialect sqlite, every rule except ST06 and CV05) with recorders around `apply_fixes` (the name imported
   into core/linter/linter.py) and Linter.lint_fix_parsed; the text of the original, of every adopted
   version and of the final output is executed with python's sqlite3 on three fixed data sets.
   Events:  "Start"  rows                      original text
            "Apply"  rule, rows                one adopted fix batch (new text executed)
            "Finish" rows, limit               text returned by fix_string (limit = loop limit was hit)
   Each event must be a step of SemContract; verdicts are total (first failing clause per trace).   *)
EXTENDS SemContract, Json, IOUtils, TLCExt

Traces == JsonDeserialize(IOEnv.VF_TRACES)
VARIABLES tid, pc, rej, nacc, fin
tvars == <<tid, pc, rej, nacc, fin, rows, rows0, excused, phase>>

T  == Traces[tid]
Ev == T.events[pc + 1]

Clause ==
  CASE Ev.ev = "Start"  -> IF phase # "new" THEN "StartOnce"
                           ELSE IF ~Executes(Ev.rows) THEN "OriginalExecutes" ELSE "ok"
    [] Ev.ev = "Apply"  -> IF phase # "fixing" THEN "ApplyAfterStart"
                           ELSE IF ~StepAllowed(Ev.rule, rows, Ev.rows)
                                THEN (IF ~Executes(Ev.rows) THEN "FixedQueryStillExecutes" ELSE "SameMultisetOfRows")
                           ELSE "ok"
    [] Ev.ev = "Finish" -> IF phase # "fixing" THEN "FinishAfterStart"
                           ELSE IF ~FinishAllowed(rows, rows0, Ev.rows, Ev.limit) THEN "OutputIsLastAdoptedVersion"
                           ELSE "ok"
    [] OTHER -> "UnknownEvent"

Do == CASE Ev.ev = "Start"  -> Start(Ev.rows)
        [] Ev.ev = "Apply"  -> ApplyFixes(Ev.rule, Ev.rows)
        [] Ev.ev = "Finish" -> Finish(Ev.rows, Ev.limit)

Reset == rows' = <<>> /\ rows0' = <<>> /\ excused' = {} /\ phase' = "new"
NextTrace == tid' = tid + 1 /\ pc' = 0 /\ Reset
TInit == tid = 1 /\ pc = 0 /\ rej = <<>> /\ nacc = 0 /\ fin = FALSE /\ CInit
Step == /\ tid <= Len(Traces) /\ pc < Len(T.events)
        /\ IF Clause = "ok" THEN Do /\ pc' = pc + 1 /\ UNCHANGED <<tid, rej, nacc, fin>>
           ELSE /\ rej' = Append(rej, [id |-> T.id, step |-> pc + 1, clause |-> Clause])
                /\ NextTrace /\ UNCHANGED <<nacc, fin>>
EndTrace == /\ tid <= Len(Traces) /\ pc = Len(T.events)
            /\ IF phase = "done" THEN nacc' = nacc + 1 /\ UNCHANGED rej
               ELSE rej' = Append(rej, [id |-> T.id, step |-> pc, clause |-> "TraceEndsWithFinish"]) /\ UNCHANGED nacc
            /\ NextTrace /\ UNCHANGED fin
Finish2 == /\ tid = Len(Traces) + 1 /\ ~fin /\ fin' = TRUE
           /\ PrintT(ToJson([accepted |-> nacc, rejected |-> rej]))
           /\ UNCHANGED <<tid, pc, rej, nacc, rows, rows0, excused, phase>>
TraceNext == Step \/ EndTrace \/ Finish2
TraceSpec == TInit /\ [][TraceNext]_tvars
=============================================================================
