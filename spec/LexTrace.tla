-------------------------------- MODULE LexTrace --------------------------------
(* Code -> spec validation for C01 (lexing is lossless, ordered and total), C07 (source maps) and the
   lexing part of C04.  One trace = one rendered variant of one input, recorded by harness/vf/lexrec.py at
   the returns of Linter.render_string and Lexer.lex:

     events[1] = Template (see SourceMap)          or  TemplateFail / Skip / Crash
     events[2] = Lex  with toks = << <<t0, t1, s0, s1, len, kind, eqT, eqS, indent>> ... >>, lxr = LXR violations
                 or Crash(stage, exc)

   The contract is a state machine over the token list: one TLC state per token, carrying
     pos    rendered offset reached            (tokens with text occupy [pos, pos+len))
     ahead  furthest rendered point of the zero-width metas seen since the last token with text: a meta
            sits at pos, or — when a template tag that renders nothing lies *inside* one lexed token, as in
            `a{{ e }}a` — strictly inside the next token, which is the weakest reading of "contiguous
            increasing positions" that such input admits
     cover  source offset up to which every character is covered by some token or placeholder
     last   source start of the previous token (for the monotone case)
   A token that is not a legal next step is rejected with the name of the first failing clause.       *)
EXTENDS SourceMap, TLC, Json, IOUtils, TLCExt

Traces == JsonDeserialize(IOEnv.VF_TRACES)
VARIABLES tid, pc, k, pos, ahead, cover, last, nunlex, rej, nacc, fin
vars == <<tid, pc, k, pos, ahead, cover, last, nunlex, rej, nacc, fin>>

T   == Traces[tid]
Ev  == T.events[pc + 1]
Tpl == T.events[1]                      \* the Template event of this trace
Tok == Ev.toks[k + 1]
T0(t) == t[1]  T1(t) == t[2]  S0(t) == t[3]  S1(t) == t[4]  TLen(t) == t[5]
Kind(t) == t[6]  EqT(t) == t[7]  EqS(t) == t[8]

Max(a, b) == IF a > b THEN a ELSE b
Min(a, b) == IF a < b THEN a ELSE b

\* templated slices a token's rendered span [a, b) overlaps (touches, for a zero-width token)
Over(a, b) == {i \in 1..Len(Tpl.tfs) :
                 IF a < b THEN FT0(Tpl.tfs[i]) < b /\ a < FT1(Tpl.tfs[i])
                          ELSE FT0(Tpl.tfs[i]) <= a /\ a <= FT1(Tpl.tfs[i])}
HullLo(S) == CHOOSE x \in {FS0(Tpl.tfs[i]) : i \in S} : \A y \in {FS0(Tpl.tfs[i]) : i \in S} : x <= y
HullHi(S) == CHOOSE x \in {FS1(Tpl.tfs[i]) : i \in S} : \A y \in {FS1(Tpl.tfs[i]) : i \in S} : x >= y
InOneLiteral(a, b) == {i \in 1..Len(Tpl.tfs) :
                         FType(Tpl.tfs[i]) = "literal" /\ FT0(Tpl.tfs[i]) <= a /\ b <= FT1(Tpl.tfs[i])}

TokClause(t) ==
   LET a == T0(t)  b == T1(t)  n == TLen(t) IN
   IF n > 0 /\ a # pos THEN "TmplContiguous"              \* (b) contiguous increasing positions
   ELSE IF n = 0 /\ a < pos THEN "TmplContiguous"
   ELSE IF n > 0 /\ ~(ahead <= pos \/ ahead < b) THEN "MetaWithinNextToken"
   ELSE IF b - a # n THEN "TmplSpanEqualsText"
   ELSE IF ~EqT(t) THEN "TextEqualsRendered"                \* (a) concatenation = rendered SQL
   ELSE IF ~(0 <= S0(t) /\ S0(t) <= S1(t) /\ S1(t) <= Tpl.nsrc) THEN "SrcInBounds"      \* (c)
   ELSE IF Tpl.untemplated /\ ~(S0(t) = a /\ S1(t) = b) THEN "SrcIdenticalWhenUntemplated"
   ELSE IF ~Tpl.untemplated /\ Over(a, b) # {} /\ ~(HullLo(Over(a, b)) <= S0(t) /\ S1(t) <= HullHi(Over(a, b)))
        THEN "SrcWithinSliceHull"
   ELSE IF n > 0 /\ InOneLiteral(a, b) # {} /\
           ~(\E i \in InOneLiteral(a, b) : S0(t) = a + FS0(Tpl.tfs[i]) - FT0(Tpl.tfs[i]) /\ S1(t) = S0(t) + n /\ EqS(t))
        THEN "LiteralExact"
   ELSE IF Tpl.monotone /\ S0(t) < last THEN "SrcNonDecreasing"      \* vs. the previous token with text
   ELSE IF n > 0 /\ S0(t) > cover THEN "SourceCovered"     \* (d) a source gap before this token
   ELSE "ok"

EndClause ==
   IF pos # Tpl.ntmpl THEN "CoversRenderedText"
   ELSE IF ahead > pos THEN "MetaWithinNextToken"
   ELSE IF cover # Tpl.nsrc THEN "SourceCoveredToEnd"
   ELSE IF nunlex # Len(Ev.lxr) THEN "UnlexableIffLXR"      \* (e)
   ELSE IF Len(Ev.toks) = 0 \/ Kind(Ev.toks[Len(Ev.toks)]) # "eof" THEN "EndsWithEOF"
   ELSE "ok"

Reset == k' = 0 /\ pos' = 0 /\ ahead' = 0 /\ cover' = 0 /\ last' = 0 /\ nunlex' = 0
NextTrace == tid' = tid + 1 /\ pc' = 0 /\ Reset
Reject(c) == rej' = Append(rej, [id |-> T.id, step |-> pc + 1, tok |-> k + 1, clause |-> c]) /\ NextTrace
               /\ UNCHANGED <<nacc, fin>>

Init == tid = 1 /\ pc = 0 /\ k = 0 /\ pos = 0 /\ ahead = 0 /\ cover = 0 /\ last = 0 /\ nunlex = 0
        /\ rej = <<>> /\ nacc = 0 /\ fin = FALSE

\* whole-event steps
EvStep ==
   /\ tid <= Len(Traces) /\ pc < Len(T.events) /\ Ev.ev # "Lex"
   /\ CASE Ev.ev = "Template" ->
              IF TemplateClause(Ev) = "ok" THEN pc' = pc + 1 /\ UNCHANGED <<tid, k, pos, ahead, cover, last, nunlex, rej, nacc, fin>>
              ELSE Reject(TemplateClause(Ev))
        [] Ev.ev = "Crash" -> Reject("NeverRaises_" \o Ev.stage)
        [] Ev.ev \in {"TemplateFail", "Skip"} -> pc' = pc + 1 /\ UNCHANGED <<tid, k, pos, ahead, cover, last, nunlex, rej, nacc, fin>>
        [] OTHER -> Reject("UnknownEvent")

\* one token
TokStep ==
   /\ tid <= Len(Traces) /\ pc < Len(T.events) /\ Ev.ev = "Lex" /\ k < Len(Ev.toks)
   /\ IF TokClause(Tok) = "ok"
      THEN /\ k' = k + 1
           \* a zero-width meta that lies ahead (inside the next token) extends the covered prefix only
           \* once the token that contains it has been seen
           /\ cover' = IF TLen(Tok) > 0 \/ S0(Tok) <= cover THEN Max(cover, S1(Tok)) ELSE cover
           /\ IF TLen(Tok) > 0 THEN pos' = T1(Tok) /\ ahead' = 0 /\ last' = S0(Tok)
                               ELSE pos' = pos /\ ahead' = Max(ahead, T0(Tok)) /\ last' = last
           /\ nunlex' = nunlex + (IF Kind(Tok) = "unlexable" THEN 1 ELSE 0)
           /\ UNCHANGED <<tid, pc, rej, nacc, fin>>
      ELSE Reject(TokClause(Tok))
LexEnd ==
   /\ tid <= Len(Traces) /\ pc < Len(T.events) /\ Ev.ev = "Lex" /\ k = Len(Ev.toks)
   /\ IF EndClause = "ok" THEN pc' = pc + 1 /\ k' = 0 /\ UNCHANGED <<tid, pos, ahead, cover, last, nunlex, rej, nacc, fin>>
      ELSE Reject(EndClause)
EndTrace == /\ tid <= Len(Traces) /\ pc = Len(T.events)
            /\ nacc' = nacc + 1 /\ NextTrace /\ UNCHANGED <<rej, fin>>
Finish == /\ tid = Len(Traces) + 1 /\ ~fin /\ fin' = TRUE
          /\ PrintT(ToJson([accepted |-> nacc, rejected |-> rej]))
          /\ UNCHANGED <<tid, pc, k, pos, ahead, cover, last, nunlex, rej, nacc>>
TraceNext == EvStep \/ TokStep \/ LexEnd \/ EndTrace \/ Finish
TraceSpec == Init /\ [][TraceNext]_vars
=================================================================================
