------------------------------ MODULE TreeRecord ------------------------------
(* C28 — the parse output is a faithful serialisation of the parse tree.

   Contract layer : TreeSeq(co, im) — the pre-order list of (depth, type, text) of the nodes the output
                    must show: every node, minus meta leaves unless include_meta, and under --code-only
                    only nodes holding code.  Faithful(..) = the record, read in order as a tree, is
                    exactly that list (LeafTextsInOrder, TypesNest).
   Algo layer     : BaseSegment.to_tuple (ToTuple: three filtering branches, show_raw leaf, optional
                    position element) and BaseSegment.structural_simplify (Simplify: position keys
                    first, str leaf, empty tuple -> None, duplicate sub-keys -> list of dicts, else the
                    children's dicts merged into one dict) of core/parser/segments/base.py, and
                    as_record = their composition (AlgoRecord).
   A record value is modelled as a *sequence of entries* <<key, value>> (python dicts and JSON/YAML
   mappings keep insertion order), value = [k:"str",s] | [k:"none"] | [k:"dict",e:entries] |
   [k:"list",e:<<entries,...>>] | [k:"pos"] (the six position keys, collapsed into one key "@pos").

   TLC enumerates every tree with <= MaxNodes nodes over two node types (so that duplicate sibling
   types occur), four leaf kinds (code "x", code with empty raw, whitespace, meta) and checks
   Algo => Contract for all eight (code_only, include_meta, include_position) settings; each tree is
   emitted with the contract's verdict (the indices of the nodes that must be shown, per setting) and the
   transcription's predicted container shapes, for replay into the real as_record / stringify.     *)
EXTENDS Naturals, Integers, Sequences, FiniteSets, TLC, Json, SequencesExt, FiniteSetsExt

CONSTANTS MaxNodes,     \* trees with 1..MaxNodes nodes
          EmitCases     \* TRUE: print one JSON record per tree

Types     == {"a", "b"}
LeafKinds == {"code", "empty", "ws", "meta"}
RawOf(k)  == CASE k = "code" -> "x" [] k = "ws" -> " " [] OTHER -> ""
INNER     == "#"                     \* text placeholder of a node that is not a leaf

VARIABLES nodes,    \* pre-order sequence of [d: depth, t: type, k: "in" | leaf kind]
          par,      \* par[j] = index of the parent of node j (0 for the root); a function of `nodes`
          done,     \* the tree has been judged and emitted
          ok        \* <<leaf texts in order, types nest, dict keys unique>> for all eight settings
vars == <<nodes, par, done, ok>>

N            == Len(nodes)
HasChild(i)  == i < N /\ nodes[i + 1].d = nodes[i].d + 1
IsLeaf(i)    == ~HasChild(i)
Children(i)  == SelectSeq([j \in 1..N |-> j], LAMBDA j : par[j] = i)
Subtree(i)   == {j \in i..N : \A k \in (i + 1)..j : nodes[k].d > nodes[i].d}
IsMeta(i)    == nodes[i].k = "meta"
LeafIsCode(i) == nodes[i].k \in {"code", "empty"}
TextOf(i)    == IF IsLeaf(i) THEN RawOf(nodes[i].k) ELSE INNER

-------------------------------------------------------------------------------
(* Contract *)
HoldsCode(i) == \E j \in Subtree(i) : IsLeaf(j) /\ LeafIsCode(j)
MustShow(i, co, im) == \/ i = 1                                   \* the node asked for is always shown
                       \/ IF co THEN HoldsCode(i) /\ ~IsMeta(i) ELSE (im \/ ~IsMeta(i))
KeepIdx(co, im)  == SelectSeq([j \in 1..N |-> j], LAMBDA j : MustShow(j, co, im))
TreeSeq(co, im)  == LET ki == KeepIdx(co, im) IN
                    [x \in 1..Len(ki) |->
                       [d |-> nodes[ki[x]].d, t |-> nodes[ki[x]].t,
                        \* an inner node whose children are all hidden still shows as a node without text
                        raw |-> TextOf(ki[x])]]

\* a record read in order as a tree: pre-order list of [d, t, raw, sh(ape of the value)]
RECURSIVE RecSeq(_, _)
RecSeq(dict, d) ==
  FlattenSeq([x \in 1..Len(dict) |->
     LET key == dict[x][1]  val == dict[x][2] IN
     CASE val.k = "pos"  -> <<>>
       [] val.k = "str"  -> <<[d |-> d, t |-> key, raw |-> val.s, sh |-> "s"]>>
       [] val.k = "none" -> <<[d |-> d, t |-> key, raw |-> INNER, sh |-> "n"]>>
       [] val.k = "dict" -> <<[d |-> d, t |-> key, raw |-> INNER, sh |-> "d"]>> \o RecSeq(val.e, d + 1)
       [] val.k = "list" -> <<[d |-> d, t |-> key, raw |-> INNER, sh |-> "l"]>>
                            \o FlattenSeq([y \in 1..Len(val.e) |-> RecSeq(val.e[y], d + 1)])])

Leaves(seq)    == SelectSeq(seq, LAMBDA n : n.raw # INNER)
RawsOf(seq)    == LET l == Leaves(seq) IN [x \in 1..Len(l) |-> l[x].raw]
LeafTextsInOrder(rs, ts) == RawsOf(rs) = RawsOf(ts)
TypesNest(rs, ts)        == [x \in 1..Len(rs) |-> <<rs[x].d, rs[x].t, rs[x].raw = INNER>>]
                            = [x \in 1..Len(ts) |-> <<ts[x].d, ts[x].t, ts[x].raw = INNER>>]

-------------------------------------------------------------------------------
(* Algo: base.py to_tuple / structural_simplify *)
\* BaseSegment.is_code: any child is code; RawSegment._is_code per class; MetaSegment: False
RECURSIVE AlgoIsCode(_)
AlgoIsCode(i) == IF IsLeaf(i) THEN LeafIsCode(i)
                 ELSE \E x \in 1..Len(Children(i)) : AlgoIsCode(Children(i)[x])

RECURSIVE ToTuple(_, _, _, _)
ToTuple(i, co, im, ip) ==
  LET kids == Children(i) IN
  IF kids = <<>>                                 \* show_raw and not self.segments
  THEN [t |-> nodes[i].t, leaf |-> TRUE, raw |-> RawOf(nodes[i].k), ch |-> <<>>, pos |-> ip]
  ELSE LET shown == IF co THEN SelectSeq(kids, LAMBDA j : AlgoIsCode(j) /\ ~IsMeta(j))    \* elif code_only
                    ELSE SelectSeq(kids, LAMBDA j : im \/ ~IsMeta(j))                      \* else
       IN [t |-> nodes[i].t, leaf |-> FALSE, raw |-> "",
           ch |-> [x \in 1..Len(shown) |-> ToTuple(shown[x], co, im, ip)], pos |-> ip]

KeysOf(dict) == [x \in 1..Len(dict) |-> dict[x][1]]
RECURSIVE Simplify(_)
Simplify(e) ==
  LET posE == IF e.pos THEN << <<"@pos", [k |-> "pos"]>> >> ELSE <<>> IN      \* result.update(position)
  IF e.leaf THEN posE \o << <<e.t, [k |-> "str", s |-> e.raw]>> >>              \* isinstance(value, str)
  ELSE IF e.ch = <<>> THEN posE \o << <<e.t, [k |-> "none"]>> >>               \* empty tuple -> None
  ELSE LET contents == [x \in 1..Len(e.ch) |-> Simplify(e.ch[x])]
           subkeys  == FlattenSeq([x \in 1..Len(contents) |-> KeysOf(contents[x])])
       IN IF Cardinality(ToSet(subkeys)) # Len(subkeys)
          THEN posE \o << <<e.t, [k |-> "list", e |-> contents]>> >>            \* duplicates: list of dicts
          ELSE posE \o << <<e.t, [k |-> "dict", e |-> FlattenSeq(contents)]>> >> \* un-nest into one dict

AlgoRecord(co, im, ip) == Simplify(ToTuple(1, co, im, ip))
AlgoSeq(co, im, ip)    == RecSeq(AlgoRecord(co, im, ip), 0)

-------------------------------------------------------------------------------
(* Algo => Contract, judged once per tree when it is emitted *)
Settings == BOOLEAN \X BOOLEAN \X BOOLEAN
RECURSIVE KeysUnique(_)
KeysUnique(dict) == /\ Cardinality(ToSet(KeysOf(dict))) = Len(dict)
                    /\ \A x \in 1..Len(dict) :
                         LET v == dict[x][2] IN
                         CASE v.k = "dict" -> KeysUnique(v.e)
                           [] v.k = "list" -> \A y \in 1..Len(v.e) : KeysUnique(v.e[y])
                           [] OTHER -> TRUE
ShapeStr(seq) == [x \in 1..Len(seq) |-> seq[x].sh]
Judge == [s \in Settings |->
            LET rec == AlgoRecord(s[1], s[2], s[3])
                rs  == RecSeq(rec, 0)
                ts  == TreeSeq(s[1], s[2])
            IN [leaf |-> LeafTextsInOrder(rs, ts), nest |-> TypesNest(rs, ts), keys |-> KeysUnique(rec),
                sh |-> ShapeStr(rs)]]

-------------------------------------------------------------------------------
(* enumeration of the scope: grow the pre-order list one node at a time *)
RECURSIVE AncAt(_, _)
AncAt(i, d) == IF nodes[i].d = d THEN i ELSE AncAt(par[i], d)      \* ancestor-or-self of i at depth d
Init == /\ nodes \in {<<[d |-> 0, t |-> "a", k |-> k]>> : k \in LeafKinds}
        /\ par = <<0>> /\ done = FALSE /\ ok = <<TRUE, TRUE, TRUE>>
Extend == /\ ~done /\ N < MaxNodes
          /\ \E d \in 1..(nodes[N].d + 1), t \in Types, k \in LeafKinds :
               \* a node that receives a child stops being a leaf
               /\ nodes' = Append(IF d = nodes[N].d + 1 THEN [nodes EXCEPT ![N].k = "in"] ELSE nodes,
                                  [d |-> d, t |-> t, k |-> k])
               /\ par' = Append(par, AncAt(N, d - 1))
          /\ UNCHANGED <<done, ok>>
Emit == /\ ~done /\ done' = TRUE /\ UNCHANGED <<nodes, par>>
        /\ LET J == Judge  B(x) == IF x THEN "t" ELSE "f" IN
           /\ ok' = <<\A s \in Settings : J[s].leaf, \A s \in Settings : J[s].nest, \A s \in Settings : J[s].keys>>
           /\ EmitCases =>
              PrintT(ToJson([nodes |-> nodes,
                             keep  |-> [ff |-> KeepIdx(FALSE, FALSE), ft |-> KeepIdx(FALSE, TRUE),
                                        tf |-> KeepIdx(TRUE, FALSE),  tt |-> KeepIdx(TRUE, TRUE)],
                             shape |-> [fff |-> J[<<FALSE, FALSE, FALSE>>].sh, fft |-> J[<<FALSE, FALSE, TRUE>>].sh,
                                        ftf |-> J[<<FALSE, TRUE, FALSE>>].sh,  ftt |-> J[<<FALSE, TRUE, TRUE>>].sh,
                                        tff |-> J[<<TRUE, FALSE, FALSE>>].sh,  tft |-> J[<<TRUE, FALSE, TRUE>>].sh,
                                        ttf |-> J[<<TRUE, TRUE, FALSE>>].sh,   ttt |-> J[<<TRUE, TRUE, TRUE>>].sh]]))
Next == Extend \/ Emit
Spec == Init /\ [][Next]_vars

RecordListsLeafTextsInOrder == ok[1]
RecordTypesNestAsTree       == ok[2]
DictKeysUnique              == ok[3]      \* shape fact of the transcription: a dict never repeats a key
\* inner nodes are exactly the nodes with children; par is the parent function of the pre-order list
WellFormed == /\ \A i \in 1..N : (nodes[i].k = "in") <=> HasChild(i)
              /\ \A j \in 2..N : par[j] < j /\ nodes[par[j]].d = nodes[j].d - 1
                                  /\ \A k \in (par[j] + 1)..j : nodes[k].d > nodes[par[j]].d
===============================================================================
