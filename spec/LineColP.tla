---- MODULE LineColP ----
EXTENDS Naturals, TLAPS
CONSTANT NL
VARIABLES i, line, col, cnt, last
CONSTANT s
IsNL(k) == s[k] = NL
Init == i = 0 /\ line = 1 /\ col = 1 /\ cnt = 0 /\ last = 0
Next == /\ i' = i + 1
        /\ IF IsNL(i) THEN line' = line + 1 /\ col' = 1 /\ cnt' = cnt + 1 /\ last' = i + 1
                      ELSE line' = line /\ col' = col + 1 /\ cnt' = cnt /\ last' = last
Inv == /\ i \in Nat /\ line \in Nat /\ col \in Nat /\ cnt \in Nat /\ last \in Nat
       /\ line = cnt + 1
       /\ last <= i
       /\ col = i - last + 1
THEOREM InitInv == Init => Inv
  BY DEF Init, Inv
THEOREM NextInv == Inv /\ Next => Inv'
  BY DEF Inv, Next, IsNL
====
