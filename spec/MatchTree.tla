--------------------------------- MODULE MatchTree ---------------------------------
(* C02, Algo layer — MatchResult.apply (core/parser/match_result.py): how a nested match over token indices
   is materialised into segments.

   A match is an interval [lo, hi) of token indices (0-based, as Python slices), optionally with a class
   (then apply wraps the result in one new segment), a set of inserts (idx, meta) with lo <= idx <= hi, and
   child matches.  The enumerated space is every *well-formed* match over NTok tokens: the intervals form a
   laminar family (nested or disjoint) rooted at [0, NTok); the children of an interval are the maximal
   members strictly inside it.

   Algo: Apply(I) transcribes the trigger-location walk of the code: sorted trigger indices, untouched
   tokens copied through, inserts at an index before the child match that starts there, trailing tokens
   copied.  The result is flattened to its leaf sequence: token index k, or Meta (= -1) for an inserted meta.
   Contract (C02): the non-inserted leaves of the result are exactly lo, lo+1, ..., hi-1 in order, each
   once — nothing discarded, duplicated or reordered.                                                *)
EXTENDS Naturals, Integers, Sequences, FiniteSets, TLC, Json, FiniteSetsExt, SequencesExt

CONSTANTS NTok, MaxSpans, MaxInserts, Emit

Meta == -1
Span == {<<a, b>> \in (0..NTok) \X (0..NTok) : a < b}
Root == <<0, NTok>>
Inside(x, y) == y[1] <= x[1] /\ x[2] <= y[2] /\ x # y              \* x strictly inside y
Disjoint(x, y) == x[2] <= y[1] \/ y[2] <= x[1]
Laminar(F) == \A x, y \in F : x = y \/ Inside(x, y) \/ Inside(y, x) \/ Disjoint(x, y)
Families == {F \cup {Root} : F \in UNION {kSubset(n, Span \ {Root}) : n \in 0..(MaxSpans - 1)}}

VARIABLES fam, classed, inserts, emitted
vars == <<fam, classed, inserts, emitted>>

\* inserts: set of <<span, idx>> with span[1] <= idx <= span[2]
InsertSites(F) == {<<x, p>> \in F \X (0..NTok) : x[1] <= p /\ p <= x[2]}

Children(x) == {y \in fam : Inside(y, x) /\ ~\E z \in fam : Inside(y, z) /\ Inside(z, x)}
\* an insert of x may not fall strictly inside one of x's children (the code raises "Segment skip ahead
\* error" for such a match: it is not a well-formed match)
WellPlaced(s) == ~\E y \in Children(s[1]) : y[1] < s[2] /\ s[2] < y[2]
Init == /\ fam \in {F \in Families : Laminar(F)}
        /\ classed \in SUBSET (fam \ {Root})
        /\ inserts \in UNION {kSubset(n, InsertSites(fam)) : n \in 0..MaxInserts}
        /\ \A s \in inserts : WellPlaced(s)
        /\ emitted = FALSE
ByStart(S) == SetToSortSeq(S, LAMBDA a, b : a[1] < b[1])

\* Apply(x): leaf sequence produced for span x.  Walks positions lo..hi like the trigger loop:
\* at position p: first x's own inserts at p, then the child starting at p (recursively), else token p.
RECURSIVE Apply(_), WalkFrom(_, _)
WalkFrom(x, p) ==
   IF p > x[2] THEN <<>>
   ELSE LET ins == [q \in 1..Cardinality({s \in inserts : s[1] = x /\ s[2] = p}) |-> Meta]
            kid == {y \in Children(x) : y[1] = p}
        IN IF p = x[2] THEN ins
           ELSE IF kid # {}
                THEN LET y == CHOOSE y \in kid : TRUE IN ins \o Apply(y) \o WalkFrom(x, y[2])
                ELSE ins \o <<p>> \o WalkFrom(x, p + 1)
Apply(x) == WalkFrom(x, x[1])

Tokens(s) == SelectSeq(s, LAMBDA e : e # Meta)
Expected  == [q \in 1..NTok |-> q - 1]

\* nested description for the harness (to build real MatchResult objects)
RECURSIVE Describe(_)
Describe(x) == [lo |-> x[1], hi |-> x[2], classed |-> (x \in classed \/ x = Root),
                inserts |-> SetToSortSeq({s[2] : s \in {s \in inserts : s[1] = x}}, <),
                ninserts |-> [p \in 1..(NTok + 1) |-> Cardinality({s \in inserts : s[1] = x /\ s[2] = p - 1})],
                kids |-> [q \in 1..Cardinality(Children(x)) |-> Describe(ByStart(Children(x))[q])]]

EmitCase == /\ Emit /\ ~emitted /\ emitted' = TRUE
            /\ PrintT(ToJson([match |-> Describe(Root), leaves |-> Apply(Root), expected_tokens |-> Expected]))
            /\ UNCHANGED <<fam, classed, inserts>>
Next == EmitCase
Spec == Init /\ [][Next]_vars

\* Algo => Contract
Lossless == Tokens(Apply(Root)) = Expected
AllInsertsPresent == Len(Apply(Root)) = NTok + Cardinality(inserts)
===================================================================================
