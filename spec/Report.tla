------------------------------- MODULE Report -------------------------------
(* C33 — within a file every distinct violation is reported once, in source order.

   Reading (DESIGN §5 C33): "distinct violation" = the engine's source signature
   (code, line, pos, description, fix edits).  Two reported violations that agree on the user-visible
   key (code, line, pos, description) but carry different fix edits are NOT required to be merged
   (UserKeyDuplicates is informational).

   Contract layer : on (input list, reported list) —
                      NothingInvented       every reported violation is one of the input violations
                      NoDuplicateSignature  no two reported violations share a source signature
                      SourceOrder           the list is sorted by (line, pos)
                      NothingLost           every input signature is represented in the report
                    Which of several duplicates survives and how ties in (line, pos) are ordered is
                    left open.
   Algo layer     : LintedFile.deduplicate_in_source_space (core/linter/linted_file.py) as written:
                    the dedupe loop with `dedupe_buffer` (first occurrence wins), then
                    sorted(key=(line_no, line_pos)), which is stable.
   The input list is what Linter.lint_parsed concatenates: templating / parse errors and lint errors of
   the root variant, then the lint errors of every alternate variant, so a violation carries the
   variant it came from (`var`, nondecreasing along the list, not part of the signature) and its input
   index (`src`).  TLC checks Algo => Contract for every such list in the scope and emits it for
   replay into the real function.                                                                  *)
EXTENDS Naturals, Integers, Sequences, FiniteSets, TLC, Json, FiniteSetsExt, SequencesExt

CONSTANTS MaxViols,     \* violations in the concatenated list
          MaxVariants,  \* rendering variants they come from
          Profile       \* "narrow": 3 positions x {A, A+fix, PRS};  "srcfix": 3 positions x {A+fix, A+fix with a
                        \* source fix, B};  "wide": 4 positions x all 5 kinds x 2 descriptions

Positions == IF Profile = "wide" THEN {<<1, 1>>, <<1, 2>>, <<2, 1>>, <<2, 2>>} ELSE {<<1, 1>>, <<1, 2>>, <<2, 1>>}
\* kind = (code, fix-edit id); PRS stands for the non-lint errors (no fixes, signature without edits);
\* fix 2 has the same edit text as fix 1 plus a source fix (an edit inside template code)
KindSet   == CASE Profile = "narrow" -> {<<"A", 0>>, <<"A", 1>>, <<"PRS", 0>>}
               [] Profile = "srcfix" -> {<<"A", 1>>, <<"A", 2>>, <<"B", 0>>}
               [] OTHER              -> {<<"A", 0>>, <<"A", 1>>, <<"A", 2>>, <<"B", 0>>, <<"PRS", 0>>}
Descs     == IF Profile = "wide" THEN {1, 2} ELSE {1}
Shape     == {[code |-> k[1], fix |-> k[2], line |-> p[1], pos |-> p[2], desc |-> d]
                 : k \in KindSet, p \in Positions, d \in Descs}

Sig(v)     == <<v.code, v.line, v.pos, v.desc, v.fix>>     \* the engine's source signature
UserKey(v) == <<v.code, v.line, v.pos, v.desc>>            \* what the user sees
KeyLE(a, b) == a.line < b.line \/ (a.line = b.line /\ a.pos <= b.pos)
KeyLT(a, b) == a.line < b.line \/ (a.line = b.line /\ a.pos < b.pos)

---------------------------------------------------------------------------------
(* Contract.  Violations in `inp` and `out` are records with at least code, line, pos, desc, fix, src;
   src is the index in the input list of the object that was reported.                             *)
NothingInvented(inp, out) ==
   \A j \in 1..Len(out) : /\ out[j].src \in 1..Len(inp)
                          /\ Sig(out[j]) = Sig(inp[out[j].src])
NoDuplicateSignature(out) == \A i, j \in 1..Len(out) : i # j => Sig(out[i]) # Sig(out[j])
SourceOrder(out)          == \A i \in 1..(Len(out) - 1) : KeyLE(out[i], out[i + 1])
NothingLost(inp, out)     == \A i \in 1..Len(inp) : \E j \in 1..Len(out) : Sig(out[j]) = Sig(inp[i])
Contract(inp, out) == /\ NothingInvented(inp, out) /\ NoDuplicateSignature(out)
                      /\ SourceOrder(out) /\ NothingLost(inp, out)
\* informational only
UserKeyDuplicates(out) == Cardinality({p \in (1..Len(out)) \X (1..Len(out)) :
                                          p[1] < p[2] /\ UserKey(out[p[1]]) = UserKey(out[p[2]])})

---------------------------------------------------------------------------------
(* Algo: deduplicate_in_source_space *)
RECURSIVE DedupeLoop(_, _, _, _)
DedupeLoop(vs, i, new, buf) ==              \* for v in violations: if signature not in dedupe_buffer: ...
   IF i > Len(vs) THEN new
   ELSE IF Sig(vs[i]) \notin buf
        THEN DedupeLoop(vs, i + 1, Append(new, vs[i]), buf \cup {Sig(vs[i])})
        ELSE DedupeLoop(vs, i + 1, new, buf)
\* sorted(new_violations, key=(line_no, line_pos)) — Python's sort is stable: insertion after equals
RECURSIVE InsertStable(_, _, _)
InsertStable(s, v, k) == IF k > Len(s) \/ KeyLT(v, s[k])
                         THEN SubSeq(s, 1, k - 1) \o <<v>> \o SubSeq(s, k, Len(s))
                         ELSE InsertStable(s, v, k + 1)
RECURSIVE StableSort(_, _, _)
StableSort(vs, i, acc) == IF i > Len(vs) THEN acc ELSE StableSort(vs, i + 1, InsertStable(acc, vs[i], 1))
AlgoOut(vs) == StableSort(DedupeLoop(vs, 1, <<>>, {}), 1, <<>>)

---------------------------------------------------------------------------------
VARIABLE input
vars == <<input>>

\* The list grows one violation at a time; every prefix is a case.  Variants are numbered in order of
\* first appearance (a variant that contributes nothing is invisible in the concatenation).
Extend == /\ Len(input) < MaxViols
          /\ \E sh \in Shape :
             \E v \in (IF input = <<>> THEN {1}
                       ELSE {w \in {input[Len(input)].var, input[Len(input)].var + 1} : w <= MaxVariants}) :
                input' = Append(input, [code |-> sh.code, fix |-> sh.fix, line |-> sh.line, pos |-> sh.pos,
                                        desc |-> sh.desc, var |-> v, src |-> Len(input) + 1])
Init == input = <<>>
Row(v) == <<v.code, v.fix, v.line, v.pos, v.desc, v.var>>
\* Emit is a stuttering step: TLC evaluates Next once per distinct state, so every case is printed exactly once
Emit == /\ UNCHANGED input
        /\ LET out == AlgoOut(input) IN
           PrintT(ToJson([inp  |-> [i \in 1..Len(input) |-> Row(input[i])],
                          algo |-> [j \in 1..Len(out) |-> out[j].src]]))
Next == Extend \/ Emit
Spec == Init /\ [][Next]_vars

(* Algo => Contract *)
AlgoMeetsContract == LET out == AlgoOut(input) IN Contract(input, out)
AlgoFirstWins     == LET out == AlgoOut(input) IN             \* transcription detail, not contract
                     \A j \in 1..Len(out) : \A i \in 1..(out[j].src - 1) : Sig(input[i]) # Sig(out[j])
AlgoStable        == LET out == AlgoOut(input) IN             \* ties keep input order (stable sort)
                     \A j \in 1..(Len(out) - 1) : KeyLE(out[j + 1], out[j]) => out[j].src < out[j + 1].src
=============================================================================
