----------------------------- MODULE FixContract -----------------------------
(* C12 C13 C14 C15 C17 — what a recorded fix run may do, as a state machine over the events written by
   harness/vf/fixrec.py at the returns of BaseRule.crawl, apply_fixes (the loop's top-level call) and
   Linter.lint_fix_parsed, followed by the recorder's re-lex / re-lint of the result:

     Begin(tree, ver, toks, second, variant)   lint_fix_parsed(fix=True) entered with `tree`
     Crawl(rule, tree)                         the loop handed `tree` to a rule
     Apply(rule, from, to, ver, valid, toks)   apply_fixes(from) returned (to, _valid)
     FixEnd(tree, ver, limit, discarded)       lint_fix_parsed returned `tree`
     Relex(toks)                               lexing the text of the fixed tree
     Reparse(clean0, clean1)                   input had no TMP/LXR/PRS error / fixed source has none
     Second(same)                              fixing the fixed source again gave the same text

   The loop's decisions are not logged; they are pinned by the events: an Apply result has been *adopted*
   exactly when the next Crawl/FixEnd carries its `to` tree instead of the current one.

   Clauses (the verdict names the first one that fails):
     TreeContinuity      every tree the loop works on is the current one or the result of its last apply_fixes
     AdoptedTreesValid   an adopted tree was declared valid by apply_fixes                        (C13, engine)
     NoRevisit           an adopted version (raw, source fixes) was not seen before in this run    (C17/C18, engine)
     LimitRollback       a run that reports the loop limit returns the tree it was given, fixes discarded (C18)
     ReparseClean        clean input => the fixed source renders, lexes and parses cleanly         (C13)
     RelexStable         non-empty non-meta leaves (text, lexical class) of the fixed tree = tokens of its text (C12)
     LayoutStep*, LayoutRendered*   mode "layout": code-token texts unchanged, comment multiset (modulo
                         trailing blanks) unchanged — per adopted batch, and rendered SQL before/after   (C14)
     CapStep*, CapRendered*         mode "cap": same token count, each token identical or a case-only change
                         of an unquoted keyword / identifier / function / type / boolean-null literal   (C15)
     SecondRunNoChange   a second fix of the fixed source changes nothing                          (C17)
   C12/C14/C15/C17 clauses are decided only for inputs that were clean (fix does not touch others, C18).

   Token lists are projections  [t |-> <<text id>>, k |-> <<kind index>>]  with per-trace tables
   tb = [fold, rst, kcls, ktype] (text id 0 is the empty string; tables are indexed by id + 1).       *)
EXTENDS Naturals, Integers, Sequences, FiniteSets, TLC

CONSTANT Prop          \* "ENGINE" | "C12" | "C13" | "C14" | "C15" | "C17" : whose clauses are decided

VARIABLE cs            \* contract state (a record, see InitCS)

Active == CASE Prop = "ENGINE" -> {"TreeContinuity", "AdoptedTreesValid", "NoRevisit", "LimitRollback",
                                   "ResultReachable", "SecondRunNoChange"}
            [] Prop = "C13"    -> {"TreeContinuity", "AdoptedTreesValid", "NoRevisit", "LimitRollback", "ReparseClean"}
            [] Prop = "C12"    -> {"RelexStable"}
            [] Prop = "C14"    -> {"Layout"}
            [] Prop = "C15"    -> {"Cap"}
            [] Prop = "C17"    -> {"SecondRunNoChange"}
            [] OTHER           -> {}
A(c) == c \in Active

\* segment types whose letter case a capitalisation fix may change (C15: unquoted keywords, identifiers,
\* function names, type names, boolean/null literals — in sqlfluff's type vocabulary)
CaseKinds == {"keyword", "binary_operator", "date_part", "naked_identifier", "properties_naked_identifier",
              "function_name_identifier", "bare_function", "data_type_identifier", "primitive_type",
              "datetime_type_identifier", "data_type", "boolean_literal", "null_literal"}

-------------------------------------------------------------------------------
(* projections *)
ClsOf(tb, toks, i) == tb.kcls[toks.k[i] + 1]
TypOf(tb, toks, i) == tb.ktype[toks.k[i] + 1]
Ix(toks)        == [i \in 1..Len(toks.t) |-> i]
NonEmpty(toks)  == SelectSeq(Ix(toks), LAMBDA i : toks.t[i] # 0)
LexSeq(tb, toks) == LET ne == NonEmpty(toks) IN [j \in 1..Len(ne) |-> <<toks.t[ne[j]], ClsOf(tb, toks, ne[j])>>]
CodeSeq(tb, toks) == LET c == SelectSeq(Ix(toks), LAMBDA i : toks.t[i] # 0 /\ ClsOf(tb, toks, i) = "code")
                     IN [j \in 1..Len(c) |-> toks.t[c[j]]]
Comments(tb, toks) == LET c == SelectSeq(Ix(toks), LAMBDA i : ClsOf(tb, toks, i) = "cm")
                      IN SortSeq([j \in 1..Len(c) |-> tb.rst[toks.t[c[j]] + 1]], LAMBDA x, y : x < y)

LayoutClause(tb, a, b) == IF CodeSeq(tb, a) # CodeSeq(tb, b) THEN "Code"
                          ELSE IF Comments(tb, a) # Comments(tb, b) THEN "Comments" ELSE "ok"
CapClause(tb, a, b) ==
  LET na == NonEmpty(a)  nb == NonEmpty(b) IN
  IF Len(na) # Len(nb) THEN "TokenCount"
  ELSE IF \E j \in 1..Len(na) : tb.fold[a.t[na[j]] + 1] # tb.fold[b.t[nb[j]] + 1] THEN "OnlyCase"
  ELSE IF \E j \in 1..Len(na) : a.t[na[j]] # b.t[nb[j]] /\ TypOf(tb, a, na[j]) \notin CaseKinds THEN "Kind"
  ELSE "ok"

Name(pre, c) == CASE pre = "LayoutStep" /\ c = "Code" -> "LayoutStepCode"
                  [] pre = "LayoutStep" /\ c = "Comments" -> "LayoutStepComments"
                  [] pre = "LayoutRendered" /\ c = "Code" -> "LayoutRenderedCode"
                  [] pre = "LayoutRendered" /\ c = "Comments" -> "LayoutRenderedComments"
                  [] pre = "CapStep" /\ c = "TokenCount" -> "CapStepTokenCount"
                  [] pre = "CapStep" /\ c = "OnlyCase" -> "CapStepOnlyCase"
                  [] pre = "CapStep" /\ c = "Kind" -> "CapStepKind"
                  [] pre = "CapRendered" /\ c = "TokenCount" -> "CapRenderedTokenCount"
                  [] pre = "CapRendered" /\ c = "OnlyCase" -> "CapRenderedOnlyCase"
                  [] pre = "CapRendered" /\ c = "Kind" -> "CapRenderedKind"
                  [] OTHER -> "ok"
\* what a batch / the whole run may change, by rule-set mode
ChangeClause(tb, T, pre, a, b) ==
  IF ~T.clean0 THEN "ok"
  ELSE IF T.mode = "layout" /\ A("Layout") THEN Name("Layout" \o pre, LayoutClause(tb, a, b))
  ELSE IF T.mode = "cap" /\ A("Cap") THEN Name("Cap" \o pre, CapClause(tb, a, b))
  ELSE "ok"

-------------------------------------------------------------------------------
(* state *)
NoToks == [t |-> <<>>, k |-> <<>>]
NoPend == [has |-> FALSE, to |-> 0, ver |-> 0, valid |-> TRUE, toks |-> NoToks]
InitCS == [inrun |-> FALSE, second |-> FALSE, root |-> FALSE, cur |-> 0, orig |-> 0, toks |-> NoToks, otoks |-> NoToks,
           seen |-> {}, pend |-> NoPend, nad |-> 0, ad2 |-> 0,
           has0 |-> FALSE, toks0 |-> NoToks, hasfinal |-> FALSE, final1 |-> NoToks]

Adopting(tree) == tree # cs.cur /\ cs.pend.has /\ tree = cs.pend.to
\* the loop moved on to `tree`
ResolveClause(tb, T, tree) ==
  IF tree = cs.cur THEN "ok"
  ELSE IF Adopting(tree)
  THEN IF A("AdoptedTreesValid") /\ ~cs.pend.valid THEN "AdoptedTreesValid"
       ELSE IF A("NoRevisit") /\ cs.pend.ver \in cs.seen THEN "NoRevisit"
       ELSE ChangeClause(tb, T, "Step", cs.toks, cs.pend.toks)
  ELSE IF A("TreeContinuity") THEN "TreeContinuity" ELSE "ok"
Resolved(tree) ==
  IF tree = cs.cur THEN [cs EXCEPT !.pend = NoPend]
  ELSE IF Adopting(tree)
  THEN [cs EXCEPT !.cur = tree, !.toks = cs.pend.toks, !.seen = @ \cup {cs.pend.ver}, !.nad = @ + 1, !.pend = NoPend]
  ELSE [cs EXCEPT !.cur = tree, !.pend = NoPend]

EvClause(tb, T, e) ==
  CASE e.ev = "Begin" ->
         IF e.second /\ e.variant = 0 /\ cs.has0 THEN ChangeClause(tb, T, "Rendered", cs.toks0, e.toks) ELSE "ok"
    [] e.ev = "Crawl" -> IF ~cs.inrun THEN "ok" ELSE ResolveClause(tb, T, e.tree)
    [] e.ev = "Apply" -> IF cs.inrun /\ A("TreeContinuity") /\ e.from # cs.cur THEN "TreeContinuity" ELSE "ok"
    [] e.ev = "FixEnd" ->
         IF e.limit
         THEN IF A("LimitRollback") /\ (e.tree # cs.orig \/ ~e.discarded) THEN "LimitRollback" ELSE "ok"
         ELSE LET c == ResolveClause(tb, T, e.tree) IN
              IF c # "ok" THEN c
              ELSE IF A("ResultReachable") /\ cs.root /\ ~cs.second /\ e.vnum \notin {T.reach0[i] : i \in 1..Len(T.reach0)}
                   THEN "ResultReachable" ELSE "ok"
    [] e.ev = "Relex" ->
         IF A("RelexStable") /\ T.clean0 /\ cs.hasfinal /\ LexSeq(tb, cs.final1) # LexSeq(tb, e.toks)
         THEN "RelexStable" ELSE "ok"
    [] e.ev = "Reparse" -> IF A("ReparseClean") /\ e.clean0 /\ ~e.clean1 THEN "ReparseClean" ELSE "ok"
    [] e.ev = "Second" ->
         IF A("SecondRunNoChange") /\ (IF Prop = "ENGINE" THEN T.idem_required /\ cs.ad2 > 0 ELSE T.clean0 /\ ~e.same)
         THEN "SecondRunNoChange" ELSE "ok"
    [] OTHER -> "UnknownEvent"

EvNext(tb, T, e) ==
  CASE e.ev = "Begin" ->
         [cs EXCEPT !.inrun = TRUE, !.second = e.second, !.root = (e.variant = 0), !.cur = e.tree, !.orig = e.tree,
                    !.toks = e.toks, !.otoks = e.toks, !.seen = {e.ver}, !.pend = NoPend, !.nad = 0,
                    !.has0 = TRUE, !.toks0 = IF cs.has0 THEN cs.toks0 ELSE e.toks]
    [] e.ev = "Crawl" -> IF cs.inrun THEN Resolved(e.tree) ELSE cs
    [] e.ev = "Apply" -> [cs EXCEPT !.pend = [has |-> TRUE, to |-> e.to, ver |-> e.ver, valid |-> e.valid, toks |-> e.toks]]
    [] e.ev = "FixEnd" ->
         LET r == IF e.limit THEN [cs EXCEPT !.toks = cs.otoks, !.pend = NoPend] ELSE Resolved(e.tree) IN
         [r EXCEPT !.inrun = FALSE,
                   !.ad2 = IF cs.second THEN @ + r.nad ELSE @,
                   !.hasfinal = @ \/ (cs.root /\ ~cs.second),
                   !.final1 = IF cs.root /\ ~cs.second /\ ~cs.hasfinal THEN r.toks ELSE @]
    [] OTHER -> cs
=============================================================================
