------------------------------- MODULE Outcome -------------------------------
(* C18 / C19 / C22 / C34 — the per-run outcome contract of `sqlfluff lint | fix | format`.

   Contract layer  (DESIGN §5 C22, verbatim names): Live, Blocked, MayModify (= the consequent of
       Modified(f) => ~Blocked(f) /\ ~Skipped(f) /\ ~LimitHit(f)), Remains, ExitLint, ExitFix, SkippedCount.
       A run R is a value [cmd, feu, nofail, skipfail, files]; the ENTRY POINT (file path, stdin with
       --stdin-filename, python API) IS NOT A FIELD OF R: whatever the contract says holds for all of them (C19).
   Algo layer      : the counters of the real entry points, transcribed —
       LintedDir.add (core/linter/linted_dir.py), LintedDir.discard_fixes_for_lint_errors_in_files_with_tmp_or_prs_errors,
       LintingResult.stats / count_tmp_prs_errors, Linter.lint_paths persist gate, LintedFile.persist_tree,
       cli/commands.py lint / _handle_unparsable / _paths_fix / _stdin_fix, api/simple.py fix,
       Linter.render_string swallowing SQLFluffSkipFile, BaseRunner.iter_rendered skipped_file_count.
   Scenario layer  : TLC enumerates the abstract scenario space (per-file facts x suppression x flags x
       command x sizes around the limits x loop limit x 1-2 files) and emits every scenario with the
       contract's verdict, the transcription's prediction, and the clauses on which the two differ (`diff`).
       The python driver concretises each scenario, runs the real entry points and compares with `allowed`.

   Readings (weakest reasonable; both behaviours allowed where the statement is ambiguous):
   * `ignore = templating` makes the Jinja templater render undefined variables liberally and never
     raise the error at all; whether such a file "has a templating error that is suppressed" is
     ambiguous  => two readings (Readings), either outcome accepted.
   * with fix_even_unparsable a live error that leaves no tree at all (fatal template error, parser
     raised) still prevents any fix; whether that "blocks fixing" for the exit status is ambiguous
     => ExitFixSet = {0, 1} in exactly that case.
   * a fixable violation that is only a warning, or is `ignore`d, may or may not be fixed (MayModify but
     not MustModify).                                                                                  *)
EXTENDS Naturals, Integers, Sequences, FiniteSets, TLC, Json, FiniteSetsExt, SequencesExt

CONSTANTS Families,   \* subset of {"single", "pair", "size", "limit", "cfg", "usage", "variant"}; {} for trace validation (no enumeration)
          Wide        \* TRUE: thorough-tier bounds

TmpPrs == {"TMP", "PRS"}

-----------------------------------------------------------------------------
(* Contract.  F = [V, skipped, limit, notree];  v = [id, kind, suppressed, warning, fixable]           *)
Seen(F)          == IF F.skipped THEN {} ELSE F.V                    \* C34: a skipped file is never linted
Live(F)          == {v \in Seen(F) : ~v.suppressed /\ ~v.warning}
Blocked(R, F)    == ~R.feu /\ \E v \in Seen(F) : v.kind \in TmpPrs     \* suppressed ones count (C18)
MayModify(R, F)  == R.cmd # "lint" /\ R.usage = "none" /\ ~Blocked(R, F) /\ ~F.skipped /\ ~F.limit      \* C18, C34
Remains(R, F, v) == v.kind = "LINT" /\ (~v.fixable \/ Blocked(R, F) \/ F.limit)
FI(R)            == 1..Len(R.files)
SkippedCount(R)  == Cardinality({i \in FI(R) : R.files[i].skipped})
SkipFails(R)     == R.skipfail /\ SkippedCount(R) > 0
ExitLint(R)      == IF R.nofail THEN 0
                    ELSE IF (\E i \in FI(R) : Live(R.files[i]) # {}) \/ SkipFails(R) THEN 1 ELSE 0
FixFails(R)      == \/ \E i \in FI(R) : \E v \in Live(R.files[i]) : Remains(R, R.files[i], v)
                    \/ ~R.feu /\ \E i \in FI(R) : \E v \in Live(R.files[i]) : v.kind \in TmpPrs
                    \/ SkipFails(R)
FixAmbiguous(R)  == R.feu /\ \E i \in FI(R) : R.files[i].notree /\ \E v \in Live(R.files[i]) : v.kind \in TmpPrs
ExitFixSet(R)    == IF FixFails(R) THEN {1} ELSE IF FixAmbiguous(R) THEN {0, 1} ELSE {0}
\* usage / configuration errors (no such path, unknown dialect or templater, no dialect, bad option): 2, nothing is run
ExitSet(R)       == IF R.usage # "none" THEN {2} ELSE IF R.cmd = "lint" THEN {ExitLint(R)} ELSE ExitFixSet(R)
\* exit 0 means no live violation remains, so a live fixable one in a file that may be modified was fixed:
MustModify(R, F) == MayModify(R, F) /\ ~F.notree /\ \E v \in Live(F) : v.kind = "LINT" /\ v.fixable
\* C18, second sentence: at the loop limit the violations of the file are reported without fixes
MustReportUnfixable(R, F) == R.cmd # "lint" /\ F.limit /\ ~F.skipped

Verdict(R) == [exits   |-> ExitSet(R),
               may     |-> {i \in FI(R) : MayModify(R, R.files[i])},
               must    |-> {i \in FI(R) : MustModify(R, R.files[i])},
               nofix   |-> {i \in FI(R) : MustReportUnfixable(R, R.files[i])},
               skipped |-> SkippedCount(R)]

-----------------------------------------------------------------------------
(* Algo: the counters, as written.  `A` functions take the same R (Algo reading of the facts).         *)
Card(S) == Cardinality(S)
\* lint_fix_parsed empties the fixes of the initial violations when the loop limit is hit
HasFixes(F, v)   == v.kind = "LINT" /\ v.fixable /\ ~F.limit
\* LintedDir.add — one call per file the runner yields
RecViols(F)      == {v \in F.V : ~v.suppressed}                    \* get_violations(filter_warning=False)
NumViol(F)       == Card({v \in F.V : ~v.suppressed /\ ~v.warning})  \* file.num_violations()
UnfTmpPrs(F)     == Card({v \in F.V : v.kind \in TmpPrs})           \* filter_ignore=False, filter_warning=False
FiltTmpPrs(F)    == Card({v \in F.V : v.kind \in TmpPrs /\ ~v.suppressed /\ ~v.warning})
UnfixAtAdd(F)    == Card({v \in F.V : v.kind = "LINT" /\ ~HasFixes(F, v) /\ ~v.suppressed /\ ~v.warning})
\* discard_fixes_...: every *record* violation that carries fixes and is not a warning bumps
\* num_unfixable_lint_errors (records keep warnings; counting them was F10, repaired in 9356db3)
DiscardInc(F)    == IF UnfTmpPrs(F) > 0 THEN Card({v \in RecViols(F) : HasFixes(F, v) /\ ~v.warning}) ELSE 0

\* what reaches LintedDir.add: byte-limit skips never do (iter_rendered catches SQLFluffSkipFile and counts);
\* a char-limit skip is swallowed inside render_string: the file is added with no violations and is NOT counted (F11)
AFile(F)         == IF F.skipped THEN [F EXCEPT !.V = {}] ELSE F
AAdded(R)        == {i \in FI(R) : ~(R.files[i].skipped /\ R.limkind = "byte")}
ASkipped(R)      == Card({i \in FI(R) : R.files[i].skipped /\ R.limkind = "byte"})
Sum(R, Op(_))    == FoldSet(LAMBDA i, acc : acc + Op(AFile(R.files[i])), 0, AAdded(R))
Max2(a, b)       == IF a > b THEN a ELSE b
ASkipExit(R)     == IF ASkipped(R) > 0 /\ R.skipfail THEN 1 ELSE 0

\* cli lint (path and stdin share it): result.stats()["exit code"], then the skip clause
ALintExit(R)     == IF R.nofail THEN 0 ELSE Max2(IF Sum(R, NumViol) > 0 THEN 1 ELSE 0, ASkipExit(R))

\* _handle_unparsable
AHandleUnparsable(R) == IF R.feu THEN 0 ELSE IF Sum(R, FiltTmpPrs) > 0 THEN 1 ELSE 0
\* _paths_fix
APathFixExit(R)  == LET nunf == Sum(R, UnfixAtAdd) + (IF R.feu THEN 0 ELSE Sum(R, DiscardInc))
                    IN Max2(Max2(AHandleUnparsable(R), IF nunf > 0 THEN 1 ELSE 0), ASkipExit(R))
\* Linter.lint_paths persist gate + LintedFile.persist_tree
APathModified(R, F) == /\ ~F.skipped /\ (R.feu \/ UnfTmpPrs(F) = 0) /\ ~F.notree
                       /\ \E v \in RecViols(F) : HasFixes(F, v)
\* _stdin_fix (single file): flags sampled BEFORE _handle_unparsable discards the fixes (F23)
AStdinFixExit(R) == LET F == AFile(R.files[1])
                        \* `not fix_even_unparsable and ...` since 2c38d66 (before: the flag was ignored, stdin exited 1)
                        templater_error == ~R.feu /\ \E v \in F.V : v.kind = "TMP" /\ ~v.suppressed /\ ~v.warning
                        unfixable_error == UnfixAtAdd(F) > 0
                    IN IF templater_error \/ unfixable_error THEN 1 ELSE AHandleUnparsable(R)
AStdinModified(R) == LET F == AFile(R.files[1])
                     IN /\ ~F.notree /\ (R.feu \/ UnfTmpPrs(F) = 0)
                        /\ \E v \in F.V : HasFixes(F, v) /\ ~v.suppressed /\ ~v.warning   \* num_violations(fixable=True) filters warnings
\* api.simple.fix: gate on the UNFILTERED count and on tree / templated_file being present
\* (the filtered count and the unguarded fix_string() were F3, repaired in 254ee69)
AApiGate(R)      == R.feu \/ UnfTmpPrs(AFile(R.files[1])) = 0
AApiRaises(R)    == FALSE
AApiModified(R)  == LET F == AFile(R.files[1])
                    IN AApiGate(R) /\ ~F.notree /\ ~F.skipped /\ \E v \in F.V : HasFixes(F, v) /\ ~(v.suppressed /\ v.viaNoqa)

\* usage errors: sys.exit(EXIT_ERROR) in get_config / PathAndUserErrorHandler / click; an unknown dialect named in a
\* config FILE is not caught anywhere: FluffConfig.__init__ lets dialect_selector's KeyError escape (exit 1, traceback)
AUsageExit(R)    == IF R.usage = "unknown_dialect_cfg" THEN 1 ELSE 2
APathExit(R)     == IF R.usage # "none" THEN AUsageExit(R) ELSE IF R.cmd = "lint" THEN ALintExit(R) ELSE APathFixExit(R)
AStdinExit(R)    == IF R.usage # "none" THEN AUsageExit(R) ELSE IF R.cmd = "lint" THEN ALintExit(R) ELSE AStdinFixExit(R)

\* Algo vs Contract, clause by clause (what TLC reports; expected non-empty exactly for the known defects)
\* A = what the path pipeline sees, AS = what the string pipeline (stdin, sqlfluff.lint/fix) sees, R = contract run
Diff(A, AS, R) ==
  LET one == Len(R.files) = 1
      fix == R.cmd # "lint" /\ R.usage = "none"
      str == one /\ R.limkind # "byte"          \* stdin / API take a string: only the char limit applies to them
  IN   (IF APathExit(A) \notin ExitSet(R) THEN {"C22.Exit.path"} ELSE {})
  \cup (IF str /\ AStdinExit(AS) \notin ExitSet(R) THEN {"C22.Exit.stdin"} ELSE {})
  \cup (IF fix /\ \E i \in FI(R) : APathModified(A, AFile(A.files[i])) /\ ~MayModify(R, R.files[i]) THEN {"C18.Modified.path"} ELSE {})
  \cup (IF fix /\ str /\ AStdinModified(AS) /\ ~MayModify(R, R.files[1]) THEN {"C18.Modified.stdin"} ELSE {})
  \cup (IF fix /\ str /\ AApiModified(AS) /\ ~MayModify(R, R.files[1]) THEN {"C18.Modified.api"} ELSE {})
  \cup (IF fix /\ str /\ AApiRaises(AS) THEN {"C19.ApiRaises"} ELSE {})
  \cup (IF fix /\ \E i \in FI(R) : MustModify(R, R.files[i]) /\ ~APathModified(A, AFile(A.files[i])) THEN {"C22.MustModify.path"} ELSE {})
  \cup (IF fix /\ str /\ MustModify(R, R.files[1]) /\ ~AStdinModified(AS) THEN {"C22.MustModify.stdin"} ELSE {})
  \cup (IF ASkipped(A) # SkippedCount(R) THEN {"C34.SkippedCounted"} ELSE {})
  \cup (IF str /\ APathExit(A) # AStdinExit(AS) THEN {"C19.ExitAgree"} ELSE {})
  \cup (IF str /\ ~fix /\ RecViols(AFile(A.files[1])) # RecViols(AFile(AS.files[1])) THEN {"C19.ViolationsAgree"} ELSE {})
  \cup (IF fix /\ str /\ ~AApiRaises(AS)
           /\ ~(APathModified(A, AFile(A.files[1])) = AStdinModified(AS) /\ AStdinModified(AS) = AApiModified(AS))
        THEN {"C19.FixedTextAgree"} ELSE {})

-----------------------------------------------------------------------------
(* Scenario space *)
Errs   == {"tmp_fatal", "tmp_soft", "prs_raise", "prs_section"}
ESups  == {"live", "noqa", "ignore", "warning"}
LSups  == IF Wide THEN {"live", "noqa", "warning", "ignore"} ELSE {"live", "noqa", "warning"}
ErrC   == {<<"none", "live">>} \cup (Errs \X ESups)
LintC  == {<<"none", "live">>} \cup ({"fixable", "unfixable"} \X LSups)
FileOf(e, l, size, passes) == [err |-> e[1], esup |-> e[2], lint |-> l[1], lsup |-> l[2], size |-> size, passes |-> passes]
Plain(e, l) == FileOf(e, l, "na", IF l[1] = "fixable" THEN 1 ELSE 0)
AllFiles == {Plain(e, l) : e \in ErrC, l \in LintC}

\* representative file classes for two-file runs and for the config-source family
Clean      == Plain(<<"none", "live">>, <<"none", "live">>)
FixLive    == Plain(<<"none", "live">>, <<"fixable", "live">>)
UnfLive    == Plain(<<"none", "live">>, <<"unfixable", "live">>)
FixWarn    == Plain(<<"none", "live">>, <<"fixable", "warning">>)
BlkFixLive == Plain(<<"prs_section", "noqa">>, <<"fixable", "live">>)          \* F23 / F3 shape
BlkFixWarn == Plain(<<"prs_section", "noqa">>, <<"fixable", "warning">>)       \* F10 shape
IgnFixLive == Plain(<<"prs_section", "ignore">>, <<"fixable", "live">>)
TmpFixLive == Plain(<<"tmp_soft", "live">>, <<"fixable", "live">>)
TmpWarnFix == Plain(<<"tmp_soft", "warning">>, <<"fixable", "live">>)
FatalNoqa  == Plain(<<"tmp_fatal", "noqa">>, <<"none", "live">>)
RaiseLive  == Plain(<<"prs_raise", "live">>, <<"none", "live">>)
PrsLive    == Plain(<<"prs_section", "live">>, <<"unfixable", "live">>)
Classes    == IF Wide THEN {Clean, FixLive, UnfLive, FixWarn, BlkFixLive, BlkFixWarn, IgnFixLive, TmpFixLive,
                            TmpWarnFix, FatalNoqa, RaiseLive, PrsLive}
              ELSE {Clean, FixLive, UnfLive, BlkFixLive, BlkFixWarn, TmpFixLive, FatalNoqa}

Modes == {[cmd |-> "lint", feu |-> FALSE, nofail |-> FALSE], [cmd |-> "lint", feu |-> FALSE, nofail |-> TRUE],
          [cmd |-> "fix", feu |-> FALSE, nofail |-> FALSE], [cmd |-> "fix", feu |-> TRUE, nofail |-> FALSE],
          [cmd |-> "format", feu |-> FALSE, nofail |-> FALSE]}
Sc(fam, m, files, limkind, skipfail, runaway, cfgsrc, cfgitem, procs) ==
   [family |-> fam, usage |-> "none", vlimit |-> 0, limsrc |-> "root", cmd |-> m.cmd, feu |-> m.feu, nofail |-> m.nofail, files |-> files, limkind |-> limkind,
    skipfail |-> skipfail, runaway |-> runaway, cfgsrc |-> cfgsrc, cfgitem |-> cfgitem, procs |-> procs]

NoFail == [cmd |-> "lint", feu |-> FALSE, nofail |-> TRUE]
FixFeu == [cmd |-> "fix", feu |-> TRUE, nofail |-> FALSE]
Single == {s \in {Sc("single", m, <<f>>, "none", FALSE, 0, "root", "all", 1) : m \in Modes, f \in AllFiles} :
              s.nofail => (Wide \/ s.files[1] \in Classes)}
Pair   == {Sc("pair", m, <<f, g>>, "none", FALSE, 0, "nested", "all", p) :
              m \in Modes \ {[cmd |-> "lint", feu |-> FALSE, nofail |-> TRUE]}, f \in Classes, g \in Classes, p \in {1, 2}}
PairOK(s) == s.procs = 1 \/ (Wide /\ s.files[1] \in {FixLive, BlkFixLive, BlkFixWarn, UnfLive} /\ s.files[2] \in {Clean, FixLive, BlkFixWarn, TmpFixLive})
SizeFiles == {FileOf(e, l, s, IF l[1] = "fixable" THEN 1 ELSE 0) :
                 e \in {<<"none", "live">>, <<"prs_section", "noqa">>}, l \in {<<"none", "live">>, <<"fixable", "live">>},
                 s \in {"under", "at", "over"}}
Size   == {Sc("size", m, fs, k, sf, 0, "root", "all", p) :
              m \in (IF Wide THEN Modes ELSE Modes \ {NoFail, FixFeu}), k \in {"byte", "char"}, sf \in BOOLEAN, p \in {1, 2},
              fs \in {<<f>> : f \in SizeFiles} \cup {<<f, FileOf(<<"none", "live">>, <<"fixable", "live">>, "under", 1)>> : f \in SizeFiles}}
\* processes = 2 needs two files (lint_paths forces serial for one file)
SizeOK(s) == s.procs = 1 \/ (Len(s.files) = 2 /\ s.files[1].size = "over" /\ s.files[1].err = "none" /\ s.limkind = "byte")
\* where the byte limit is configured: in the root config (above), or in a .sqlfluff next to the file that sets a
\* LOWER limit than the root's (file between the two must be skipped) or a HIGHER one (file between the two must
\* not).  The effective limit is the per-file configuration's, so the verdict is the same: limsrc is not a field of R.
SizeNested == {[s EXCEPT !.limsrc = ls] : ls \in {"nested_lower", "nested_higher"},
                  s \in {t \in Size : t.limkind = "byte" /\ t.procs = 1 /\ t.files[1].err = "none"
                                      /\ ~t.nofail /\ ~t.feu /\ t.cmd \in {"lint", "fix"}}}
LimitFiles == {FileOf(e, l, "na", p) : e \in {<<"none", "live">>, <<"prs_section", "noqa">>},
                  l \in {<<"none", "live">>, <<"fixable", "live">>, <<"fixable", "warning">>}, p \in 0..2}
LimitOK(f) == (f.lint = "none") = (f.passes = 0)
Limit  == {Sc("limit", m, <<f>>, "none", FALSE, r, "root", "all", 1) :
              m \in {mm \in Modes : mm.cmd # "lint" \/ ~mm.nofail}, f \in {g \in LimitFiles : LimitOK(g)}, r \in {1, 2}}
\* where the per-file settings live: a nested .sqlfluff next to the file, or `-- sqlfluff:` lines in the file
CfgFiles == {Clean, FixLive, UnfLive, FixWarn, IgnFixLive, BlkFixLive, TmpWarnFix}
Cfg    == {Sc("cfg", m, <<f>>, "none", FALSE, 0, src, item, 1) :
              m \in Modes \ {[cmd |-> "lint", feu |-> FALSE, nofail |-> TRUE]}, f \in CfgFiles,
              src \in {"nested", "inline"}, item \in {"rules", "warnings", "ignore", "all"}}
\* an item is only meaningful when the file uses it (rules: always)
CfgOK(s) == LET f == s.files[1] IN
            /\ s.cmd # "format" \/ s.cfgitem # "rules"            \* format fixes its own rule list
            /\ s.cfgitem = "warnings" => (f.esup = "warning" \/ f.lsup = "warning")
            /\ s.cfgitem = "ignore" => (f.esup = "ignore" \/ f.lsup = "ignore")

\* render_variant_limit = 1 (the documented way to switch variant linting off) must not change any verdict: the
\* contract does not mention it, so vlimit is NOT a field of the run value R; it only reaches the concretiser.
\* (A templater error found while rendering the one permitted variant is still an error of the file.)
VarFiles == {f \in AllFiles : f.err = "tmp_soft"} \cup {Clean, FixLive, UnfLive, BlkFixLive, FatalNoqa}
Variant == {[Sc("variant", m, <<f>>, "none", FALSE, 0, "root", "all", 1) EXCEPT !.vlimit = 1] :
               m \in Modes \ {NoFail}, f \in VarFiles}
UsageKinds == {"missing_path", "unknown_dialect_cfg", "unknown_dialect_opt", "no_dialect", "bad_option", "bad_templater", "format_rules"}
Usage  == {[Sc("usage", m, <<f>>, "none", FALSE, 0, "root", "all", 1) EXCEPT !.usage = u] :
              m \in Modes, f \in {Clean, FixLive}, u \in UsageKinds}
UsageOK(s) == (s.usage = "format_rules") => (s.cmd = "format")
FamilyOf(fam) == CASE fam = "single" -> Single
                   [] fam = "usage"  -> {s \in Usage : UsageOK(s)}
                   [] fam = "variant" -> Variant
                   [] fam = "pair"   -> {s \in Pair : PairOK(s)}
                   [] fam = "size"   -> {s \in Size : SizeOK(s)} \cup SizeNested
                   [] fam = "limit"  -> Limit
                   [] fam = "cfg"    -> {s \in Cfg : CfgOK(s)}
                   [] OTHER -> {}
Scenarios == UNION {FamilyOf(fam) : fam \in Families}

-----------------------------------------------------------------------------
(* From scenario facts to a run.  Which violations exist is what the pipeline determines:
   no tree (fatal template error / parser raised) => no rule runs.                                     *)
NoTree(f)   == f.err \in {"tmp_fatal", "prs_raise"}
ErrKind(f)  == IF f.err \in {"tmp_fatal", "tmp_soft"} THEN "TMP" ELSE "PRS"
\* reading r = TRUE: `ignore = templating` + undefined variable still counts as a (suppressed) TMP error
ErrPresent(f, r) == f.err # "none" /\ (f.err = "tmp_soft" /\ f.esup = "ignore" => r)
Vof(f, r) ==
   (IF ErrPresent(f, r)
    THEN {[id |-> 1, kind |-> ErrKind(f), suppressed |-> f.esup \in {"noqa", "ignore"}, viaNoqa |-> f.esup = "noqa",
           warning |-> f.esup = "warning", fixable |-> FALSE]} ELSE {})
   \cup
   (IF f.lint # "none" /\ ~NoTree(f)
    THEN {[id |-> 2, kind |-> "LINT", suppressed |-> f.lsup \in {"noqa", "ignore"}, viaNoqa |-> f.lsup = "noqa",
           warning |-> f.lsup = "warning", fixable |-> f.lint = "fixable"]} ELSE {})
Oversized(s, f) == s.limkind # "none" /\ f.size = "over"
\* the fix loop needs passes+1 loops to see stability: lint_fix_parsed's for/else
LimitHit(s, f)  == s.cmd # "lint" /\ s.runaway > 0 /\ f.passes >= s.runaway /\ ~NoTree(f)
RunOf(s, r) == [usage |-> s.usage, cmd |-> s.cmd, feu |-> s.feu, nofail |-> s.nofail, skipfail |-> s.skipfail, limkind |-> s.limkind,
                files |-> [i \in 1..Len(s.files) |->
                             [V |-> Vof(s.files[i], r), skipped |-> Oversized(s, s.files[i]),
                              limit |-> LimitHit(s, s.files[i]), notree |-> NoTree(s.files[i])]]]
Ambiguous(s) == \E i \in 1..Len(s.files) : s.files[i].err = "tmp_soft" /\ s.files[i].esup = "ignore"
Readings(s)  == IF Ambiguous(s) THEN {TRUE, FALSE} ELSE {TRUE}
\* the code's own reading: the templater never raises the error under ignore = templating
AlgoRun(s)   == RunOf(s, FALSE)
\* Linter.lint_string used to build the rule pack from the config as it was BEFORE the file's `-- sqlfluff:` lines
\* were applied (F2: inline rule selection ignored through stdin / sqlfluff.lint / sqlfluff.fix); repaired in affb347,
\* it now uses parsed.config like the path pipeline.  The hook stays so that the quirk can be modelled again.
InlineRulesIgnored(s) == FALSE
AlgoStrRun(s) == IF ~InlineRulesIgnored(s) THEN AlgoRun(s)
                 ELSE [AlgoRun(s) EXCEPT !.files = [i \in DOMAIN @ |-> [@[i] EXCEPT !.V = {v \in @ : v.kind # "LINT"}]]]

\* the transcription deviates from the contract only if it does so under every reading
ScDiff(s) == IF \E r \in Readings(s) : Diff(AlgoRun(s), AlgoStrRun(s), RunOf(s, r)) = {} THEN {}
             ELSE Diff(AlgoRun(s), AlgoStrRun(s), RunOf(s, FALSE))
J(S) == SetToSeq(S)
VJ(v) == [exits |-> J(v.exits), may |-> J(v.may), must |-> J(v.must), nofix |-> J(v.nofix), skipped |-> v.skipped]
Record(s) ==
   LET A == AlgoRun(s)
       AS == AlgoStrRun(s)
       one == Len(s.files) = 1
   IN [family |-> s.family, usage |-> s.usage, vlimit |-> s.vlimit, limsrc |-> s.limsrc, cmd |-> s.cmd, feu |-> s.feu, nofail |-> s.nofail, skipfail |-> s.skipfail,
       limkind |-> s.limkind, runaway |-> s.runaway, cfgsrc |-> s.cfgsrc, cfgitem |-> s.cfgitem, procs |-> s.procs,
       files |-> s.files,
       allowed |-> J({VJ(Verdict(RunOf(s, r))) : r \in Readings(s)}),
       algo |-> [path_exit |-> APathExit(A),
                 path_mod |-> J({i \in FI(A) : A.cmd # "lint" /\ A.usage = "none" /\ APathModified(A, AFile(A.files[i]))}),
                 skipped |-> ASkipped(A),
                 stdin_exit |-> IF one THEN AStdinExit(AS) ELSE 0,
                 stdin_mod |-> one /\ A.cmd # "lint" /\ A.usage = "none" /\ AStdinModified(AS),
                 api_mod |-> one /\ A.cmd # "lint" /\ AApiModified(AS),
                 api_raises |-> one /\ A.cmd # "lint" /\ AApiRaises(AS)],
       facts |-> [i \in 1..Len(s.files) |-> [V |-> J(A.files[i].V), skipped |-> A.files[i].skipped,
                                              limit |-> A.files[i].limit, notree |-> A.files[i].notree]],
       diff |-> J(ScDiff(s))]

VARIABLES sc, done
vars == <<sc, done>>
Init == sc \in Scenarios /\ done = FALSE
Emit == ~done /\ done' = TRUE /\ UNCHANGED sc /\ PrintT(ToJson(Record(sc)))
Next == Emit
Spec == Init /\ [][Next]_vars

-----------------------------------------------------------------------------
(* Invariants.  The first group is expected to HOLD (sanity of the contract); AlgoRefinesContract is
   expected to be VIOLATED on today's code — the counterexample TLC prints is the F10/F23/F3/F11 witness. *)
ContractSane ==
   \A r \in Readings(sc) : LET R == RunOf(sc, r) IN
      /\ \A i \in FI(R) : MustModify(R, R.files[i]) => MayModify(R, R.files[i])
      /\ \A i \in FI(R) : R.files[i].skipped => ~MayModify(R, R.files[i]) /\ Live(R.files[i]) = {}
      /\ R.cmd = "lint" => \A i \in FI(R) : ~MayModify(R, R.files[i])
      /\ ExitSet(R) # {} /\ ExitSet(R) \subseteq {0, 1, 2}
      /\ (2 \in ExitSet(R)) = (R.usage # "none")
      /\ (R.cmd = "lint" /\ R.nofail /\ R.usage = "none") => ExitSet(R) = {0}
      \* warnings never cause a non-zero exit: turning every warning into "absent" leaves the verdict unchanged
      /\ LET NoW == [R EXCEPT !.files = [i \in FI(R) |-> [R.files[i] EXCEPT !.V = {v \in @ : ~v.warning \/ v.kind \in TmpPrs}]]]
         IN ExitSet(NoW) = ExitSet(R)
AlgoRefinesContract == ScDiff(sc) = {}
\* the same, clause by clause, so that each known defect falls out as its own counterexample
PathCountersRefineExit == "C22.Exit.path" \notin ScDiff(sc)            \* was F10; still: F11 with a char limit, unknown dialect in a config file
StdinFlagsRefineExit   == "C22.Exit.stdin" \notin ScDiff(sc)           \* F23
ApiGateRefinesBlocked  == "C18.Modified.api" \notin ScDiff(sc)         \* was F3: holds since 254ee69
SkipsAreCounted        == "C34.SkippedCounted" \notin ScDiff(sc)       \* F11
EntryPointsAgree       == ScDiff(sc) \cap {"C19.ExitAgree", "C19.ViolationsAgree", "C19.FixedTextAgree", "C19.ApiRaises"} = {}   \* F23, stdin warning-only fixes
===============================================================================
