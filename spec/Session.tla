-------------------------------- MODULE Session --------------------------------
(* C32 — linting is read-only and repeatable (also feeds C06: parsing is independent of history).

   A *session* is one python process in which a history of operations is executed.  The operation
   alphabet Sym is {lint, parse, render, fix-to-string} x a small set of files, each chosen because it
   touches one piece of process-level (or Linter-level) mutable state:

     BlockTracker._stack / ._map      class-level lists in core/parser/lexer.py (Jinja blocks, loops)
     reference_map                    Linter.allowed_rule_ref_map adds PRS/LXR/TMP to the rule pack's map
                                      when `disable_noqa_except` is set (core/linter/linter.py:879)
     config.path_cache / file_cache   @cache on load_config_at_path / load_config_file_as_dict
     config.defaults                  @cache on load_config_string_as_dict (default config)
     linter.config                    the root FluffConfig of a Linter that is reused for several texts
                                      (parse_string works on a .copy(); inline directives write to the copy)
     linter.templater                 the one templater object of a reused Linter (live context per file)
     grammar.simple_cache             @cached_method_for_parse_context on grammar objects shared between
                                      dialects (keyed by the parse context's uuid)
     cli.globals                      yaml representers, logging level, progress-bar switch set by the CLI

   Contract:  Result(op, history) = Result(op, << >>) — what an operation returns (violations as
   (code, line, pos, description), parse record, rendered text, fixed string) is a function of the
   operation alone; and lint / parse / render never modify a file of the input tree (ReadOnly, decided
   on recorded file-system events in SessionTrace).

   Model of the code: every shared variable carries the *flavour* left by its last writer (which
   dialect filled the grammar caches, whose inline directives were applied, whose context was live ...).
   An operation's result may depend on a shared variable only through ResultReads; for the code as
   written ResultReads is empty for every operation (copies, uuid keys, fresh maps per file), which is
   exactly why the contract holds.  Bug # "none" removes one of those protections (model self-test:
   HistoryFree must then fail).  The model also states StackEmptyBetweenOps: every operation leaves
   BlockTracker._stack as it found it (block_start/block_end are balanced in any rendered file).

   TLC enumerates every history of length 1..MaxLen and emits it together with its *exposure*: the steps
   at which an operation touches shared state that a different earlier operation left in a foreign
   flavour.  Histories with a non-empty exposure are the ones that can tell a defect; the driver runs all.*)
EXTENDS Naturals, Sequences, FiniteSets, TLC, Json, SequencesExt

CONSTANTS MaxLen,  \* longest history
          Bug      \* "none" | "stale_simple_cache" | "no_copy_in_parse_string" | "stale_templater_context"
                   \*        | "shared_reference_map" | "unbalanced_block_exit"

Shared == {"blocktracker.stack", "blocktracker.map", "reference_map", "config.path_cache", "config.file_cache",
           "config.defaults", "linter.config", "linter.templater", "grammar.simple_cache", "cli.globals"}

\* op, file, entry point, and the flavour it leaves in each shared variable it writes
\* (files: see harness/vf/props/c32.py FILES; "api" operations share one Linter per session)
Sym == <<
 [op |-> "lint",   file |-> "blocks",   via |-> "cli-json",
  w |-> [v \in {"blocktracker.map", "grammar.simple_cache", "config.path_cache", "cli.globals"} |-> "ansi"]],
 [op |-> "fix",    file |-> "blocks",   via |-> "api",
  w |-> [v \in {"blocktracker.map", "grammar.simple_cache", "linter.templater"} |-> "ansi"]],
 [op |-> "lint",   file |-> "noqa_except", via |-> "cli-json",
  w |-> [v \in {"reference_map", "config.path_cache", "config.file_cache", "grammar.simple_cache", "cli.globals"} |->
           IF v = "reference_map" THEN "narrowed" ELSE "ansi"]],
 [op |-> "lint",   file |-> "nested",   via |-> "api",
  w |-> [v \in {"config.path_cache", "config.file_cache", "grammar.simple_cache", "linter.templater", "blocktracker.map"} |->
           "postgres"]],
 [op |-> "lint",   file |-> "inline",   via |-> "api-string",
  w |-> [v \in {"linter.config", "grammar.simple_cache"} |-> IF v = "linter.config" THEN "inline" ELSE "tsql"]],
 [op |-> "parse",  file |-> "blocks",   via |-> "cli-yaml",
  w |-> [v \in {"blocktracker.map", "grammar.simple_cache", "cli.globals"} |-> IF v = "cli.globals" THEN "yaml" ELSE "ansi"]],
 [op |-> "parse",  file |-> "plain",    via |-> "cli-json",
  w |-> [v \in {"grammar.simple_cache", "cli.globals"} |-> "ansi"]],
 [op |-> "lint",   file |-> "prs",      via |-> "cli-yaml",
  w |-> [v \in {"grammar.simple_cache", "cli.globals", "reference_map"} |-> IF v = "cli.globals" THEN "yaml" ELSE "ansi"]],
 [op |-> "lint",   file |-> "variants", via |-> "api",
  w |-> [v \in {"blocktracker.map", "grammar.simple_cache", "linter.templater"} |-> "ansi"]],
 [op |-> "render", file |-> "variants", via |-> "cli",
  w |-> [v \in {"cli.globals", "config.path_cache"} |-> "ansi"]],
 [op |-> "fix",    file |-> "plain",    via |-> "api",
  w |-> [v \in {"grammar.simple_cache", "linter.templater"} |-> "ansi"]],
 [op |-> "parse",  file |-> "prs",      via |-> "api-string",
  w |-> [v \in {"linter.config", "grammar.simple_cache"} |-> "ansi"]],
 [op |-> "render", file |-> "nested",   via |-> "api",
  w |-> [v \in {"linter.templater", "config.path_cache", "config.file_cache"} |-> "postgres"]]
>>
NSym    == Len(Sym)
Writes(s)  == DOMAIN Sym[s].w
Touches(s) == Writes(s)      \* every variable an operation writes it also reads (caches, stacks, maps)

\* through which shared variables the *result* of an operation can depend on their content
ResultReads(s) ==
   CASE Bug = "stale_simple_cache"      -> Writes(s) \cap {"grammar.simple_cache"}
     [] Bug = "no_copy_in_parse_string" -> Writes(s) \cap {"linter.config"}
     [] Bug = "stale_templater_context" -> Writes(s) \cap {"linter.templater"}
     [] Bug = "shared_reference_map"    -> Writes(s) \cap {"reference_map"}
     [] OTHER -> {}

VARIABLES hist,    \* symbols executed so far
          st,      \* [Shared -> flavour]; "init" = untouched
          res,     \* per executed step: the part of the state its result depended on
          expo,    \* per executed step: touched variables found in a foreign flavour
          emitted
vars == <<hist, st, res, expo, emitted>>

Foreign(s, v) == st[v] # "init" /\ st[v] # Sym[s].w[v]

Init == hist = <<>> /\ st = [v \in Shared |-> "init"] /\ res = <<>> /\ expo = <<>> /\ emitted = FALSE

Do(s) == /\ Len(hist) < MaxLen /\ ~emitted
         /\ hist' = Append(hist, s)
         /\ res'  = Append(res, [v \in ResultReads(s) |-> IF Foreign(s, v) THEN st[v] ELSE "own"])
         /\ expo' = Append(expo, {v \in Touches(s) : Foreign(s, v)})
         /\ st'   = [v \in Shared |->
                       IF v = "blocktracker.stack"
                       THEN (IF Bug = "unbalanced_block_exit" /\ "blocktracker.map" \in Writes(s) THEN "leaked" ELSE st[v])
                       ELSE IF v \in Writes(s) THEN Sym[s].w[v] ELSE st[v]]
         /\ UNCHANGED emitted

SortSet(S) == SetToSortSeq(S, LAMBDA a, b : TRUE)
Emit == /\ hist # <<>> /\ ~emitted /\ emitted' = TRUE
        /\ PrintT(ToJson([hist |-> hist,
                          ops  |-> [j \in 1..Len(hist) |-> [op |-> Sym[hist[j]].op, file |-> Sym[hist[j]].file,
                                                             via |-> Sym[hist[j]].via]],
                          exposure |-> [j \in 1..Len(hist) |-> SetToSeq(expo[j])]]))
        /\ UNCHANGED <<hist, st, res, expo>>

Next == (\E s \in 1..NSym : Do(s)) \/ Emit
Spec == Init /\ [][Next]_vars

---------------------------------------------------------------------------------
(* Contract on the model: Result(op, history) = Result(op, << >>) *)
FreshResult(s) == [v \in ResultReads(s) |-> "own"]
HistoryFree == \A j \in 1..Len(hist) : res[j] = FreshResult(hist[j])
StackEmptyBetweenOps == st["blocktracker.stack"] = "init"
===============================================================================
