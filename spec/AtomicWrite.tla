------------------------------ MODULE AtomicWrite ------------------------------
(* C26 — writing fixed files is atomic and faithful.

   Contract layer : AtomicWriteOps!ObsClause (TargetIntact, EncodingPreserved, SuffixLeavesOriginal,
                    SkipUntouched, NoTempOnReturn, SuccessWritesFixed, ModePreserved; per file = Independent),
                    evaluated on the projection ObsOf of every state, plus RenameOnlyDurable.
   Algo layer     : the real op sequence, one action per file-system operation:
                    Linter.lint_paths apply_fixes loop / LintedDir.persist_changes  (files in order, an
                      exception ends the call)                                       -> cur, Done
                    LintedFile.persist_tree gate (fixable violations, suffix)        -> Gate
                    LintedFile._safe_create_replace_file (core/linter/linted_file.py):
                      os.stat(input) ; NamedTemporaryFile(dir=dirname(output)) = os.open(O_CREAT|O_EXCL, 0600)
                      then io.open wrapping ; tmp.file.write ; tmp.flush ; os.fsync ; close (with-exit) ;
                      os.chmod(tmp, mode) ; shutil.move(tmp, output) = os.rename, and when that raises
                      OSError the library's fallback copy2 + unlink (open(dst,'wb') truncates the target,
                      data copy, copystat, unlink) ; `except BaseException:` os.remove(tmp) ; raise.
   Every operation may succeed, raise (at most MaxRaise times per run; an OSError, a KeyboardInterrupt or a
   SystemExit — the handler in the code is `except BaseException`), or the process may die there;
   a write or a copy may stop after part of the data.  `plan` records the deviations from success; each
   terminal state is emitted with its plan so that the harness can replay it by fault injection.          *)
EXTENDS AtomicWriteOps, TLC, Json

CONSTANTS NFiles,        \* files handled by one call
          SkipChoices,   \* candidate sets of files without fixable violations (persist_tree result SKIP)
          SuffixChoices, \* subset of BOOLEAN: fixed_file_suffix given or not
          MaxRaise,      \* bound on raised faults per run
          AllowDie,      \* process death modelled
          MoveFallback,  \* TRUE: shutil.move as it is; FALSE: a rename that fails just fails (os.replace)
          ExcKinds       \* classes of raised exceptions, subset of {"os", "kbd", "exit"}

VARIABLES fs, cur, pc, saved, named, synced, nraise, plan, status, rmfail, emitted,
          suffix, skip           \* the scenario (chosen in Init, never changed)
vars == <<fs, cur, pc, saved, named, synced, nraise, plan, status, rmfail, emitted, suffix, skip>>

FilesIdx == 1..NFiles
In(i)  == <<"in", i>>
Out(i) == IF suffix THEN <<"out", i>> ELSE <<"in", i>>
Tmp(i) == <<"tmp", i>>
NamesOf(sfx) == {In(i) : i \in FilesIdx} \cup {Tmp(i) : i \in FilesIdx} \cup (IF sfx THEN {<<"out", i>> : i \in FilesIdx} ELSE {})
OMode(i) == IF i = 1 THEN "0640" ELSE "0604"
TmpMode  == "0600"                       \* mkstemp
DefMode  == "0644"                       \* open(dst, 'wb') creating a new file under umask 022

Init == /\ suffix \in SuffixChoices /\ skip \in SkipChoices
        /\ fs = [n \in NamesOf(suffix) |-> IF n \in {In(i) : i \in FilesIdx} THEN [body |-> "orig", mode |-> OMode(n[2])] ELSE Absent]
        /\ cur = 1 /\ pc = "gate" /\ saved = "none" /\ named = FALSE /\ synced = FALSE
        /\ nraise = 0 /\ plan = <<>> /\ status = "run" /\ rmfail = FALSE /\ emitted = FALSE

Running(op) == status = "run" /\ pc = op
Dev(op, what) == plan' = Append(plan, <<cur, op, what>>)
CanRaise == nraise < MaxRaise
\* A raised fault carries the class of the exception: "os" = OSError (what the library calls raise by themselves),
\* "kbd" = KeyboardInterrupt (Ctrl-C delivered while the call runs), "exit" = SystemExit (a SIGTERM handler / sys.exit).
\* The last two are BaseExceptions that are not Exceptions.  The plan tags them as "<what>:kbd" / "<what>:exit".
Tag(what, kd) == IF kd = "os" THEN what ELSE what \o ":" \o kd
RaisedIn(op, what, kinds) == CanRaise /\ nraise' = nraise + 1 /\ \E kd \in kinds : Dev(op, Tag(what, kd))
Raised(op, what) == RaisedIn(op, what, ExcKinds)
Goto(p) == pc' = p
\* the successor of an operation on the success path is read off AtomicWriteOps!MainOps / FallbackOps
PosIn(seq, op) == CHOOSE i \in 1..Len(seq) : seq[i] = op
After(op) == IF \E i \in 1..Len(MainOps) : MainOps[i] = op
             THEN (IF PosIn(MainOps, op) = Len(MainOps) THEN "done" ELSE MainOps[PosIn(MainOps, op) + 1])
             ELSE (IF PosIn(FallbackOps, op) = Len(FallbackOps) THEN "done" ELSE FallbackOps[PosIn(FallbackOps, op) + 1])
Keep(vs) == UNCHANGED vs
\* `except BaseException:` — remove the temp file if its name is known and it exists, then re-raise
ToExcept == IF named /\ fs[Tmp(cur)] # Absent THEN pc' = "remove" /\ status' = status ELSE pc' = "returned" /\ status' = "exc"
ToExceptWith(newfs) == IF named /\ newfs[Tmp(cur)] # Absent THEN pc' = "remove" /\ status' = status
                       ELSE pc' = "returned" /\ status' = "exc"
Die(op, what) == /\ AllowDie /\ Running(op) /\ status' = "dead" /\ Dev(op, what)
                 /\ UNCHANGED <<cur, pc, saved, named, synced, nraise, rmfail, emitted>>

\* persist_tree: nothing fixable -> SKIP; else the fixed string is written
Gate == /\ Running("gate") /\ UNCHANGED <<fs, saved, synced, nraise, plan, rmfail, emitted, named>>
        /\ IF cur \in skip THEN pc' = "done" /\ UNCHANGED <<cur, status>>
           ELSE pc' = MainOps[1] /\ UNCHANGED <<cur, status>>
FileDone == /\ Running("done") /\ UNCHANGED <<fs, nraise, plan, rmfail, emitted>>
            /\ saved' = "none" /\ named' = FALSE /\ synced' = FALSE
            /\ IF cur = NFiles THEN status' = "ok" /\ pc' = "returned" /\ cur' = cur
               ELSE status' = status /\ pc' = "gate" /\ cur' = cur + 1

Stat == /\ Running("stat") /\ UNCHANGED <<fs, cur, named, synced, rmfail, emitted>>
        /\ \/ saved' = fs[In(cur)].mode /\ Goto(After("stat")) /\ UNCHANGED <<nraise, plan, status>>
           \/ Raised("stat", "raise") /\ saved' = saved /\ status' = "exc" /\ pc' = "returned"   \* outside the try
Open == /\ Running("open") /\ UNCHANGED <<cur, saved, named, synced, rmfail, emitted>>
        /\ \/ fs' = [fs EXCEPT ![Tmp(cur)] = [body |-> "empty", mode |-> TmpMode]] /\ Goto(After("open")) /\ UNCHANGED <<nraise, plan, status>>
           \/ Raised("open", "raise") /\ fs' = fs /\ ToExcept                                   \* tmp_name is None
\* io.open around the descriptor (codec lookup ...): on failure tempfile itself unlinks the new file
Wrap == /\ Running("wrap") /\ UNCHANGED <<cur, saved, synced, rmfail, emitted>>
        /\ \/ named' = TRUE /\ fs' = fs /\ Goto(After("wrap")) /\ UNCHANGED <<nraise, plan, status>>
           \/ Raised("wrap", "raise") /\ named' = named /\ fs' = [fs EXCEPT ![Tmp(cur)] = Absent] /\ pc' = "returned" /\ status' = "exc"
\* tmp.file.write: buffered; what is on disk afterwards is any prefix.  A failing write (encode error, ENOSPC)
\* leaves nothing or part of the data.
TmpBody(b) == [fs EXCEPT ![Tmp(cur)].body = b]
Write == /\ Running("write") /\ UNCHANGED <<cur, saved, named, synced, rmfail, emitted>>
         /\ \/ \E b \in {"empty", "partial", "fixed"} : fs' = TmpBody(b) /\ Goto(After("write")) /\ UNCHANGED <<nraise, plan, status>>
            \/ \E b \in {"empty", "partial"} : Raised("write", "raise-" \o b) /\ fs' = TmpBody(b) /\ ToExceptWith(TmpBody(b))
Flush == /\ Running("flush") /\ UNCHANGED <<cur, saved, named, synced, rmfail, emitted>>
         /\ \/ fs' = TmpBody("fixed") /\ Goto(After("flush")) /\ UNCHANGED <<nraise, plan, status>>
            \/ Raised("flush", "raise") /\ fs' = fs /\ ToExcept
Fsync == /\ Running("fsync") /\ UNCHANGED <<fs, cur, saved, named, rmfail, emitted>>
         /\ \/ synced' = TRUE /\ Goto(After("fsync")) /\ UNCHANGED <<nraise, plan, status>>
            \/ Raised("fsync", "raise") /\ synced' = synced /\ ToExcept
Close == /\ Running("close") /\ UNCHANGED <<fs, cur, saved, named, synced, rmfail, emitted>>
         /\ \/ Goto(IF saved # "none" THEN After("close") ELSE After("chmod")) /\ UNCHANGED <<nraise, plan, status>>
            \/ Raised("close", "raise") /\ ToExcept
Chmod == /\ Running("chmod") /\ UNCHANGED <<cur, saved, named, synced, rmfail, emitted>>
         /\ \/ fs' = [fs EXCEPT ![Tmp(cur)].mode = saved] /\ Goto(After("chmod")) /\ UNCHANGED <<nraise, plan, status>>
            \/ Raised("chmod", "raise") /\ fs' = fs /\ ToExcept
Rename == /\ Running("rename") /\ UNCHANGED <<cur, saved, named, synced, rmfail, emitted>>
          /\ \/ fs' = [fs EXCEPT ![Out(cur)] = fs[Tmp(cur)], ![Tmp(cur)] = Absent] /\ Goto(After("rename")) /\ UNCHANGED <<nraise, plan, status>>
             \* shutil.move catches OSError only: any other exception leaves it at once
             \/ RaisedIn("rename", "raise", ExcKinds \cap {"os"}) /\ fs' = fs
                /\ IF MoveFallback THEN Goto(FallbackOps[1]) /\ status' = status ELSE ToExcept
             \/ RaisedIn("rename", "raise", ExcKinds \ {"os"}) /\ fs' = fs /\ ToExcept
\* shutil.move fallback: copy2(tmp, output) then unlink(tmp)
COpen == /\ Running("copen") /\ UNCHANGED <<cur, saved, named, synced, rmfail, emitted>>
         /\ \/ fs' = [fs EXCEPT ![Out(cur)] = [body |-> "empty", mode |-> IF fs[Out(cur)] = Absent THEN DefMode ELSE fs[Out(cur)].mode]]
               /\ Goto(After("copen")) /\ UNCHANGED <<nraise, plan, status>>
            \/ Raised("copen", "raise") /\ fs' = fs /\ ToExcept
OutBody(b) == [fs EXCEPT ![Out(cur)].body = b]
CData == /\ Running("cdata") /\ UNCHANGED <<cur, saved, named, synced, rmfail, emitted>>
         /\ \/ fs' = OutBody(fs[Tmp(cur)].body) /\ Goto(After("cdata")) /\ UNCHANGED <<nraise, plan, status>>
            \/ \E b \in {"empty", "partial"} : Raised("cdata", "raise-" \o b) /\ fs' = OutBody(b) /\ ToExcept
CStat == /\ Running("cstat") /\ UNCHANGED <<cur, saved, named, synced, rmfail, emitted>>
         /\ \/ fs' = [fs EXCEPT ![Out(cur)].mode = fs[Tmp(cur)].mode] /\ Goto(After("cstat")) /\ UNCHANGED <<nraise, plan, status>>
            \/ Raised("cstat", "raise") /\ fs' = fs /\ ToExcept
CUnlink == /\ Running("cunlink") /\ UNCHANGED <<cur, saved, named, synced, rmfail, emitted>>
           /\ \/ fs' = [fs EXCEPT ![Tmp(cur)] = Absent] /\ Goto(After("cunlink")) /\ UNCHANGED <<nraise, plan, status>>
              \/ Raised("cunlink", "raise") /\ fs' = fs /\ ToExcept
Remove == /\ Running("remove") /\ UNCHANGED <<cur, saved, named, synced, emitted>>
          /\ \/ fs' = [fs EXCEPT ![Tmp(cur)] = Absent] /\ rmfail' = rmfail /\ UNCHANGED <<nraise, plan>>
             \/ Raised("remove", "raise") /\ fs' = fs /\ rmfail' = TRUE
          /\ status' = "exc" /\ pc' = "returned"

\* process death before an operation takes effect, or in the middle of a data transfer
DieOps == {"stat", "open", "wrap", "write", "flush", "fsync", "close", "chmod", "rename",
           "copen", "cdata", "cstat", "cunlink", "remove"}
DiePlain == \E op \in DieOps : Die(op, "die") /\ fs' = fs
DieMidWrite == Die("write", "die-partial") /\ fs' = TmpBody("partial")
DieMidCopy  == Die("cdata", "die-partial") /\ fs' = OutBody("partial")

\* projection of a state to an observation
ObsOf == [suffix |-> suffix, outcome |-> status, remove_failed |-> rmfail, strays |-> 0,
          files |-> [i \in FilesIdx |-> [skip |-> i \in skip, omode |-> OMode(i), inp |-> fs[In(i)], out |-> fs[Out(i)],
                                        ntmp |-> IF fs[Tmp(i)] = Absent THEN 0 ELSE 1]]]
Emit == /\ status # "run" /\ ~emitted /\ emitted' = TRUE
        /\ UNCHANGED <<fs, cur, pc, saved, named, synced, nraise, plan, status, rmfail>>
        /\ PrintT(ToJson([plan |-> plan, obs |-> ObsOf, clause |-> ObsClause(ObsOf)]))

Next == /\ \/ Gate \/ FileDone \/ Stat \/ Open \/ Wrap \/ Write \/ Flush \/ Fsync \/ Close \/ Chmod \/ Rename
           \/ COpen \/ CData \/ CStat \/ CUnlink \/ Remove \/ DiePlain \/ DieMidWrite \/ DieMidCopy \/ Emit
        /\ UNCHANGED <<suffix, skip>>
Spec == Init /\ [][Next]_vars

--------------------------------------------------------------------------------
(* Algo => Contract *)
\* at every state (a crash may freeze any of them) the target is the complete original or the complete fixed
\* content, and with a suffix the original is untouched
AlwaysIntact == \A i \in FilesIdx : /\ TargetIntact(ObsOf, ObsOf.files[i]) /\ EncodingPreserved(ObsOf, ObsOf.files[i])
                                     /\ SuffixLeavesOriginal(ObsOf, ObsOf.files[i]) /\ SkipUntouched(ObsOf, ObsOf.files[i])
\* when the call has returned or the process has died, the whole contract holds
ContractAtEnd == status # "run" => ObsClause(ObsOf) = "ok"
\* the temp file replaces the target only when it is complete, synced and carries the original's mode
RenameOnlyDurable == Running("rename") => (fs[Tmp(cur)].body = "fixed" /\ synced /\ fs[Tmp(cur)].mode = OMode(cur))
\* the temp file lives in the target's directory and never under the target's name (names are disjoint by construction)
TypeOK == /\ suffix \in BOOLEAN /\ skip \subseteq FilesIdx /\ status \in {"run", "ok", "exc", "dead"} /\ cur \in FilesIdx /\ nraise \in 0..MaxRaise
================================================================================
