---------------------------- MODULE SessionTrace ----------------------------
(* Code -> spec validation for C32.  Two kinds of trace, one event vocabulary:

   kind = "history"   one python process that executed T.hist (symbols of Session!Sym) in order.
        Op(sym, result)   logged at the return of each operation; `result` is the interned id of the complete
                          result (violations as (code, line, pos, description), parse record, rendered
                          text, fixed string, exit code, escaped exception).  T.base[s] / T.base2[s] are the
                          ids of the results of operation s alone in two independent fresh processes.
   kind = "readonly"  one real `sqlfluff lint|parse|render ...` subprocess run under
                      `strace -f -e trace=%file,...` on files in a temp dir.
        Fs(op, role, kind)       one successful file-system call; role = "input" for a path under the
                                 input tree; kind = read | write-open | create | rename | unlink | chmod |
                                 truncate | utime
        Stat(op, before, after)  interned (content hash, mtime_ns, inode, mode, size) of one input file
                                 before and after the run (also closes every history batch)

   Contract clauses (first failing one is reported, then the validator moves to the next trace):
     FollowsHistory    the k-th Op event is the k-th symbol of the history          (recorder sanity)
     FreshRepeatable   Result(op, << >>) is the same in two fresh processes          ("or a new one")
     SameAsFresh       Result(op, history) = Result(op, << >>)                        (the contract)
     ReadOnly:<kind>   lint / parse / render made a mutating call on an input path
     InputUnchanged    content hash + mtime_ns + inode of an input file unchanged
     EveryOpRan        the session produced a result for every symbol of its history                *)
EXTENDS Session, IOUtils, TLCExt

Traces == JsonDeserialize(IOEnv.VF_TRACES)
VARIABLES tid, pc, k, rej, nacc, fin
tvars == <<tid, pc, k, rej, nacc, fin, hist, st, res, expo, emitted>>
Rest  == <<hist, st, res, expo, emitted>>

T  == Traces[tid]
Ev == T.events[pc + 1]

ReadOnlyOps == {"lint", "parse", "render"}
Mutating    == {"write-open", "create", "rename", "unlink", "chmod", "truncate", "utime"}

Clause ==
  CASE Ev.ev = "Op" ->
         IF ~(Ev.sym \in 1..NSym) THEN "KnownSymbol"
         ELSE IF ~(k + 1 <= Len(T.hist) /\ T.hist[k + 1] = Ev.sym) THEN "FollowsHistory"
         ELSE IF T.base[Ev.sym] # T.base2[Ev.sym] THEN "FreshRepeatable"
         ELSE IF Ev.result # T.base[Ev.sym] THEN "SameAsFresh"
         ELSE "ok"
    [] Ev.ev = "Fs" ->
         IF Ev.op \in ReadOnlyOps /\ Ev.role = "input" /\ Ev.kind \in Mutating THEN "ReadOnly:" \o Ev.kind
         ELSE "ok"
    [] Ev.ev = "Stat" -> IF Ev.before # Ev.after THEN "InputUnchanged" ELSE "ok"
    [] OTHER -> "UnknownEvent"

NextTrace == tid' = tid + 1 /\ pc' = 0 /\ k' = 0
TInit == /\ tid = 1 /\ pc = 0 /\ k = 0 /\ rej = <<>> /\ nacc = 0 /\ fin = FALSE
         /\ hist = <<>> /\ st = <<>> /\ res = <<>> /\ expo = <<>> /\ emitted = TRUE
Step == /\ tid <= Len(Traces) /\ pc < Len(T.events)
        /\ IF Clause = "ok"
           THEN /\ pc' = pc + 1 /\ k' = (IF Ev.ev = "Op" THEN k + 1 ELSE k)
                /\ UNCHANGED <<tid, rej, nacc, fin>>
           ELSE /\ rej' = Append(rej, [id |-> T.id, step |-> pc + 1, clause |-> Clause])
                /\ NextTrace /\ UNCHANGED <<nacc, fin>>
        /\ UNCHANGED Rest
EndTrace == /\ tid <= Len(Traces) /\ pc = Len(T.events)
            /\ IF T.kind = "history" /\ k # Len(T.hist)
               THEN rej' = Append(rej, [id |-> T.id, step |-> pc, clause |-> "EveryOpRan"]) /\ UNCHANGED nacc
               ELSE nacc' = nacc + 1 /\ UNCHANGED rej
            /\ NextTrace /\ UNCHANGED fin /\ UNCHANGED Rest
Finish == /\ tid = Len(Traces) + 1 /\ ~fin /\ fin' = TRUE
          /\ PrintT(ToJson([accepted |-> nacc, rejected |-> rej]))
          /\ UNCHANGED <<tid, pc, k, rej, nacc>> /\ UNCHANGED Rest
TraceNext == Step \/ EndTrace \/ Finish
TraceSpec == TInit /\ [][TraceNext]_tvars
=============================================================================
