----------------------------- MODULE ReportTrace -----------------------------
(* Validation of recorded behaviours of the real code against Report's contract (C33).  Used for both
   directions: S->C (every list enumerated by Report, run through the real
   LintedFile.deduplicate_in_source_space on real SQLBaseError / SQLLintError objects) and C->S (real
   lints of templated files with loops and several variants; the call is recorded at the function
   boundary, and the violation list of the returned LintedFile is recorded as `Report`).

   Events:  Dedupe  inp, out   rows <<code, fix id, line, pos, description id, var | src>>;
                               for `out` the last field is the input index of the returned object
            Report  out        the LintedFile's violation list, same rows (last field unused)
   The fix id / description id are interned by the recorder from the objects' own attributes
   (description text; raws of the fix edits and their source fixes), not from source_signature().   *)
EXTENDS Report, IOUtils, TLCExt

Traces == JsonDeserialize(IOEnv.VF_TRACES)
VARIABLES tid, pc, rej, nacc, fin, last
tvars == <<tid, pc, rej, nacc, fin, last, input>>

T  == Traces[tid]
Ev == T.events[pc + 1]
V(row)   == [code |-> row[1], fix |-> row[2], line |-> row[3], pos |-> row[4], desc |-> row[5], src |-> row[6]]
Rows(rs) == [i \in 1..Len(rs) |-> V(rs[i])]
SigSeq(s) == [i \in 1..Len(s) |-> Sig(s[i])]
NoLast == [has |-> FALSE, sigs |-> <<>>]

Clause ==
  CASE Ev.ev = "Dedupe" ->
         LET inp == Rows(Ev.inp)  out == Rows(Ev.out) IN
         IF ~NothingInvented(inp, out) THEN "NothingInvented"
         ELSE IF ~NoDuplicateSignature(out) THEN "NoDuplicateSignature"
         ELSE IF ~SourceOrder(out) THEN "SourceOrder"
         ELSE IF ~NothingLost(inp, out) THEN "NothingLost"
         ELSE "ok"
    [] Ev.ev = "Report" ->
         LET out == Rows(Ev.out) IN
         IF ~NoDuplicateSignature(out) THEN "NoDuplicateSignature"
         ELSE IF ~SourceOrder(out) THEN "SourceOrder"
         ELSE IF last.has /\ SigSeq(out) # last.sigs THEN "ReportIsDedupeOutput"
         ELSE "ok"
    [] OTHER -> "UnknownEvent"

NextTrace == tid' = tid + 1 /\ pc' = 0 /\ last' = NoLast
TInit == /\ tid = 1 /\ pc = 0 /\ rej = <<>> /\ nacc = 0 /\ fin = FALSE /\ last = NoLast
         /\ input = <<>>
Step == /\ tid <= Len(Traces) /\ pc < Len(T.events)
        /\ IF Clause = "ok"
           THEN /\ pc' = pc + 1
                /\ last' = (IF Ev.ev = "Dedupe" THEN [has |-> TRUE, sigs |-> SigSeq(Rows(Ev.out))] ELSE last)
                /\ UNCHANGED <<tid, rej, nacc, fin>>
           ELSE /\ rej' = Append(rej, [id |-> T.id, step |-> pc + 1, clause |-> Clause])
                /\ NextTrace /\ UNCHANGED <<nacc, fin>>
        /\ UNCHANGED input
EndTrace == /\ tid <= Len(Traces) /\ pc = Len(T.events)
            /\ nacc' = nacc + 1 /\ NextTrace /\ UNCHANGED <<rej, fin, input>>
Finish == /\ tid = Len(Traces) + 1 /\ ~fin /\ fin' = TRUE
          /\ PrintT(ToJson([accepted |-> nacc, rejected |-> rej]))
          /\ UNCHANGED <<tid, pc, rej, nacc, last, input>>
TraceNext == Step \/ EndTrace \/ Finish
TraceSpec == TInit /\ [][TraceNext]_tvars
=============================================================================
