----------------------------- MODULE SemContract -----------------------------
(* C16 — fixes preserve query results (the step-wise contract).

   Observation: `rows` = what the current text of the query returns when executed — a tuple with one
   entry per data set, each the interned id of the result multiset (rows with all their values, hence
   also the column count; column names are not part of it) or ERR when the text does not execute.
   The fix loop (Linter.lint_fix_parsed) adopts one batch of fixes of one rule at a time:

     Start(r)            the original query executes and returns r          (precondition of the property)
     ApplyFixes(rule, r) the batch of `rule` was adopted and the new text returns r;
                         allowed iff r = rows, or rule is documented to change behaviour
     Finish(r, limit)    the text handed back to the user returns r; it is the last adopted version, or
                         the original when the loop limit was hit and everything was discarded

   The constraint is per adopted batch, so a violation names the rule.  BehaviourChanging are the two
   documented exceptions: ST06 (select-column reordering) and CV05 (NULL-comparison rewriting).
   The small model below only checks that the step constraint implies the property as stated:
   if no behaviour-changing rule ran, the final text returns what the original returned.          *)
EXTENDS Naturals, Integers, Sequences, FiniteSets, TLC

CONSTANTS Rules,        \* rule codes that may fix (model run: a small set incl. the two exceptions)
          RowIds        \* result ids of the model run

BehaviourChanging == {"ST06", "CV05"}
ERR == 0 - 1

VARIABLES rows,      \* current observation
          rows0,     \* observation of the original query
          excused,   \* behaviour-changing rules adopted so far
          phase      \* "new" | "fixing" | "done"
cvars == <<rows, rows0, excused, phase>>

Executes(r)              == \A i \in DOMAIN r : r[i] # ERR
StepAllowed(rule, r, r2) == r2 = r \/ rule \in BehaviourChanging
FinishAllowed(r, r0, r2, limit) == r2 = r \/ (limit /\ r2 = r0)

CInit == rows = <<>> /\ rows0 = <<>> /\ excused = {} /\ phase = "new"
Start(r) == /\ phase = "new" /\ Executes(r)
            /\ rows' = r /\ rows0' = r /\ phase' = "fixing" /\ UNCHANGED excused
ApplyFixes(rule, r) ==
            /\ phase = "fixing" /\ StepAllowed(rule, rows, r)
            /\ rows' = r /\ UNCHANGED <<rows0, phase>>
            /\ excused' = IF rule \in BehaviourChanging THEN excused \cup {rule} ELSE excused
Finish(r, limit) ==
            /\ phase = "fixing" /\ FinishAllowed(rows, rows0, r, limit)
            /\ rows' = r /\ phase' = "done" /\ UNCHANGED <<rows0, excused>>

ModelRows == {<<a>> : a \in RowIds \cup {ERR}}
CNext == \/ \E r \in ModelRows : Start(r)
         \/ \E rule \in Rules, r \in ModelRows : ApplyFixes(rule, r)
         \/ \E r \in ModelRows, l \in BOOLEAN : Finish(r, l)
CSpec == CInit /\ [][CNext]_cvars

\* the property as stated in C16
ResultsPreserved == (phase # "new" /\ excused = {}) => (rows = rows0 /\ Executes(rows))
===============================================================================
