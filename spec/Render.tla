-------------------------------- MODULE Render --------------------------------
(* C08 / C09 — what the three templaters may render.

   Contract layer only (the regex rewrite of the python templater, the tracer of the jinja templater
   and the placeholder loop are NOT transcribed: the contracts below are written from the property
   statements and from the Python language reference, and the code is bound to them by replay).

   Part "py"  (C09)  Python format strings as a one-character-per-step state machine (PyStep): it
                     decides validity and the rendering skeleton (literal runs with {{ -> { and
                     }} -> }, fields {name(.name)*(!c)?(:spec)?}), names are looked up in the context,
                     dotted names in the `sqlfluff` mapping (DefinedName).  Follows CPython's
                     MarkupIterator_next / parse_field (Objects/stringlib/unicode_format.h), which is a
                     single left-to-right pass.  TLC enumerates every string <= MaxLen over PyAlphabet
                     (states = strings, one PyStep per transition) and emits each with the verdict.
   Part "ph"  (C09)  placeholder styles: MatchAt(style, t, i) says what a parameter of the style is,
                     PhSegs cuts the source into literal / parameter segments (leftmost, not
                     overlapping) and gives what each renders to: the configured value of a defined
                     name, the name itself otherwise, the quotes kept for colon_optional_quotes, a
                     1-based counter for the styles without names.  Every string <= PhLen(style) over
                     PhAlphabet(style) is enumerated and emitted.
   Part "jj"  (C08)  balanced Jinja template skeletons (sequences of fragments) and the FastPath
                     contract: the fast path may only be taken for a source without any of {{ {% {#
                     and without macro/library configuration, and then rendered = source; in every
                     case rendered = the reference Jinja render (TemplateClause, used by RenderTrace).
   Part "trace"      nothing is enumerated; RenderTrace.tla EXTENDS this module.                       *)
EXTENDS Naturals, Integers, Sequences, FiniteSets, TLC, Json, FiniteSetsExt, SequencesExt

CONSTANTS Part,         \* "py" | "ph" | "jj" | "trace"
          MaxLen,       \* py: longest string; ph: added to each style's base length; jj: most fragments
          PyAlphabet,   \* subset of PyClasses
          Styles,       \* ph: set of style names enumerated
          JjAlphabet    \* jj: set of fragment kinds

VARIABLES s,            \* the string / fragment sequence scanned so far
          m             \* the machine state after scanning s
vars == <<s, m>>


(* ============================== C09, python format strings ============================== *)
PyClasses == {"LB", "RB", "DOT", "COL", "BANG", "N", "O"}
(* A character has a class c (what the grammar sees) and a payload x (what is copied to the output).
   In the enumeration payload = class; in trace validation the payload is the code point.          *)
SName == IF Part = "trace" THEN 115 ELSE "N"      \* the payload of the letter 's' (the str conversion / type)

LitSeg(t) == [k |-> "lit", t |-> t, conv |-> <<>>, spec |-> <<>>, sc |-> FALSE]
AddLit(segs, x) == IF Len(segs) > 0 /\ Last(segs).k = "lit"
                   THEN [segs EXCEPT ![Len(segs)].t = Append(@, x)]
                   ELSE Append(segs, LitSeg(<<x>>))

PyInit == [mode |-> "LIT", segs |-> <<>>, name |-> <<>>, conv |-> <<>>, spec |-> <<>>, sc |-> FALSE,
           depth |-> 0, err |-> "none"]
Fail(mm, e)  == [mm EXCEPT !.mode = "ERR", !.err = e, !.name = <<>>, !.conv = <<>>, !.spec = <<>>, !.sc = FALSE, !.depth = 0]
CloseField(mm) ==
   [mm EXCEPT !.mode = "LIT",
              !.segs = Append(@, [k |-> "fld", t |-> mm.name, conv |-> mm.conv, spec |-> mm.spec, sc |-> mm.sc]),
              !.name = <<>>, !.conv = <<>>, !.spec = <<>>, !.sc = FALSE, !.depth = 0]

\* inside `{ ... ` before any `!` or `:`  (parse_field, first loop)
FieldChar(mm, c, x) ==
   CASE c = "LB"   -> Fail(mm, "brace-in-field-name")
     [] c = "RB"   -> CloseField(mm)
     [] c = "COL"  -> [mm EXCEPT !.mode = "SPEC", !.depth = 1, !.sc = TRUE]
     [] c = "BANG" -> [mm EXCEPT !.mode = "CONV0"]
     [] OTHER      -> [mm EXCEPT !.name = Append(@, x)]

PyStep(mm, c, x) ==
   CASE mm.mode = "LIT"   -> (CASE c = "LB" -> [mm EXCEPT !.mode = "OPEN"]
                                [] c = "RB" -> [mm EXCEPT !.mode = "CLOSE"]
                                [] OTHER    -> [mm EXCEPT !.segs = AddLit(@, x)])
     [] mm.mode = "OPEN"  -> IF c = "LB" THEN [mm EXCEPT !.mode = "LIT", !.segs = AddLit(@, x)]       \* {{ -> {
                             ELSE FieldChar([mm EXCEPT !.mode = "FNAME"], c, x)
     [] mm.mode = "CLOSE" -> IF c = "RB" THEN [mm EXCEPT !.mode = "LIT", !.segs = AddLit(@, x)]       \* }} -> }
                             ELSE Fail(mm, "single-close")
     [] mm.mode = "FNAME" -> FieldChar(mm, c, x)
     [] mm.mode = "CONV0" -> [mm EXCEPT !.mode = "CONV1", !.conv = <<x>>]        \* any character at all
     [] mm.mode = "CONV1" -> (CASE c = "RB"  -> CloseField(mm)
                                [] c = "COL" -> [mm EXCEPT !.mode = "SPEC", !.depth = 1, !.sc = TRUE]
                                [] OTHER     -> Fail(mm, "junk-after-conversion"))
     [] mm.mode = "SPEC"  -> (CASE c = "LB" -> [mm EXCEPT !.depth = @ + 1, !.spec = Append(@, x)]
                                [] c = "RB" -> IF mm.depth = 1 THEN CloseField(mm)
                                               ELSE [mm EXCEPT !.depth = @ - 1, !.spec = Append(@, x)]
                                [] OTHER    -> [mm EXCEPT !.spec = Append(@, x)])
     [] OTHER             -> mm                                                   \* ERR is absorbing

\* what the end of the string means in each mode
SyntaxErr(mm) == CASE mm.mode = "LIT"   -> "none"
                   [] mm.mode = "ERR"   -> mm.err
                   [] mm.mode = "OPEN"  -> "single-open"
                   [] mm.mode = "CLOSE" -> "single-close"
                   [] mm.mode = "FNAME" -> "unclosed-field"
                   [] mm.mode = "SPEC"  -> "unclosed-spec"
                   [] OTHER             -> "unclosed-conversion"

(* Lookup.  The replay context defines every name made of name characters, and in context['sqlfluff']
   every dotted name  name(.name)+ ; nothing else (no positional arguments, no names with other
   characters, no empty attribute).                                                                 *)
NameCh(x) == x = "N"
DotCh(x)  == x = "DOT"
DefinedName(n) == /\ Len(n) > 0
                  /\ \A i \in 1..Len(n) : NameCh(n[i]) \/ DotCh(n[i])
                  /\ NameCh(n[1]) /\ NameCh(n[Len(n)])
                  /\ \A i \in 1..(Len(n) - 1) : ~(DotCh(n[i]) /\ DotCh(n[i + 1]))
Dotted(n) == \E i \in 1..Len(n) : DotCh(n[i])
(* Library assumption (checked by the harness against the builtin format()): for the str values of the
   replay context, conversion is defined exactly for !s (also r, a: not in the alphabet) and the format
   spec exactly for "" and "s", both leaving the value unchanged; a spec with nested braces expands
   to something else and is rejected.                                                               *)
FieldErr(f) == IF f.t = <<>> THEN "empty-field-name"
               ELSE IF ~DefinedName(f.t) THEN "undefined-name"
               ELSE IF f.conv # <<>> /\ f.conv # <<SName>> THEN "bad-conversion"
               ELSE IF f.spec # <<>> /\ f.spec # <<SName>> THEN "bad-format-spec"
               ELSE "none"
Fields(mm)  == SelectSeq(mm.segs, LAMBDA g : g.k = "fld")
PyErr(mm)   == IF SyntaxErr(mm) # "none" THEN SyntaxErr(mm)
               ELSE LET bad == SelectSeq(Fields(mm), LAMBDA g : FieldErr(g) # "none")
                    IN IF bad = <<>> THEN "none" ELSE FieldErr(bad[1])
PyValid(mm) == PyErr(mm) = "none"

\* shape attributes of a string (used only to name root-cause classes of violations)
HasEsc(mm)   == \E i \in 1..Len(mm.segs) : mm.segs[i].k = "lit" /\ \E j \in 1..Len(mm.segs[i].t) : mm.segs[i].t[j] \in {"LB", "RB"}
HasDotLit(mm) == \E i \in 1..Len(mm.segs) : mm.segs[i].k = "lit" /\ \E j \in 1..Len(mm.segs[i].t) : mm.segs[i].t[j] = "DOT"
PyShape(mm) == LET F(P(_)) == \E i \in 1..Len(mm.segs) : mm.segs[i].k = "fld" /\ P(mm.segs[i]) IN
   (IF HasEsc(mm) THEN {"esc"} ELSE {}) \cup (IF HasDotLit(mm) THEN {"dotlit"} ELSE {})
   \cup (IF F(LAMBDA g : Dotted(g.t)) THEN {"dotted"} ELSE {})
   \cup (IF F(LAMBDA g : Dotted(g.t) /\ g.conv # <<>>) THEN {"dotconv"} ELSE {})
   \cup (IF F(LAMBDA g : g.sc /\ g.spec = <<>>) THEN {"emptyspec"} ELSE {})
   \cup (IF F(LAMBDA g : g.spec # <<>>) THEN {"spec"} ELSE {})
   \cup (IF F(LAMBDA g : g.conv # <<>>) THEN {"conv"} ELSE {})

\* segs are emitted for valid strings only (the replay needs them to build the expected text)
PyRecord(str, mm) == [s |-> str, valid |-> PyValid(mm), err |-> PyErr(mm),
                      segs |-> IF PyValid(mm) THEN mm.segs ELSE <<>>,
                      shape |-> IF SyntaxErr(mm) = "none" THEN SetToSeq(PyShape(mm)) ELSE <<>>]

PyExtend == /\ Part = "py" /\ Len(s) < MaxLen
            /\ \E c \in PyAlphabet :
                  /\ s' = Append(s, c)
                  /\ m' = PyStep(m, c, c)
                  /\ PrintT(ToJson(PyRecord(s', m')))

\* machine sanity (INVARIANTs of the "py" run)
PyTypeOK == /\ m.mode \in {"LIT", "OPEN", "CLOSE", "FNAME", "CONV0", "CONV1", "SPEC", "ERR"}
            /\ (m.mode = "SPEC") = (m.depth > 0)
            /\ (m.mode = "ERR") = (m.err # "none")
            /\ m.mode \in {"LIT", "OPEN", "CLOSE", "ERR"} => m.name = <<>> /\ m.conv = <<>> /\ m.spec = <<>>
\* nothing is lost: every scanned character is in a segment, pending in the open field, or one of the
\* structural characters { } ! : (escapes count two source characters for one literal character)
SegSrcLen(g) == IF g.k = "lit" THEN Len(g.t) + Cardinality({j \in 1..Len(g.t) : g.t[j] \in {"LB", "RB"}})
                ELSE 2 + Len(g.t) + (IF g.conv # <<>> THEN 2 ELSE 0) + (IF g.sc THEN 1 + Len(g.spec) ELSE 0)
RECURSIVE SumSegs(_, _)
SumSegs(q, i) == IF i = 0 THEN 0 ELSE SegSrcLen(q[i]) + SumSegs(q, i - 1)
Pending(mm) == CASE mm.mode \in {"OPEN", "CLOSE"} -> 1
                 [] mm.mode = "FNAME" -> 1 + Len(mm.name)
                 [] mm.mode = "CONV0" -> 2 + Len(mm.name)
                 [] mm.mode = "CONV1" -> 3 + Len(mm.name)
                 [] mm.mode = "SPEC"  -> 2 + Len(mm.name) + (IF mm.conv # <<>> THEN 2 ELSE 0) + Len(mm.spec)
                 [] OTHER -> 0
PyLossless == m.mode # "ERR" => SumSegs(m.segs, Len(m.segs)) + Pending(m) = Len(s)
\* a string that is valid stays scannable: validity is decided by the final mode only
PyValidIsLit == PyValid(m) => m.mode = "LIT"

(* ============================== C09, placeholder styles ============================== *)
AllStyles == {"colon", "colon_nospaces", "colon_optional_quotes", "numeric_colon", "pyformat", "dollar",
              "dollar_surround", "flyway_var", "question_mark", "numeric_dollar", "percent", "ampersand"}
Word(c)    == c \in {"W", "S", "D", "US"}             \* \w : letters (W, and S = the letter s), digits, underscore
Digit(c)   == c = "D"
WordDash(c) == Word(c) \/ c = "DASH"
WordColon(c) == Word(c) \/ c = "COLON"
Blocked(c) == c = "COLON" \/ Word(c) \/ c = "BS"      \* a parameter may not follow  :  \w  or a backslash
At(t, i)   == IF i >= 1 /\ i <= Len(t) THEN t[i] ELSE "END"
Free(t, i) == ~Blocked(At(t, i - 1))
\* length of the longest run of P-characters starting at i (greedy \w+ and the like)
Run(t, i, P(_)) == IF i > Len(t) THEN 0
                   ELSE Min({j \in i..(Len(t) + 1) : j = Len(t) + 1 \/ ~P(t[j])}) - i
NoM == [len |-> 0, a |-> 0, b |-> 0, q |-> ""]
Mt(len, a, b, q) == [len |-> len, a |-> a, b |-> b, q |-> q]      \* match of `len` characters, name = t[a..b]

\* opener, optional {, name, optional }      e.g. $name  ${name}   (and, as the styles are defined, $name} )
Braced(t, i, op, P(_), pre) ==
   IF At(t, i) # op \/ ~pre THEN NoM
   ELSE LET b == IF At(t, i + 1) = "LBR" THEN 1 ELSE 0
            r == Run(t, i + 1 + b, P)
        IN IF r = 0 THEN NoM
           ELSE Mt(1 + b + r + (IF At(t, i + 1 + b + r) = "RBR" THEN 1 ELSE 0), i + 1 + b, i + b + r, "")
Colon(t, i, P(_), pre) ==
   IF At(t, i) # "COLON" \/ ~pre THEN NoM
   ELSE LET r == Run(t, i + 1, P) IN IF r = 0 THEN NoM ELSE Mt(1 + r, i + 1, i + r, "")

MatchAt(st, t, i) ==
   CASE st = "colon"          -> Colon(t, i, Word, Free(t, i))
     [] st = "colon_nospaces" -> Colon(t, i, Word, At(t, i - 1) # "COLON")
     [] st = "numeric_colon"  -> Colon(t, i, Digit, Free(t, i))
     [] st = "colon_optional_quotes" ->
          IF At(t, i) # "COLON" \/ At(t, i - 1) = "COLON" THEN NoM
          ELSE IF At(t, i + 1) \in {"SQ", "DQ"}
               THEN LET r == Run(t, i + 2, Word)
                    IN IF r > 0 /\ At(t, i + 2 + r) = At(t, i + 1) THEN Mt(3 + r, i + 2, i + 1 + r, At(t, i + 1)) ELSE NoM
               ELSE LET r == Run(t, i + 1, Word) IN IF r = 0 THEN NoM ELSE Mt(1 + r, i + 1, i + r, "")
     [] st = "pyformat" ->
          IF At(t, i) = "PCT" /\ At(t, i + 1) = "LPAR" /\ Free(t, i)
          THEN LET r == Run(t, i + 2, Word)
               IN IF r > 0 /\ At(t, i + 2 + r) = "RPAR" /\ At(t, i + 3 + r) = "S" THEN Mt(r + 4, i + 2, i + 1 + r, "") ELSE NoM
          ELSE NoM
     [] st = "dollar"         -> Braced(t, i, "DOLLAR", Word, Free(t, i))
     [] st = "numeric_dollar" -> Braced(t, i, "DOLLAR", Digit, Free(t, i))
     [] st = "ampersand"      -> Braced(t, i, "AMP", Word, At(t, i - 1) # "AMP")
     [] st = "dollar_surround" ->
          IF At(t, i) = "DOLLAR" /\ Free(t, i)
          THEN LET r == Run(t, i + 1, WordDash)
               IN IF r > 0 /\ At(t, i + 1 + r) = "DOLLAR" THEN Mt(r + 2, i + 1, i + r, "") ELSE NoM
          ELSE NoM
     [] st = "flyway_var" ->       \* ${word then at least one more of word or colon}
          IF At(t, i) = "DOLLAR" /\ At(t, i + 1) = "LBR"
          THEN LET r == Run(t, i + 2, WordColon)
               IN IF r >= 2 /\ Word(t[i + 2]) /\ At(t, i + 2 + r) = "RBR" THEN Mt(r + 3, i + 2, i + 1 + r, "") ELSE NoM
          ELSE NoM
     [] st = "question_mark" -> IF At(t, i) = "QM" /\ Free(t, i) THEN Mt(1, 0, 0, "") ELSE NoM
     [] st = "percent"       -> IF At(t, i) = "PCT" /\ At(t, i + 1) = "S" /\ Free(t, i) THEN Mt(2, 0, 0, "") ELSE NoM
Unnamed(st) == st \in {"question_mark", "percent"}

\* names that have a configured value in the replay context (concretised W->a, S->s, D->1)
DefinedNames == {<<"W">>, <<"S">>, <<"D">>, <<"W", "W">>, <<"W", "COLON", "W">>, <<"W", "DASH", "W">>}
\* output tokens: <<class>> = that character; <<"=", name..>> = configured value of name; <<"~", "k">> = the text k
Chars(t, a, b) == [j \in 1..(b - a + 1) |-> <<t[a + j - 1]>>]
ParamOut(st, t, mt, k) ==
   LET core == IF Unnamed(st) THEN (IF k = 1 THEN << <<"=", "D">> >> ELSE << <<"~", ToString(k)>> >>)
               ELSE LET n == SubSeq(t, mt.a, mt.b)
                    IN IF n \in DefinedNames THEN << <<"=">> \o n >> ELSE Chars(t, mt.a, mt.b)
   IN IF mt.q = "" THEN core ELSE << <<mt.q>> >> \o core \o << <<mt.q>> >>

Seg(ty, a, b, out) == [t |-> ty, a |-> a, b |-> b, out |-> out]      \* source span [a, b) 0-based
RECURSIVE PhScan(_, _, _, _, _, _)
PhScan(st, t, i, k, lit, segs) ==      \* lit = 1-based start of the pending literal run
   LET flush == IF lit < i THEN Append(segs, Seg("literal", lit - 1, i - 1, Chars(t, lit, i - 1))) ELSE segs IN
   IF i > Len(t) THEN flush
   ELSE LET mt == MatchAt(st, t, i) IN
        IF mt.len = 0 THEN PhScan(st, t, i + 1, k, lit, segs)
        ELSE PhScan(st, t, i + mt.len, IF Unnamed(st) THEN k + 1 ELSE k, i + mt.len,
                    Append(flush, Seg("templated", i - 1, i - 1 + mt.len, ParamOut(st, t, mt, k))))
PhSegs(st, t) == PhScan(st, t, 1, 1, 1, <<>>)

PhAlphabet(st) ==
   CASE st = "colon"          -> {"COLON", "W", "D", "BS", "O"}
     [] st = "colon_nospaces" -> {"COLON", "W", "BS", "O"}
     [] st = "colon_optional_quotes" -> {"COLON", "SQ", "DQ", "W", "O"}
     [] st = "numeric_colon"  -> {"COLON", "D", "W", "BS", "O"}
     [] st = "pyformat"       -> {"PCT", "LPAR", "RPAR", "S", "COLON"}
     [] st = "dollar"         -> {"DOLLAR", "LBR", "RBR", "W", "BS", "O"}
     [] st = "dollar_surround" -> {"DOLLAR", "W", "DASH", "BS", "O"}
     [] st = "flyway_var"     -> {"DOLLAR", "LBR", "RBR", "W", "COLON"}
     [] st = "question_mark"  -> {"QM", "W", "COLON", "BS", "O"}
     [] st = "numeric_dollar" -> {"DOLLAR", "LBR", "RBR", "D", "W", "O"}
     [] st = "percent"        -> {"PCT", "S", "W", "COLON", "BS", "O"}
     [] st = "ampersand"      -> {"AMP", "LBR", "RBR", "W", "O"}
\* the styles whose shortest parameter is 4-6 characters long get one more character
PhLen(st) == MaxLen + (IF st \in {"pyformat", "flyway_var", "colon_optional_quotes"} THEN 1 ELSE 0)

PhRecord(st, t) == [style |-> st, s |-> t, segs |-> PhSegs(st, t)]
PhExtend == /\ Part = "ph" /\ Len(s) < PhLen(m.style)
            /\ \E c \in PhAlphabet(m.style) :
                  /\ s' = Append(s, c) /\ m' = m
                  /\ PrintT(ToJson(PhRecord(m.style, s')))
\* INVARIANTs of the "ph" run: segments tile the source, literals copy it, parameters are never empty
PhTiles == LET g == PhSegs(m.style, s) IN
           /\ (g = <<>>) = (s = <<>>)
           /\ g # <<>> => g[1].a = 0 /\ Last(g).b = Len(s)
           /\ \A i \in 1..(Len(g) - 1) : g[i].b = g[i + 1].a /\ ~(g[i].t = "literal" /\ g[i + 1].t = "literal")
           /\ \A i \in 1..Len(g) : g[i].a < g[i].b
           /\ \A i \in 1..Len(g) : g[i].t = "literal" => g[i].out = Chars(s, g[i].a + 1, g[i].b)

(* ============================== C08, Jinja skeletons and the fast path ============================== *)
JjKinds == {"LIT", "NL", "HASH", "BRC", "DLR", "VT", "VE", "VW", "IFT", "IFF", "ELIF", "ELSE", "ENDIF", "FOR", "ENDFOR",
            "SET", "SETB", "CMT", "WIF", "WENDIF", "WV", "RAW", "MAC", "DO"}
\* BRC / DLR are SQL text with ordinary braces ('{"k": 1}', ${x}): a brace that is not followed by { % # is no marker
Marker(k) == k \notin {"LIT", "NL", "HASH", "BRC", "DLR"}      \* the fragment's text contains {{ or {% or {#
Top(st)   == IF st = <<>> THEN "none" ELSE Last(st)
Pop(st)   == SubSeq(st, 1, Len(st) - 1)
JjEnabled(st, k) == CASE k \in {"ELIF", "ELSE"}      -> Top(st) = "if"
                      [] k \in {"ENDIF", "WENDIF"}   -> Top(st) \in {"if", "else"}
                      [] k = "ENDFOR"                -> Top(st) = "for"
                      [] OTHER                       -> TRUE
JjStack(st, k) == CASE k \in {"IFT", "IFF", "WIF"}           -> Append(st, "if")
                    [] k = "FOR"                             -> Append(st, "for")
                    [] k = "ELSE"                            -> Append(Pop(st), "else")
                    [] k \in {"ENDIF", "WENDIF", "ENDFOR"}   -> Pop(st)
                    [] OTHER                                 -> st
HasMarkers(fr) == \E i \in 1..Len(fr) : Marker(fr[i])
JjExtend == /\ Part = "jj" /\ Len(s) < MaxLen
            /\ \E k \in JjAlphabet :
                  /\ JjEnabled(m.stack, k)
                  /\ s' = Append(s, k)
                  /\ m' = [stack |-> JjStack(m.stack, k)]
                  /\ Len(m'.stack) <= MaxLen - Len(s')            \* can still be closed within the bound
                  /\ IF m'.stack = <<>> THEN PrintT(ToJson([frags |-> s', markers |-> HasMarkers(s')])) ELSE TRUE
JjBalanced == Len(m.stack) <= MaxLen - Len(s)

(* The C08 contract on one Template event (fields: src, out, ref = interned text ids, 0 = none;
   fast, markers, libcfg, tmp, undef = booleans):
     FastPath  enabled iff  ~markers /\ ~libcfg,  effect  out = src
     Template  always enabled,                    effect  out = ref
   undefined variables (the reference evaluated a name that is not in the context): only the presence
   of a templater violation is required — or, weakest reading, that the rendering is Jinja's anyway. *)
FastPathEnabled(ev) == ~ev.markers /\ ~ev.libcfg
TemplateClause(ev) ==
   IF ev.fast /\ ~FastPathEnabled(ev) THEN "FastPathOnlyWhenMarkerFree"
   ELSE IF ev.fast /\ ev.out # ev.src THEN "FastPathRendersSource"
   ELSE IF ev.undef THEN (IF ev.tmp \/ (ev.ref # 0 /\ ev.out = ev.ref) THEN "ok" ELSE "UndefinedGivesTemplaterError")
   ELSE IF ev.ref = 0 THEN (IF ev.tmp \/ ev.out = 0 THEN "ok" ELSE "ReferenceFailsButRendered")
   ELSE IF ev.out # ev.ref THEN "RenderedEqualsReference"
   ELSE "ok"

(* ============================== enumeration ============================== *)
Init == CASE Part = "py" -> s = <<>> /\ m = PyInit
          [] Part = "ph" -> s = <<>> /\ m \in [style : Styles]
          [] Part = "jj" -> s = <<>> /\ m = [stack |-> <<>>]
          [] OTHER       -> s = <<>> /\ m = [stack |-> <<>>]
Next == PyExtend \/ PhExtend \/ JjExtend
Spec == Init /\ [][Next]_vars
===============================================================================
