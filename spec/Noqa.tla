--------------------------------- MODULE Noqa ---------------------------------
(* C20 — noqa directives suppress exactly the specified violations.

   Contract layer : Hidden(v), MustUsed(d), MayUsed(d)      (the property statement)
   Algo layer     : IgnoreMask.ignore_masked_violations as written in core/rules/noqa.py —
                    plain directives applied one after the other to the shrinking violation list,
                    then range directives per violation with the enable/disable scan that also marks
                    `used` (AlgoKept, AlgoUsed).
   TLC checks Algo => Contract for every directive list / violation set in the scope and emits each
   case, with the contract's verdict, for replay into the real IgnoreMask.

   Reading of the ambiguous clause "unused-noqa warnings are emitted exactly for directives that hid
   nothing": a plain or disable directive that covers no violation at all must be reported unused;
   one that is the only directive hiding some violation must be reported used; where several
   directives would each have hidden the same violation, either may carry the `used` mark; enable
   directives hide nothing by nature and their mark is left unconstrained.                        *)
EXTENDS Naturals, Integers, Sequences, FiniteSets, TLC, Json, FiniteSetsExt, SequencesExt

CONSTANTS NLines,      \* source lines 1..NLines
          MaxDirs,     \* directives per file
          MaxViols     \* violations per file

Lines  == 1..NLines
Codes  == {"A", "B", "PRS"}                 \* two lint rules and the parser's own code
Kinds  == {"plain", "disable", "enable"}
\* rules = {} encodes "no rule list" (noqa / noqa: disable=all): covers everything
RuleSets == {{}, {"A"}, {"B"}, {"A", "B"}, {"PRS"}, {"A", "PRS"}, {"B", "PRS"}}
Dir    == [line : Lines, kind : Kinds, rules : RuleSets]
Viol   == [line : Lines, code : Codes]

VARIABLES dirs, viols, done
vars == <<dirs, viols, done>>

Covers(d, v) == d.rules = {} \/ v.code \in d.rules
DI == 1..Len(dirs)

---------------------------------------------------------------------------------
(* Contract *)
PlainMatch(i, v) == dirs[i].kind = "plain" /\ dirs[i].line = v.line /\ Covers(dirs[i], v)
PlainHidden(v)   == \E i \in DI : PlainMatch(i, v)
\* range directives that cover v's rule and sit at or before v's line; "most recent" = last in file order
RangeIdx(v)      == {i \in DI : dirs[i].kind # "plain" /\ dirs[i].line <= v.line /\ Covers(dirs[i], v)}
Deciding(v)      == IF RangeIdx(v) = {} THEN 0 ELSE Max(RangeIdx(v))
RangeHidden(v)   == Deciding(v) # 0 /\ dirs[Deciding(v)].kind = "disable"
Hidden(v)        == PlainHidden(v) \/ RangeHidden(v)

MayUsed(i)  == CASE dirs[i].kind = "plain"   -> \E v \in viols : PlainMatch(i, v)
                 [] dirs[i].kind = "disable" -> \E v \in viols : RangeHidden(v) /\ Deciding(v) = i
                 [] OTHER -> TRUE
MustUsed(i) == CASE dirs[i].kind = "plain"   -> \E v \in viols : PlainMatch(i, v) /\ \A j \in DI \ {i} : ~PlainMatch(j, v)
                 [] dirs[i].kind = "disable" -> \E v \in viols : ~PlainHidden(v) /\ RangeHidden(v) /\ Deciding(v) = i
                 [] OTHER -> FALSE

---------------------------------------------------------------------------------
(* Algo: noqa.py, step by step *)
\* 1. _ignore_masked_violations_single_line: for each plain directive in list order, drop what it matches
RECURSIVE PlainPass(_, _, _)
PlainPass(i, vs, used) ==
   IF i > Len(dirs) THEN <<vs, used>>
   ELSE IF dirs[i].kind # "plain" THEN PlainPass(i + 1, vs, used)
   ELSE LET m == {v \in vs : PlainMatch(i, v)}
        IN IF m # {} THEN PlainPass(i + 1, vs \ m, used \cup {i}) ELSE PlainPass(i + 1, vs, used)

\* 2. _should_ignore_violation_line_range over the directives covering v, sorted by line (stable)
RangeFor(v) == SelectSeq([i \in DI |-> i], LAMBDA i : dirs[i].kind # "plain" /\ Covers(dirs[i], v))
\* scan state: <<ignore, last, used>>
RECURSIVE Scan(_, _, _, _, _, _)
Scan(seq, k, ln, ignore, last, used) ==
   IF k > Len(seq) THEN <<ignore, last, used>>
   ELSE LET i == seq[k] IN
        IF dirs[i].line > ln
        THEN <<ignore, last, IF dirs[i].kind = "enable" THEN used \cup {i} ELSE used>>
        ELSE IF dirs[i].kind = "enable"
             THEN Scan(seq, k + 1, ln, FALSE, 0, IF last # 0 THEN used \cup {i} ELSE used)
             ELSE Scan(seq, k + 1, ln, TRUE, i, used)

RECURSIVE RangePass(_, _, _)
RangePass(todo, kept, used) ==
   IF todo = {} THEN <<kept, used>>
   ELSE LET v == CHOOSE v \in todo : TRUE
            r == Scan(RangeFor(v), 1, v.line, FALSE, 0, used)
        IN IF ~r[1] THEN RangePass(todo \ {v}, kept \cup {v}, r[3])
           ELSE RangePass(todo \ {v}, kept, IF r[2] # 0 THEN r[3] \cup {r[2]} ELSE r[3])

AlgoResult == LET p == PlainPass(1, viols, {}) IN RangePass(p[1], {}, p[2])
AlgoKept   == AlgoResult[1]
AlgoUsed   == AlgoResult[2]          \* NB: order of violations does not matter for `used` (set union)

---------------------------------------------------------------------------------
SortedDirs(s) == \A i \in 1..(Len(s) - 1) : s[i].line <= s[i + 1].line
Init == /\ dirs \in {s \in UNION {[1..n -> Dir] : n \in 0..MaxDirs} : SortedDirs(s)}
        /\ viols \in UNION {kSubset(k, Viol) : k \in 0..MaxViols}
        /\ done = FALSE
Emit == /\ ~done /\ done' = TRUE /\ UNCHANGED <<dirs, viols>>
        /\ PrintT(ToJson([dirs   |-> [i \in DI |-> [line |-> dirs[i].line, kind |-> dirs[i].kind,
                                                     rules |-> SetToSeq(dirs[i].rules)]],
                          viols  |-> SetToSeq(viols),
                          hidden |-> SetToSeq({v \in viols : Hidden(v)}),
                          must   |-> SetToSeq({i \in DI : MustUsed(i)}),
                          may    |-> SetToSeq({i \in DI : MayUsed(i)}),
                          algo_used |-> SetToSeq(AlgoUsed)]))
Next == Emit
Spec == Init /\ [][Next]_vars

---------------------------------------------------------------------------------
(* Algo => Contract *)
KeptIsComplementOfHidden == AlgoKept = {v \in viols : ~Hidden(v)}
UsedWithinContract       == \A i \in DI : (MustUsed(i) => i \in AlgoUsed) /\ (i \in AlgoUsed => MayUsed(i))
DisabledHidesNothing     == TRUE    \* disable_noqa is decided on the pipeline level (NoqaFile), see C20 harness
===============================================================================
