---------------------------- MODULE AtomicWriteOps ----------------------------
(* C26 — constant-level vocabulary shared by AtomicWrite (the model of the write path), AtomicWriteObs
   (validation of observed directory states after fault injection) and AtomicWriteTrace (validation of the
   system-call order of a real `sqlfluff fix`).

   Abstract file system: name -> [body, mode].  Bodies are classes of byte contents obtained by the
   harness's projection (comparison with the original bytes and with the expected fixed bytes, which
   include the BOM / encoding of the original):
     "orig"            exactly the original bytes
     "fixed"           exactly the fixed text in the original's encoding (BOM kept)
     "fixed-wrongenc"  the fixed text, but encoded differently (BOM lost or added, other codec)
     "empty"           zero bytes          "partial"  a proper, non-empty prefix of the fixed bytes
     "other"           anything else       "absent"   no such name
   Modes are labels ("0640", ...), "none" for an absent file.                                          *)
EXTENDS Naturals, Sequences, FiniteSets

Absent == [body |-> "absent", mode |-> "none"]

\* The op sequence of LintedFile._safe_create_replace_file (core/linter/linted_file.py) on the success path,
\* and of shutil.move's copy fallback, entered when os.rename raises OSError.
MainOps     == <<"stat", "open", "wrap", "write", "flush", "fsync", "close", "chmod", "rename">>
FallbackOps == <<"copen", "cdata", "cstat", "cunlink">>
CleanupOps  == <<"remove">>
\* the operations of MainOps that are visible as system calls (stat is not specific, wrap and flush have none
\* of their own: flushing is the write call), in the order the model performs them
SysOrder    == <<"open", "write", "fsync", "close", "chmod", "rename">>
RECURSIVE IsSubSeq(_, _)
IsSubSeq(a, b) == IF a = <<>> THEN TRUE ELSE IF b = <<>> THEN FALSE
                  ELSE IF Head(a) = Head(b) THEN IsSubSeq(Tail(a), Tail(b)) ELSE IsSubSeq(a, Tail(b))

--------------------------------------------------------------------------------
(* The contract, on one observation
     o = [suffix, outcome \in {"ok", "exc", "dead", "run"}, remove_failed, strays,
          files : Seq([skip, omode, inp : [body, mode], out : [body, mode], ntmp])]
   `out` is the path the fixed text goes to (= `inp` without a suffix).  Clause names follow the property
   statement.  The result is the first failing clause or "ok".                                           *)
TargetIntact(o, f) ==
    IF o.suffix THEN f.out.body \in {"absent", "fixed"} ELSE f.out.body \in {"orig", "fixed"}
EncodingPreserved(o, f) == f.out.body # "fixed-wrongenc" /\ f.inp.body # "fixed-wrongenc"
SuffixLeavesOriginal(o, f) == o.suffix => (f.inp.body = "orig" /\ f.inp.mode = f.omode)
SkipUntouched(o, f) == f.skip => (f.inp.body = "orig" /\ f.inp.mode = f.omode /\ (o.suffix => f.out = Absent))
\* "a failed write leaves no temporary file behind": binds when the call returned (normally or with an
\* exception); a dead process cannot clean up, and a removal that itself failed is the one excuse.
NoTempOnReturn(o, f) == (o.outcome \in {"ok", "exc"} /\ ~o.remove_failed) => f.ntmp = 0
SuccessWritesFixed(o, f) == (o.outcome = "ok" /\ ~f.skip) => f.out.body = "fixed"
ModePreserved(o, f) == (o.outcome = "ok" /\ ~f.skip) => f.out.mode = f.omode

FileClause(o, f) ==
    IF ~EncodingPreserved(o, f) THEN "EncodingPreserved"
    ELSE IF ~TargetIntact(o, f) THEN "TargetIntact"
    ELSE IF ~SuffixLeavesOriginal(o, f) THEN "SuffixLeavesOriginal"
    ELSE IF ~SkipUntouched(o, f) THEN "SkipUntouched"
    ELSE IF ~NoTempOnReturn(o, f) THEN "NoTempOnReturn"
    ELSE IF ~SuccessWritesFixed(o, f) THEN "SuccessWritesFixed"
    ELSE IF ~ModePreserved(o, f) THEN "ModePreserved"
    ELSE "ok"
\* N files: each file is judged on its own, whatever happened to the others ("Independent")
RECURSIVE FirstBad(_, _)
FirstBad(o, i) == IF i > Len(o.files) THEN "ok"
                  ELSE IF FileClause(o, o.files[i]) # "ok" THEN FileClause(o, o.files[i]) ELSE FirstBad(o, i + 1)
ObsClause(o) == IF o.outcome \in {"ok", "exc"} /\ ~o.remove_failed /\ o.strays > 0 THEN "NoTempOnReturn"
                ELSE FirstBad(o, 1)
================================================================================
