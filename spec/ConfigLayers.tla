----------------------------- MODULE ConfigLayers -----------------------------
(* C27 — configuration precedence and isolation.

   Contract layer : Chain(f) / Effective(f, k) — the ordered layers of the property statement
                      defaults < user config < config files from the working directory down to the
                      file (nearer wins) < explicitly supplied extra config file < command-line
                      overrides < the file's own inline `-- sqlfluff:` directives (that file only)
                    and "the value of k is the value given by the last layer of the file's chain that
                    sets k".  Effective takes no history argument: that *is* the isolation clause (a
                    file's configuration is a function of its own chain, whatever was processed before).
   Algo layer     : the object graph the code really builds, one action per pipeline step —
                      LoadRoot     FluffConfig.from_root: load_config_up_to_path(".") then
                                   FluffConfig.__init__ = nested_combine(defaults, configs, {"core": overrides})
                      ProcessPath  Linter.load_raw_file_and_config: root.make_child_from_path(fname)
                                   (a *fresh* FluffConfig built from the cached per-directory dicts, sharing
                                   the root's `_overrides` dict object) then process_raw_file_for_config on
                                   the child (set_value mutates the child's `_configs` in place)
                      ProcessStr   Linter.parse_string: (config or self.config).copy() then inline on the copy
                    with the mutable objects that are shared between files as variables: the cached
                    per-path dicts (`load_config_at_path` / `load_config_file_as_dict` @cache), the cached
                    defaults dict (`load_config_string_as_dict` @cache), the root `_configs`, and the single
                    `_overrides` dict that root and every child alias.
   TLC checks Algo => Contract (AlgoMeetsContract) for every assignment "which layer sets which key", every
   processing order of the files (with the first file processed again at the end) and both entry styles,
   and emits each case with the contract's Effective for replay into the real code.

   Bug # "none" switches one protective step of the code off (model self-test: TLC must then report
   AlgoMeetsContract violated; shows the invariant is not vacuous and documents which step protects what).

   Abstraction: two keys.  "c" lives in the core section (every layer can set it), "s" lives in a nested
   section (rule option / templater context value; the override layer cannot address it, overrides only
   reach `core`).  A layer's value for a key is the layer's own name, so Effective names the winning layer.
   The user layer is one source (the harness places it in ~/.config/sqlfluff, $XDG_CONFIG_HOME/sqlfluff or
   ~); several config files inside one directory are outside the statement and not modelled.          *)
EXTENDS Naturals, Sequences, FiniteSets, TLC, Json, FiniteSetsExt, SequencesExt

CONSTANTS Layout,       \* names the file placement (cfg files cannot carry sequences), see FileDirs
          MaxSetters,   \* at most this many layers set any one key          } bound the
          MaxTotal,     \* at most this many (layer, key) settings altogether    } enumeration
          Bug           \* "none" | "inline_into_overrides" | "no_copy_in_parse_string" |
                        \* "combine_no_copy" | "extra_before_dirs"

\* directory of file i: "root" (= working directory) or a child directory of it
FileDirs == CASE Layout = "ra"  -> <<"root", "a">>          \* one file in cwd, one in a child directory
              [] Layout = "aa"  -> <<"a", "a">>             \* siblings sharing every config file
              [] Layout = "ab"  -> <<"a", "b">>             \* cousins
              [] Layout = "arb" -> <<"a", "root", "b">>
              [] Layout = "aab" -> <<"a", "a", "b">>
NF      == Len(FileDirs)
Files   == 1..NF
Keys    == {"c", "s"}
Dirs    == {"root"} \cup {FileDirs[f] : f \in Files}
Inl(f)  == "inl" \o ToString(f)
Sources == {"user", "extra", "override"} \cup Dirs \cup {Inl(f) : f \in Files}
Applicable(src, k) == ~(src = "override" /\ k = "s")
SettersOf(k) == {src \in Sources : Applicable(src, k)}

VARIABLES assign,   \* [Keys -> SUBSET Sources]: which layers set which key
          hist,     \* sequence of files in processing order
          mode,     \* "paths" (lint_paths / parse_path) or "strings" (lint_string / parse_string on one Linter)
          stage, i,
          defobj,   \* cached defaults dict                      (shared object)
          cache,    \* cached per-path / per-file dicts           (shared objects)
          ovobj,    \* the one `_overrides` dict                  (shared object)
          rootv,    \* root FluffConfig._configs                  (shared object in "strings" mode)
          obs       \* effective config observed for each processed file, in order
vars == <<assign, hist, mode, stage, i, defobj, cache, ovobj, rootv, obs>>

---------------------------------------------------------------------------------
(* Contract *)
DirChain(d) == IF d = "root" THEN <<"root">> ELSE <<"root", d>>
\* a string has no path: its directory chain is the working directory alone
Chain(f, m) == <<"user">> \o (IF m = "paths" THEN DirChain(FileDirs[f]) ELSE <<"root">>)
               \o <<"extra", "override", Inl(f)>>
EffectiveIn(a, f, k, m) ==
   LET ch == Chain(f, m)
       idx == {j \in 1..Len(ch) : ch[j] \in a[k]}
   IN IF idx = {} THEN "default" ELSE ch[Max(idx)]
Effective(f, k) == EffectiveIn(assign, f, k, mode)

\* isolation, stated separately: the value never comes from a layer outside the file's own chain
OnChain(f, m, src) == src = "default" \/ \E j \in 1..Len(Chain(f, m)) : Chain(f, m)[j] = src

---------------------------------------------------------------------------------
(* Algo *)
Unset == [k \in Keys |-> "unset"]
FileDict(src) == [k \in Keys |-> IF src \in assign[k] THEN src ELSE "unset"]
\* helpers/dict.py nested_combine(*dicts): left to right, later wins, per key inside nested sections
Combine(ds) == [k \in Keys |->
                  LET idx == {j \in 1..Len(ds) : ds[j][k] # "unset"}
                  IN IF idx = {} THEN "unset" ELSE ds[Max(idx)][k]]
\* loader.py load_config_up_to_path: nested_combine(user_appdir, user, *parent_stack, *config_stack, extra)
UpToPath(chain) ==
   LET stack == [j \in 1..Len(chain) |-> cache[chain[j]]]
   IN IF Bug = "extra_before_dirs"
      THEN Combine(<<cache["user"], cache["extra"]>> \o stack)
      ELSE Combine(<<cache["user"]>> \o stack \o <<cache["extra"]>>)
\* fluffconfig.py FluffConfig.__init__: nested_combine(defaults, configs, {"core": overrides})
CoreOnly(d) == [k \in Keys |-> IF k = "c" THEN d[k] ELSE "unset"]
NewConfig(configs) == Combine(<<defobj, configs, CoreOnly(ovobj)>>)

TypeOK == /\ assign \in [Keys -> SUBSET Sources]
          /\ mode \in {"paths", "strings"}
          /\ stage \in {"root", "run", "emit", "done"}

Perms == {p \in [1..NF -> Files] : \A x, y \in 1..NF : x # y => p[x] # p[y]}
Init == /\ assign \in [Keys -> UNION {kSubset(n, Sources) : n \in 0..MaxSetters}]
        /\ \A k \in Keys : assign[k] \subseteq SettersOf(k)
        /\ Cardinality(assign["c"]) + Cardinality(assign["s"]) <= MaxTotal
        /\ hist \in {p \o <<p[1]>> : p \in Perms}
        /\ mode \in {"paths", "strings"}
        /\ stage = "root" /\ i = 1
        /\ defobj = [k \in Keys |-> "default"]
        /\ cache = [src \in {"user", "extra"} \cup Dirs |-> FileDict(src)]
        /\ ovobj = FileDict("override")
        /\ rootv = Unset
        /\ obs = <<>>

LoadRoot == /\ stage = "root" /\ stage' = "run"
            /\ rootv' = NewConfig(UpToPath(<<"root">>))
            /\ UNCHANGED <<assign, hist, mode, i, defobj, cache, ovobj, obs>>

ProcessPath ==
   /\ stage = "run" /\ mode = "paths" /\ i <= Len(hist)
   /\ LET f     == hist[i]
          child == NewConfig(UpToPath(DirChain(FileDirs[f])))      \* make_child_from_path: fresh dicts
          inl   == FileDict(Inl(f))
          eff   == Combine(<<child, inl>>)                          \* set_value on the child
      IN /\ obs' = Append(obs, [file |-> f, eff |-> eff])
         \* child._overrides *is* root._overrides (the dict is handed down by reference)
         /\ ovobj' = IF Bug = "inline_into_overrides" THEN Combine(<<ovobj, CoreOnly(inl)>>) ELSE ovobj
         \* without the deepcopy in nested_combine a section provided by a single source is that
         \* source's cached dict, and set_value writes through to it
         /\ defobj' = IF Bug = "combine_no_copy" /\ inl["s"] # "unset" /\ child["s"] = "default"
                      THEN [defobj EXCEPT !["s"] = inl["s"]] ELSE defobj
   /\ i' = i + 1
   /\ UNCHANGED <<assign, hist, mode, stage, cache, rootv>>

ProcessStr ==
   /\ stage = "run" /\ mode = "strings" /\ i <= Len(hist)
   /\ LET f   == hist[i]
          inl == FileDict(Inl(f))
          eff == Combine(<<rootv, inl>>)                            \* (config or self.config).copy() + inline
      IN /\ obs' = Append(obs, [file |-> f, eff |-> eff])
         /\ rootv' = IF Bug = "no_copy_in_parse_string" THEN eff ELSE rootv
   /\ i' = i + 1
   /\ UNCHANGED <<assign, hist, mode, stage, defobj, cache, ovobj>>

Finished == /\ stage = "run" /\ i > Len(hist) /\ stage' = "emit"
            /\ UNCHANGED <<assign, hist, mode, i, defobj, cache, ovobj, rootv, obs>>

SortSet(S) == SetToSortSeq(S, LAMBDA a, b : TRUE)
Emit == /\ stage = "emit" /\ stage' = "done"
        /\ PrintT(ToJson([filedirs |-> FileDirs,
                          assign   |-> [k \in Keys |-> SetToSeq(assign[k])],
                          hist     |-> hist,
                          mode     |-> mode,
                          eff      |-> [f \in Files |-> [k \in Keys |-> Effective(f, k)]],
                          algo     |-> obs]))
        /\ UNCHANGED <<assign, hist, mode, i, defobj, cache, ovobj, rootv, obs>>

Next == LoadRoot \/ ProcessPath \/ ProcessStr \/ Finished \/ Emit
Spec == Init /\ [][Next]_vars

---------------------------------------------------------------------------------
(* Algo => Contract *)
AlgoMeetsContract == \A j \in 1..Len(obs) : \A k \in Keys : obs[j].eff[k] = Effective(obs[j].file, k)
AlgoIsolated      == \A j \in 1..Len(obs) : \A k \in Keys : OnChain(obs[j].file, mode, obs[j].eff[k])
\* the shared objects are never written by processing a file
SharedUntouched   == /\ defobj = [k \in Keys |-> "default"]
                     /\ cache = [src \in {"user", "extra"} \cup Dirs |-> FileDict(src)]
                     /\ ovobj = FileDict("override")
                     /\ (stage # "root" => rootv = NewConfig(UpToPath(<<"root">>)))
===============================================================================
