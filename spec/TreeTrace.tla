-------------------------------- MODULE TreeTrace --------------------------------
(* Code -> spec validation for C02 (parsing is lossless) and C03 (trees are well formed, indents balance).
   One trace = one rendered variant, recorded by harness/vf/lexrec.py at the returns of
   Linter._lex_templated_file and Linter._parse_tokens:

     events = << Template, Parse >>      (or TemplateFail / Skip / Crash)
     Parse.toks    the parser's input tokens   << t0, t1, s0, s1, len, kind, eqT, eqS, indent, rid >>
     Parse.leaves  tree.raw_segments           (same row shape; rid = interned raw text)
     Parse.nodes   the non-leaf nodes in preorder
                   << type, lo, hi, t0, t1, s0, s1, exempt, kidSpans, firstNonMeta, lastNonMeta, first, last >>
                   with [lo, hi) the node's range in `leaves`
     Parse.nprs / nunparsable / tree

   The contract is a state machine over the leaves (one TLC state per leaf): in Mode "C02" it walks the
   token list and the leaf list in lock step, skipping zero-width metas on both sides, and requires equal
   text and positions; in Mode "C03" it carries the running indentation balance.  The per-node clauses of
   C03 are evaluated when the walk is complete.                                                     *)
EXTENDS Naturals, Integers, Sequences, FiniteSets, TLC, Json, IOUtils, TLCExt

CONSTANT Mode                          \* "C02" or "C03"
Traces == JsonDeserialize(IOEnv.VF_TRACES)
VARIABLES tid, pc, i, j, bal, rej, nacc, fin
vars == <<tid, pc, i, j, bal, rej, nacc, fin>>

T   == Traces[tid]
Ev  == T.events[pc + 1]
MetaKinds == {"indent", "dedent", "placeholder", "loop", "eof", "meta"}
IsMeta(r) == r[5] = 0 /\ r[6] \in MetaKinds
NonCode == {"ws", "nl", "comment"}

\* next index >= k holding a token with text (Len+1 if none)
NextReal(s, k) == IF k <= Len(s) /\ ~IsMeta(s[k]) THEN k
                  ELSE LET R == {x \in k..Len(s) : ~IsMeta(s[x])} IN
                       IF R = {} THEN Len(s) + 1 ELSE CHOOSE x \in R : \A y \in R : x <= y
SameTok(a, b) == a[1] = b[1] /\ a[2] = b[2] /\ a[3] = b[3] /\ a[4] = b[4] /\ a[5] = b[5] /\ a[10] = b[10]

---------------------------------------------------------------------------------
(* per-node clauses of C03 *)
LeafIdx(n) == n[2]..(n[3] - 1)
SpanIsHull(n) ==
   LET L == Ev.leaves  R == LeafIdx(n) IN
   R # {} =>
     /\ \A x \in R : n[4] <= L[x][1] /\ L[x][2] <= n[5] /\ n[6] <= L[x][3] /\ L[x][4] <= n[7]
     /\ \E x \in R : L[x][1] = n[4]
     /\ \E x \in R : L[x][2] = n[5]
     /\ \E x \in R : L[x][3] = n[6]
     /\ \E x \in R : L[x][4] = n[7]
\* children in positional order; a zero-width child (template placeholder, indent) may also sit strictly
\* inside the span of the next child: a template tag that renders nothing inside one lexed token
ChildOrder(n) == \A x \in 1..(Len(n[9]) - 1) :
                    \/ n[9][x][1] <= n[9][x + 1][1]
                    \/ (n[9][x][1] = n[9][x][2] /\ n[9][x][1] < n[9][x + 1][2])
NoNonCodeEnds(n) == ~n[8] => (n[12] \notin NonCode /\ n[13] \notin NonCode)
NodeClause(n) == IF ~SpanIsHull(n) THEN "SpanIsHull"
                 ELSE IF ~ChildOrder(n) THEN "ChildOrder"
                 ELSE IF ~NoNonCodeEnds(n) THEN "NoNonCodeEnds"
                 ELSE "ok"
BadNodes == {x \in 1..Len(Ev.nodes) : NodeClause(Ev.nodes[x]) # "ok"}
FirstBad == CHOOSE x \in BadNodes : \A y \in BadNodes : x <= y

---------------------------------------------------------------------------------
Reset == i' = 1 /\ j' = 1 /\ bal' = 0
NextTrace == tid' = tid + 1 /\ pc' = 0 /\ Reset
Reject(c, at) == /\ rej' = Append(rej, [id |-> T.id, step |-> pc + 1, at |-> at, clause |-> c])
                 /\ NextTrace /\ UNCHANGED <<nacc, fin>>
Advance == pc' = pc + 1 /\ Reset /\ UNCHANGED <<tid, rej, nacc, fin>>

Init == tid = 1 /\ pc = 0 /\ i = 1 /\ j = 1 /\ bal = 0 /\ rej = <<>> /\ nacc = 0 /\ fin = FALSE

EvStep ==
   /\ tid <= Len(Traces) /\ pc < Len(T.events) /\ Ev.ev # "Parse"
   /\ CASE Ev.ev \in {"Template", "TemplateFail", "Skip", "Lex"} -> Advance
        [] Ev.ev = "Crash" -> Advance            \* an escaping exception is C04's subject, not judged here
        [] OTHER -> Reject("UnknownEvent", 0)

\* the parser gave no tree at all.  C02: "code the grammar cannot match is kept inside unparsable nodes and
\* reported as PRS errors; it is never discarded" — a parse that returns nothing has discarded everything.  The
\* one exemption is an exceeded, configured parse limit (max_parse_depth / max_parse_nodes), which the
\* properties themselves describe as a PRS violation without a tree (C04).
NoTree ==
   /\ tid <= Len(Traces) /\ pc < Len(T.events) /\ Ev.ev = "Parse" /\ ~Ev.tree
   /\ IF Mode # "C02" THEN Advance
      ELSE IF Ev.nprs = 0 THEN Reject("NoTreeWithoutPRS", 0)
      ELSE IF \E q \in 1..Len(Ev.prs_kinds) : Ev.prs_kinds[q] = "limit" THEN Advance
      ELSE Reject("TreeKeepsUnmatchedCode", 0)

\* C02: lock-step walk
Walk02 ==
   /\ Mode = "C02" /\ tid <= Len(Traces) /\ pc < Len(T.events) /\ Ev.ev = "Parse" /\ Ev.tree
   /\ LET a == NextReal(Ev.toks, i)  b == NextReal(Ev.leaves, j) IN
      IF a > Len(Ev.toks) /\ b > Len(Ev.leaves)
      THEN IF Ev.nunparsable # Ev.nprs THEN Reject("UnparsableIffPRS", 0) ELSE Advance
      ELSE IF a > Len(Ev.toks) THEN Reject("LeafNotAToken", b)           \* duplicated / invented text
      ELSE IF b > Len(Ev.leaves) THEN Reject("TokenDropped", a)
      ELSE IF ~SameTok(Ev.toks[a], Ev.leaves[b]) THEN Reject("LeafEqualsToken", a)
      ELSE i' = a + 1 /\ j' = b + 1 /\ UNCHANGED <<tid, pc, bal, rej, nacc, fin>>

\* C03: running indent balance over the leaves, then the per-node clauses
Walk03 ==
   /\ Mode = "C03" /\ tid <= Len(Traces) /\ pc < Len(T.events) /\ Ev.ev = "Parse" /\ Ev.tree
   /\ IF j <= Len(Ev.leaves)
      THEN LET nb == bal + Ev.leaves[j][9] IN
           IF nb < 0 THEN Reject("IndentNeverNegative", j)
           ELSE j' = j + 1 /\ bal' = nb /\ UNCHANGED <<tid, pc, i, rej, nacc, fin>>
      ELSE IF bal # 0 THEN Reject("IndentBalanced", j)
      ELSE IF BadNodes # {} THEN Reject(NodeClause(Ev.nodes[FirstBad]), FirstBad)
      ELSE Advance

EndTrace == /\ tid <= Len(Traces) /\ pc = Len(T.events)
            /\ nacc' = nacc + 1 /\ NextTrace /\ UNCHANGED <<rej, fin>>
Finish == /\ tid = Len(Traces) + 1 /\ ~fin /\ fin' = TRUE
          /\ PrintT(ToJson([accepted |-> nacc, rejected |-> rej]))
          /\ UNCHANGED <<tid, pc, i, j, bal, rej, nacc>>
TraceNext == EvStep \/ NoTree \/ Walk02 \/ Walk03 \/ EndTrace \/ Finish
TraceSpec == Init /\ [][TraceNext]_vars
=================================================================================
