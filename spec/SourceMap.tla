------------------------------- MODULE SourceMap -------------------------------
(* C07 — contract of a templater's source map (TemplatedFile), as operators over one recorded
   `Template` event e:

     e.nsrc, e.ntmpl           lengths of the source and of the rendered text
     e.raw  = << <<type, s0, len, eq>> ... >>          raw (source) slices; eq: raw text = src[s0, s0+len)
     e.tfs  = << <<type, s0, s1, t0, t1, eq>> ... >>   templated slices;    eq: src[s0,s1) = rendered[t0,t1)

   Each operator is one clause of the property statement.  They are evaluated by LexTrace on every
   variant every templater produces, and used as assumptions (A3) by the lexer's slice-mapping model.  *)
EXTENDS Naturals, Integers, Sequences

RType(r) == r[1]   RS0(r) == r[2]   RLen(r) == r[3]   REq(r) == r[4]
FType(f) == f[1]   FS0(f) == f[2]   FS1(f) == f[3]    FT0(f) == f[4]   FT1(f) == f[5]   FEq(f) == f[6]

\* "the raw source slices tile the source file exactly and in order"
RawTiles(e) ==
   IF Len(e.raw) = 0 THEN e.nsrc = 0
   ELSE /\ RS0(e.raw[1]) = 0
        /\ \A i \in 1..(Len(e.raw) - 1) : RS0(e.raw[i]) + RLen(e.raw[i]) = RS0(e.raw[i + 1])
        /\ RS0(e.raw[Len(e.raw)]) + RLen(e.raw[Len(e.raw)]) = e.nsrc
RawTextEq(e) == \A i \in 1..Len(e.raw) : REq(e.raw[i])

\* "the rendered slices tile the rendered SQL exactly and in order"
TmplTiles(e) ==
   IF Len(e.tfs) = 0 THEN e.ntmpl = 0
   ELSE /\ FT0(e.tfs[1]) = 0
        /\ \A i \in 1..(Len(e.tfs) - 1) : FT1(e.tfs[i]) = FT0(e.tfs[i + 1])
        /\ \A i \in 1..Len(e.tfs) : FT0(e.tfs[i]) <= FT1(e.tfs[i])
        /\ FT1(e.tfs[Len(e.tfs)]) = e.ntmpl

\* "every source slice lies within the file"
SrcInFile(e) == \A i \in 1..Len(e.tfs) :
                   0 <= FS0(e.tfs[i]) /\ FS0(e.tfs[i]) <= FS1(e.tfs[i]) /\ FS1(e.tfs[i]) <= e.nsrc

\* "every literal slice that renders non-empty text maps to identical text in the source"
LiteralEq(e) == \A i \in 1..Len(e.tfs) :
                   (FType(e.tfs[i]) = "literal" /\ FT0(e.tfs[i]) < FT1(e.tfs[i]))
                      => /\ FS1(e.tfs[i]) - FS0(e.tfs[i]) = FT1(e.tfs[i]) - FT0(e.tfs[i])
                         /\ FEq(e.tfs[i])

\* A3: what the lexer's slice mapper can handle — a slice that renders text is literal, templated,
\* block_start (call blocks) or escaped.  (Assumption of SliceMap; an obligation of every templater.)
A3(e) == \A i \in 1..Len(e.tfs) :
            FT0(e.tfs[i]) < FT1(e.tfs[i]) => FType(e.tfs[i]) \in {"literal", "templated", "block_start", "escaped"}

TemplateClause(e) ==
   IF ~RawTiles(e) THEN "RawTiles"
   ELSE IF ~RawTextEq(e) THEN "RawTextEq"
   ELSE IF ~TmplTiles(e) THEN "TmplTiles"
   ELSE IF ~SrcInFile(e) THEN "SrcInFile"
   ELSE IF ~LiteralEq(e) THEN "LiteralEq"
   ELSE IF ~A3(e) THEN "A3SliceTypes"
   ELSE "ok"
=================================================================================
