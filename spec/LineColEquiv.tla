---------------------------- MODULE LineColEquiv ----------------------------
(* Shows (TLC, exhaustive for MaxLen) that the relational form of the contract used by LineColTrace
   coincides with LineCol!CLine / CCol, so the two oracles are the same oracle.                    *)
EXTENDS LineCol

RECURSIVE LineLens(_)
LineLens(t) == IF NLs(t) = {} THEN <<Len(t)>>
               ELSE LET k == CHOOSE k \in NLs(t) : \A j \in NLs(t) : k <= j
                    IN <<k - 1>> \o LineLens(SubSeq(t, k + 1, Len(t)))
RECURSIVE SumTo(_, _)
SumTo(L, k) == IF k = 0 THEN 0 ELSE L[k] + SumTo(L, k - 1)
Rel(L, p, l, c) == /\ l \in 1..Len(L) /\ c \in 1..(L[l] + 1)
                   /\ p = SumTo(L, l - 1) + (l - 1) + (c - 1)
RelEquivContract ==
   \A p \in 0..Len(s) : \A l \in 1..(Len(s) + 1) : \A c \in 1..(Len(s) + 1) :
       Rel(LineLens(s), p, l, c) <=> (l = CLine(s, p) /\ c = CCol(s, p))
=============================================================================
