------------------------------- MODULE Runner -------------------------------
(* C24 -- parallel and serial runs agree.   (C34's skip accounting rides along.)

   Algo layer: a transcription of the path-run machinery of sqlfluff
     core/linter/linter.py   Linter.lint_paths            (expansion, result assembly, persist, skip count)
     core/linter/runner.py   get_runner                   (processes = 1 -> SequentialRunner)
                             SequentialRunner.run         (mode "serial": lazy generator chain)
                             ParallelRunner.run/_apply    (pool of nw workers fed in submission order)
                             MultiProcessRunner._map      (imap_unordered -> mode "unordered")
                             MultiThreadRunner._map       (imap           -> mode "ordered")
   one action per step of a worker (Take, Read, Finish) and of the main thread (Consume -> Add | Skip |
   Drop, then Persist).  A task is a position in the expanded path list `tasks`; the same file may be
   named twice (duplicate path).  What linting a file yields is a fixed function `outcome[f]` of the file
   and of the version of its text that was read (0 = as given, 1 = after its own fixes were written):
   that is C32's business and is assumed here.

   Contract layer: the result of a run -- the per-file records as a set, the files written, the skip
   count and the exit code -- is a function of the *bag* of files named and of nothing else: not of nw,
   not of the order in which workers finish, not of the order of `tasks`.  (Exp* operators below; they
   mention none of nw, mode, queue order, comp.)                                                       *)
EXTENDS Naturals, Integers, Sequences, FiniteSets, TLC, Json, SequencesExt, FiniteSetsExt

CONSTANTS Kinds,      \* kinds of file in scope: subset of {"clean","fixable","parse","oversize","raise"}
          MaxFiles,   \* at most this many distinct files in a run
          AllowDup,   \* TRUE: the path list may name one of the files twice
          MaxN,       \* pool sizes 1..MaxN
          Modes,      \* subset of {"serial","unordered","ordered"}
          Ops,        \* subset of {"lint","fix"}      fix = lint_paths(fix=True, apply_fixes=True)
          Renders,    \* subset of BOOLEAN: TRUE = pool runs render in the main process (see Feed)
          EmitOn      \* TRUE: print one JSON record per terminal state (spec -> code replay)

VARIABLES tasks,      \* Seq(file): the expanded path list, in submission order
          outcome,    \* [file -> Out]: what linting the file yields (fixed for the whole run)
          nw, mode, op,
          mainrender, \* pool runs only: files are rendered by the main process while feeding the pool
                      \* (ParallelRunner.iter_partials falls back to BaseRunner.iter_partials when the templater
                      \*  cannot template in a worker or when Linter.user_rules is set)
          ready,      \* Seq([t, c]): rendered in the main process and submitted, not yet taken by a worker
          queue,      \* Seq(task): not yet handed to a worker            (pool task queue / generator position)
          running,    \* [1..nw -> [t, c]]: task held by each worker and the text version it read (Unread before)
          done,       \* set of [t, c]: results produced, not yet seen by the main thread (pool out-queue)
          consumed,   \* set of [t, rec]: records added to the LintingResult      (LintedDir.add)
          dropped,    \* set of tasks whose worker raised; logged and forgotten (_handle_lint_path_exception)
          skipped,    \* runner.skipped_file_count
          pending,    \* task whose LintedFile the main loop holds between add and persist_tree (0 = none)
          persisted,  \* files persist_tree was called for (main thread only)
          files,      \* [file -> 0..1]: version of the text on disk
          comp,       \* history: order in which tasks finished (completion order, emitted for replay)
          ncons,      \* number of tasks the main process is done with (results taken from the map iterator,
                      \* plus files it skipped before submitting them)
          aborted,    \* the run ended with an exception escaping lint_paths
          emitted

cfgv == <<tasks, outcome, nw, mode, op, mainrender>>
vars == <<cfgv, ready, queue, running, done, consumed, dropped, skipped, pending,
          persisted, files, comp, ncons, aborted, emitted>>

Unread == -1
Idle   == [t |-> 0, c |-> 0]

---------------------------------------------------------------------------------
(* Per-file outcome.  rec0 / rec1: the violation record obtained from version 0 / 1 of the text.
   live: the record has a violation that counts for `lint`'s exit code; unfix: something remains after
   fixing (unfixable lint error, or template/parse error) and counts for `fix`'s exit code;
   block: template/parse errors => persist_tree is not called; fix: persist_tree rewrites the file.   *)
KindOut(k) ==
  CASE k = "clean"    -> [skip |-> FALSE, raise |-> FALSE, rec0 |-> "none", rec1 |-> "none", live |-> FALSE,
                          unfix |-> FALSE, block |-> FALSE, fix |-> FALSE]
    [] k = "fixable"  -> [skip |-> FALSE, raise |-> FALSE, rec0 |-> "L",    rec1 |-> "none", live |-> TRUE,
                          unfix |-> FALSE, block |-> FALSE, fix |-> TRUE]
    [] k = "parse"    -> [skip |-> FALSE, raise |-> FALSE, rec0 |-> "PL",   rec1 |-> "PL",   live |-> TRUE,
                          unfix |-> TRUE,  block |-> TRUE,  fix |-> FALSE]
    [] k = "oversize" -> [skip |-> TRUE,  raise |-> FALSE, rec0 |-> "none", rec1 |-> "none", live |-> FALSE,
                          unfix |-> FALSE, block |-> FALSE, fix |-> FALSE]
    [] k = "raise"    -> [skip |-> FALSE, raise |-> TRUE,  rec0 |-> "none", rec1 |-> "none", live |-> FALSE,
                          unfix |-> FALSE, block |-> FALSE, fix |-> FALSE]

T      == 1..Len(tasks)
F      == ToSet(tasks)
FileOf(t) == tasks[t]
O(t)   == outcome[tasks[t]]
Apply  == op = "fix"
Mult(f) == Cardinality({t \in T : tasks[t] = f})
RecOf(d) == IF d.c = 0 THEN O(d.t).rec0 ELSE O(d.t).rec1

---------------------------------------------------------------------------------
(* Worker side.  SequentialRunner is the degenerate pool: one "worker" (the main thread itself) that only
   takes the next file when nothing is in flight -- `for fname, partial in iter_partials(..): yield partial()`
   followed by lint_paths' loop body before the generator is resumed.                                    *)
SerialGate == mode = "serial" => /\ \A w \in 1..nw : running[w].t = 0
                                 /\ done = {} /\ pending = 0

TakeAt(w, i) ==                       \* pool task handler feeds tasks in order; i = 1 in the algorithm
  /\ ~aborted /\ ~mainrender /\ running[w].t = 0 /\ i \in 1..Len(queue)
  /\ running' = [running EXCEPT ![w] = [t |-> queue[i], c |-> Unread]]
  /\ queue' = RemoveAt(queue, i)
  /\ UNCHANGED <<cfgv, ready, done, consumed, dropped, skipped, pending, persisted, files,
                 comp, ncons, aborted, emitted>>
(* Workers are interchangeable: the next task goes to the lowest-numbered idle one (a symmetry reduction,
   no outcome or completion order is lost).                                                             *)
Take(w) == SerialGate /\ (\A v \in 1..(w - 1) : running[v].t # 0) /\ TakeAt(w, 1)

(* Main-process rendering in a pool run (BaseRunner.iter_partials/iter_rendered driven by the pool's task
   feeder): files are rendered one by one in submission order *before* they are submitted.  An oversize file
   is skipped right there (iter_rendered's `except SQLFluffSkipFile`) and never reaches a worker; any other
   exception leaves the generator, the pool re-raises it from the result iterator and it escapes lint_paths. *)
SkipAtSubmit(i) ==
  /\ ~aborted /\ i \in 1..Len(queue)
  /\ queue' = RemoveAt(queue, i) /\ skipped' = skipped + 1 /\ ncons' = ncons + 1
  /\ UNCHANGED <<cfgv, ready, running, done, consumed, dropped, pending, persisted, files, comp, aborted, emitted>>
Feed ==
  /\ mainrender /\ ~aborted /\ queue # <<>>
  /\ LET t == Head(queue) IN
     IF O(t).skip THEN SkipAtSubmit(1)
     ELSE IF O(t).raise
     THEN /\ aborted' = TRUE
          /\ UNCHANGED <<cfgv, ready, queue, running, done, consumed, dropped, skipped, pending, persisted, files,
                         comp, ncons, emitted>>
     ELSE /\ ready' = Append(ready, [t |-> t, c |-> files[FileOf(t)]]) /\ queue' = Tail(queue)
          /\ UNCHANGED <<cfgv, running, done, consumed, dropped, skipped, pending, persisted, files, comp, ncons,
                         aborted, emitted>>
TakeReady(w) ==
  /\ mainrender /\ ~aborted /\ running[w].t = 0 /\ ready # <<>> /\ (\A v \in 1..(w - 1) : running[v].t # 0)
  /\ running' = [running EXCEPT ![w] = Head(ready)] /\ ready' = Tail(ready)
  /\ UNCHANGED <<cfgv, queue, done, consumed, dropped, skipped, pending, persisted, files, comp, ncons, aborted,
                 emitted>>

(* render_file: load_raw_file_and_config reads the text as it is on disk *now*.  In serial mode that call
   sits in the generator outside SequentialRunner.run's try block: an exception other than SQLFluffSkipFile
   escapes lint_paths.  ParallelRunner._apply catches everything and ships a DelayedException.          *)
Read(w) ==
  LET r == running[w] IN
  /\ ~aborted /\ r.t # 0 /\ r.c = Unread
  /\ IF mode = "serial" /\ O(r.t).raise
     THEN aborted' = TRUE /\ UNCHANGED running
     ELSE aborted' = aborted /\ running' = [running EXCEPT ![w] = [t |-> r.t, c |-> files[FileOf(r.t)]]]
  /\ UNCHANGED <<cfgv, ready, queue, done, consumed, dropped, skipped, pending, persisted,
                 files, comp, ncons, emitted>>

FinishOf(w) ==
  LET r == running[w] IN
  /\ ~aborted /\ r.t # 0
  /\ done' = done \cup {r}
  /\ running' = [running EXCEPT ![w] = Idle]
  /\ comp' = Append(comp, r.t)
  /\ UNCHANGED <<cfgv, ready, queue, consumed, dropped, skipped, pending, persisted, files,
                 ncons, aborted, emitted>>
Finish(w) == running[w].c # Unread /\ FinishOf(w)

---------------------------------------------------------------------------------
(* Main thread.  ParallelRunner.run's loop over the map iterator, then lint_paths' loop body.           *)
Outstanding == ToSet(queue) \cup {r.t : r \in ToSet(ready)} \cup {d.t : d \in done}
               \cup {running[w].t : w \in {v \in 1..nw : running[v].t # 0}}
LeastOf(S)  == CHOOSE x \in S : \A y \in S : x <= y
NextInOrder(d) == mode = "ordered" => d.t = LeastOf(Outstanding)     \* imap yields in submission order

Seen(d) == /\ ~aborted /\ d \in done /\ pending = 0               \* next item of the map iterator
           /\ done' = done \ {d} /\ ncons' = ncons + 1
           /\ UNCHANGED <<cfgv, ready, queue, running, persisted, files, comp, aborted, emitted>>
Skip(d) ==                          \* DelayedException(SQLFluffSkipFile) / iter_rendered's except clause
  Seen(d) /\ skipped' = skipped + 1 /\ UNCHANGED <<consumed, dropped, pending>>
Drop(d) ==                          \* any other DelayedException: _handle_lint_path_exception, no record
  Seen(d) /\ dropped' = dropped \cup {d.t} /\ UNCHANGED <<consumed, skipped, pending>>
Add(d, rec) ==                      \* lint_paths: linted_dir.add(linted_file); persist follows if applicable
  /\ Seen(d) /\ consumed' = consumed \cup {[t |-> d.t, rec |-> rec]}
  /\ pending' = IF Apply /\ ~O(d.t).block THEN d.t ELSE 0
  /\ UNCHANGED <<dropped, skipped>>
Consume == \E d \in done : /\ NextInOrder(d)
                           /\ IF O(d.t).skip THEN Skip(d) ELSE IF O(d.t).raise THEN Drop(d) ELSE Add(d, RecOf(d))

PersistTo(v) ==                     \* linted_file.persist_tree(), main thread, right after add
  /\ ~aborted /\ pending # 0
  /\ persisted' = persisted \cup {FileOf(pending)}
  /\ files' = [files EXCEPT ![FileOf(pending)] = v]
  /\ pending' = 0
  /\ UNCHANGED <<cfgv, ready, queue, running, done, consumed, dropped, skipped, comp, ncons,
                 aborted, emitted>>
Persist == PersistTo(IF O(pending).fix THEN 1 ELSE files[FileOf(pending)])

Terminal == aborted \/ (queue = <<>> /\ ready = <<>> /\ (\A w \in 1..nw : running[w].t = 0) /\ done = {} /\ pending = 0)

---------------------------------------------------------------------------------
(* What the run reports (projection of the terminal state).                                            *)
Recs       == {[f |-> FileOf(c.t), rec |-> c.rec] : c \in consumed}          \* per-file records, as a set
NRec(f)    == Cardinality({c \in consumed : FileOf(c.t) = f})
UnfixSeen  == \E c \in consumed : O(c.t).unfix
Exit(skipfail) == IF aborted THEN 99
                  ELSE IF (IF Apply THEN UnfixSeen ELSE \E c \in consumed : c.rec # "none")
                          \/ (skipfail /\ skipped > 0) THEN 1 ELSE 0

(* Contract: functions of the bag of named files only.                                                  *)
ExpRecs     == {[f |-> f, rec |-> outcome[f].rec0] : f \in {g \in F : ~outcome[g].skip /\ ~outcome[g].raise}}
(* A file named twice may, when fixes are applied, be linted again after its own fix was written; the
   statement speaks of a *set* of files, so either record is allowed for the second visit.              *)
MayRecs     == ExpRecs \cup {[f |-> f, rec |-> outcome[f].rec1] :
                             f \in {g \in F : Apply /\ Mult(g) > 1 /\ outcome[g].fix}}
ExpSkipped  == Cardinality({t \in T : O(t).skip})
ExpWritten  == {f \in F : Apply /\ outcome[f].fix}
ExpExit(skipfail) ==
   IF (IF Apply THEN \E f \in F : outcome[f].unfix ELSE \E f \in F : outcome[f].live)
      \/ (skipfail /\ ExpSkipped > 0) THEN 1 ELSE 0

RecordsAgree  == ExpRecs \subseteq Recs /\ Recs \subseteq MayRecs
NothingLost   == \A f \in F : NRec(f) = (IF outcome[f].skip \/ outcome[f].raise THEN 0 ELSE Mult(f))
SkipsCounted  == skipped = ExpSkipped
WrittenAgree  == {f \in F : files[f] = 1} = ExpWritten
PersistInMain == persisted \subseteq {f \in F : Apply /\ ~outcome[f].block /\ ~outcome[f].skip /\ ~outcome[f].raise}
ExitAgrees    == \A sf \in BOOLEAN : Exit(sf) = ExpExit(sf)

ClauseNames == <<"RecordsAgree", "NothingLost", "SkipsCounted", "WrittenAgree", "PersistInMain", "ExitAgrees">>
ClauseVal(n) == CASE n = "RecordsAgree" -> RecordsAgree [] n = "NothingLost" -> NothingLost
                  [] n = "SkipsCounted" -> SkipsCounted [] n = "WrittenAgree" -> WrittenAgree
                  [] n = "PersistInMain" -> PersistInMain [] n = "ExitAgrees" -> ExitAgrees
Failing == SelectSeq(ClauseNames, LAMBDA n : ~ClauseVal(n))

(* Algo => Contract, checked as invariants on every terminal state of every interleaving.               *)
SerialParallelAgree == Terminal => Failing = <<>>
(* always, not only at the end: no write before the record was added, and only by the main thread        *)
WriteAfterAdd == \A f \in F : files[f] = 1 => \E c \in consumed : FileOf(c.t) = f
TypeOK == /\ skipped \in 0..Len(tasks) /\ pending \in 0..Len(tasks)
          /\ \A w \in 1..nw : running[w].t \in 0..Len(tasks)
          /\ Cardinality({t \in T : \E w \in 1..nw : running[w].t = t}) + Len(queue) + Len(ready) + Cardinality(done)
             + ncons = Len(tasks)            \* every task is in exactly one place (ncons: disposed of by main)

---------------------------------------------------------------------------------
(* Scope: every path list over <= MaxFiles distinct kinds (one file per kind), optionally naming one of
   them twice, in every order.                                                                          *)
Dups(s) == {InsertAt(s, q, s[j]) : j \in 1..Len(s), q \in 1..(Len(s) + 1)}
PathLists == LET base == UNION {SetToSeqs(S) : S \in UNION {kSubset(k, Kinds) : k \in 1..MaxFiles}}
             IN base \cup (IF AllowDup THEN UNION {Dups(s) : s \in base} ELSE {})

Init == /\ tasks \in PathLists
        /\ outcome = [k \in Kinds |-> KindOut(k)]
        /\ mode \in Modes /\ op \in Ops
        /\ (Len(tasks) = 1 => mode = "serial")          \* lint_paths: `if files_count == 1: processes = 1`
        /\ mainrender \in (IF mode = "serial" THEN {FALSE} ELSE Renders) /\ ready = <<>>
        /\ nw \in (IF mode = "serial" THEN {1} ELSE 1..MaxN)
        /\ queue = [i \in 1..Len(tasks) |-> i]
        /\ running = [w \in 1..nw |-> Idle]
        /\ done = {} /\ consumed = {} /\ dropped = {} /\ skipped = 0 /\ pending = 0 /\ persisted = {}
        /\ files = [k \in Kinds |-> 0]
        /\ comp = <<>> /\ ncons = 0 /\ aborted = FALSE /\ emitted = FALSE

Emit == /\ Terminal /\ ~emitted /\ emitted' = TRUE
        /\ EmitOn => PrintT(ToJson(
             [tasks |-> tasks, n |-> nw, mode |-> mode, op |-> op, mainrender |-> mainrender, comp |-> comp,
              aborted |-> aborted,
              recs |-> SetToSeq(Recs), skipped |-> skipped, written |-> SetToSeq({f \in F : files[f] = 1}),
              exit0 |-> Exit(FALSE), exit1 |-> Exit(TRUE),
              exp |-> [recs |-> SetToSeq(ExpRecs), may |-> SetToSeq(MayRecs), skipped |-> ExpSkipped,
                       written |-> SetToSeq(ExpWritten), exit0 |-> ExpExit(FALSE), exit1 |-> ExpExit(TRUE)],
              failing |-> Failing]))
        /\ UNCHANGED <<cfgv, ready, queue, running, done, consumed, dropped, skipped, pending,
                       persisted, files, comp, ncons, aborted>>

Next == \/ \E w \in 1..nw : Take(w) \/ TakeReady(w) \/ Read(w) \/ Finish(w)
        \/ Feed \/ Consume \/ Persist \/ Emit
Spec == Init /\ [][Next]_vars
(* VIEW for the verification run: the history `comp` and the constant `outcome` influence no transition
   and no invariant, so states differing only there are merged.  The emission run keeps them apart.     *)
NoHistory == <<tasks, nw, mode, op, mainrender, ready, queue, running, done, consumed, dropped, skipped, pending, persisted,
               files, ncons, aborted, emitted>>
=============================================================================
