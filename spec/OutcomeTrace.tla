---------------------------- MODULE OutcomeTrace ----------------------------
(* Code -> spec validation for C18 / C19 / C22 / C34.

   One trace = one concrete scenario run: the facts the code itself established about every file (which
   violations exist, with their suppressed / warning / fixable flags, whether a tree exists; sizes and limits)
   and one event per entry point observation (CLI path, CLI stdin with --stdin-filename, sqlfluff.lint/fix,
   Linter.lint_paths, real subprocesses): exit status, set of modified files, skipped count, files that reached
   the lexer / rule loop, files whose fix loop hit the limit, number of violations still carrying fixes,
   interned ids of the violation list and of the resulting texts.

   The verdict is Outcome's contract evaluated on these observed facts.  The contract has no entry-point
   parameter: every event of a trace is checked against the same run value (C19), and events are compared with
   one another.  `Prop` selects whose clauses are evaluated, so that one recording serves four checks and a
   rejection for one property never hides one for another.                                                  *)
EXTENDS Outcome, IOUtils, TLCExt

CONSTANT Prop        \* "C18" | "C19" | "C22" | "C34"

Traces == JsonDeserialize(IOEnv.VF_TRACES)
VARIABLES tid, pc, rej, nacc, fin
tvars == <<tid, pc, rej, nacc, fin, sc, done>>

T  == Traces[tid]
Ev == T.events[pc + 1]
NONE == 99

\* C34: the byte limit is a property of files on disk, the character limit of any text given to a templater
\* limits are per file: the effective configuration of a file includes the .sqlfluff next to it
Over(f, e) == \/ e.kind = "path" /\ f.byte_limit > 0 /\ f.nbytes > f.byte_limit
              \/ T.char_limit > 0 /\ f.nchars > T.char_limit
RunAt(e) == [usage |-> T.usage, cmd |-> T.cmd, feu |-> T.feu, nofail |-> T.nofail, skipfail |-> T.skipfail, limkind |-> "observed",
             files |-> [i \in 1..Len(T.files) |->
                          [V |-> ToSet(T.files[i].V), skipped |-> Over(T.files[i], e),
                           limit |-> i \in ToSet(e.limit), notree |-> T.files[i].notree]]]

C18Clause(e) ==
   LET R == RunAt(e)
       M == ToSet(e.modified)
   IN IF \E i \in M : Blocked(R, R.files[i]) THEN "C18.ModifiedWhileBlocked"
      ELSE IF \E i \in M : R.files[i].limit THEN "C18.ModifiedAtLoopLimit"
      ELSE IF \E i \in FI(R) : MustReportUnfixable(R, R.files[i]) /\ e.left[i] > 0 THEN "C18.LoopLimitNotReportedUnfixable"
      ELSE "ok"

C22Clause(e) ==
   LET R == RunAt(e)
       M == ToSet(e.modified)
   IN IF R.usage # "none" THEN (IF e.exit # NONE /\ e.exit \notin ExitSet(R) THEN "C22.ExitUsage"
                                ELSE IF M # {} THEN "C22.UsageErrorModified" ELSE "ok")
      ELSE IF SkippedCount(R) > 0 THEN "ok"          \* runs with an oversized file are judged by C34's clauses
      ELSE IF e.exit # NONE /\ e.exit \notin ExitSet(R) THEN (IF R.cmd = "lint" THEN "C22.ExitLint" ELSE "C22.ExitFix")
      ELSE IF \E i \in FI(R) : MustModify(R, R.files[i]) /\ i \notin M THEN "C22.FixableNotFixed"
      ELSE IF R.cmd = "lint" /\ M # {} THEN "C22.LintModified"
      ELSE "ok"

C34Clause(e) ==
   LET R == RunAt(e)
       M == ToSet(e.modified)
       S == {i \in FI(R) : R.files[i].skipped}
   IN IF R.usage # "none" THEN "ok"             \* a usage error stops before any file is looked at (C22)
      ELSE IF S \cap M # {} THEN "C34.SkippedRewritten"
      ELSE IF e.touched_known /\ S \cap ToSet(e.touched) # {} THEN "C34.SkippedParsed"
      ELSE IF e.touched_known /\ \E i \in FI(R) \ S : ~R.files[i].notree /\ i \notin ToSet(e.touched) THEN "C34.UndersizedNotProcessed"
      ELSE IF e.skipped # NONE /\ e.skipped # SkippedCount(R) THEN "C34.SkippedCounted"
      \* the exit status of a run in which nothing is oversized is C22's business
      ELSE IF e.exit # NONE /\ S # {} /\ e.exit \notin ExitSet(R) THEN "C34.ExitOnlyWithSkipFail"
      ELSE "ok"

\* C19: every observation against the first one of the trace (the CLI path run)
C19Clause(e) ==
   LET f == T.events[1]
   IN IF e.raised THEN "C19.ApiRaises"
      ELSE IF e.exit # NONE /\ f.exit # NONE /\ e.exit # f.exit THEN "C19.ExitAgree"
      ELSE IF e.viol_id # 0 /\ f.viol_id # 0 /\ e.viol_id # f.viol_id THEN "C19.ViolationsAgree"
      ELSE IF e.text_id # f.text_id THEN "C19.FixedTextAgree"
      ELSE "ok"

Clause == CASE Prop = "C18" -> C18Clause(Ev)
            [] Prop = "C19" -> C19Clause(Ev)
            [] Prop = "C22" -> C22Clause(Ev)
            [] Prop = "C34" -> C34Clause(Ev)
            [] OTHER -> "UnknownProperty"

NextTrace == tid' = tid + 1 /\ pc' = 0
TInit == tid = 1 /\ pc = 0 /\ rej = <<>> /\ nacc = 0 /\ fin = FALSE /\ done = FALSE /\ sc = 0
Step == /\ tid <= Len(Traces) /\ pc < Len(T.events)
        /\ IF Clause = "ok" THEN pc' = pc + 1 /\ UNCHANGED <<tid, rej, nacc, fin, sc, done>>
           ELSE /\ rej' = Append(rej, [id |-> T.id, step |-> pc + 1, clause |-> Clause])
                /\ NextTrace /\ UNCHANGED <<nacc, fin, sc, done>>
EndTrace == /\ tid <= Len(Traces) /\ pc = Len(T.events)
            /\ nacc' = nacc + 1 /\ NextTrace /\ UNCHANGED <<rej, fin, sc, done>>
Finish == /\ tid = Len(Traces) + 1 /\ ~fin /\ fin' = TRUE
          /\ PrintT(ToJson([accepted |-> nacc, rejected |-> rej]))
          /\ UNCHANGED <<tid, pc, rej, nacc, sc, done>>
TraceNext == Step \/ EndTrace \/ Finish
TraceSpec == TInit /\ [][TraceNext]_tvars
=============================================================================
