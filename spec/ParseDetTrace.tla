-------------------------------- MODULE ParseDetTrace --------------------------------
(* C06 — parsing is deterministic and unaffected by parser optimisations or history.

   Contract: the parse result is a function of (rendered text, dialect, configuration) only.  One trace
   holds several `Parse` events for ONE such triple, each tagged with how it was obtained:
       mode \in {default, nocache, noprune, nocache_noprune, after_history, fresh_process, repeat}
   and carrying `result`, the recorder's interned id of the full result (tree with types, raws and
   positions plus the parse violations; for the grammar-level replay: the applied match as a tuple).
   Every event must carry the same id as the first one; the failing clause names the mode that differs. *)
EXTENDS Naturals, Sequences, TLC, Json, IOUtils, TLCExt

Traces == JsonDeserialize(IOEnv.VF_TRACES)
VARIABLES tid, pc, ref, rej, nacc, fin
vars == <<tid, pc, ref, rej, nacc, fin>>
T  == Traces[tid]
Ev == T.events[pc + 1]

Clause == IF Ev.ev = "Crash" THEN "ModeRaises_" \o Ev.mode
          ELSE IF pc > 0 /\ Ev.result # ref THEN "SameResult_" \o Ev.mode
          ELSE "ok"
NextTrace == tid' = tid + 1 /\ pc' = 0 /\ ref' = 0
Init == tid = 1 /\ pc = 0 /\ ref = 0 /\ rej = <<>> /\ nacc = 0 /\ fin = FALSE
Step == /\ tid <= Len(Traces) /\ pc < Len(T.events)
        /\ IF Clause = "ok" THEN pc' = pc + 1 /\ ref' = (IF pc = 0 THEN Ev.result ELSE ref) /\ UNCHANGED <<tid, rej, nacc, fin>>
           ELSE /\ rej' = Append(rej, [id |-> T.id, step |-> pc + 1, clause |-> Clause])
                /\ NextTrace /\ UNCHANGED <<nacc, fin>>
EndTrace == /\ tid <= Len(Traces) /\ pc = Len(T.events)
            /\ nacc' = nacc + 1 /\ NextTrace /\ UNCHANGED <<rej, fin>>
Finish == /\ tid = Len(Traces) + 1 /\ ~fin /\ fin' = TRUE
          /\ PrintT(ToJson([accepted |-> nacc, rejected |-> rej]))
          /\ UNCHANGED <<tid, pc, ref, rej, nacc>>
TraceNext == Step \/ EndTrace \/ Finish
TraceSpec == Init /\ [][TraceNext]_vars
======================================================================================
