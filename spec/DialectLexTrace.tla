--------------------------- MODULE DialectLexTrace ---------------------------
(* C29, loading and lexer clauses.  One trace per bundled dialect:
     "Load" : the dialect was imported and expanded (dialect_selector), its root segment is defined and it
              has lexer matchers;
     "Lex"  : one sample character (all of ASCII, two characters of every Unicode general category, a few
              notorious ones) lexed on its own by the dialect's lexer.
   Contract ("its lexer accepts any character, falling back to an unlexable token"): lexing never raises,
   is lossless, and a character no matcher knows comes out as an `unlexable` token reported by exactly one
   LXR violation per such token — and LXR violations arise from nothing else.                      *)
EXTENDS Naturals, Sequences, TLC, Json, IOUtils, TLCExt

Traces == JsonDeserialize(IOEnv.VF_TRACES)
VARIABLES tid, pc, rej, nacc, fin
vars == <<tid, pc, rej, nacc, fin>>
T  == Traces[tid]
Ev == T.events[pc + 1]

Clause ==
  CASE Ev.ev = "Load" -> IF ~Ev.loaded THEN "DialectLoads"
                         ELSE IF ~Ev.root_defined THEN "RootDefined"
                         ELSE IF Ev.nmatchers = 0 THEN "HasLexer" ELSE "ok"
    [] Ev.ev = "Lex"  -> IF Ev.crashed THEN "LexerAcceptsAnyCharacter"
                         ELSE IF ~Ev.lossless THEN "LexingIsLossless"
                         ELSE IF Ev.ntok < 1 THEN "CharacterBecomesAToken"
                         ELSE IF Ev.nlxr # Ev.nunlexable \/ Ev.nerr # Ev.nlxr THEN "UnlexableReportedAsLXR"
                         ELSE "ok"
    [] OTHER -> "UnknownEvent"

NextTrace == tid' = tid + 1 /\ pc' = 0
Init == tid = 1 /\ pc = 0 /\ rej = <<>> /\ nacc = 0 /\ fin = FALSE
Step == /\ tid <= Len(Traces) /\ pc < Len(T.events)
        /\ IF Clause = "ok" THEN pc' = pc + 1 /\ UNCHANGED <<tid, rej, nacc, fin>>
           ELSE /\ rej' = Append(rej, [id |-> T.id, step |-> pc + 1, clause |-> Clause])
                /\ NextTrace /\ UNCHANGED <<nacc, fin>>
EndTrace == /\ tid <= Len(Traces) /\ pc = Len(T.events)
            /\ nacc' = nacc + 1 /\ NextTrace /\ UNCHANGED <<rej, fin>>
Finish == /\ tid = Len(Traces) + 1 /\ ~fin /\ fin' = TRUE
          /\ PrintT(ToJson([accepted |-> nacc, rejected |-> rej]))
          /\ UNCHANGED <<tid, pc, rej, nacc>>
TraceNext == Step \/ EndTrace \/ Finish
TraceSpec == Init /\ [][TraceNext]_vars
=============================================================================
