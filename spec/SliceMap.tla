-------------------------------- MODULE SliceMap --------------------------------
(* C01, Algo layer — transcription of sqlfluff.core.parser.lexer._iter_segments (the loop that gives every
   lexed element its position in the source file) for hand-enumerated slice layouts.

   One TLC step = one iteration of the inner `for tfs in templated_file_slices[tfs_idx:]` loop.
   Variable roles are the code's: ei (element index), ti (tfs_idx), consumed (consumed_element_length),
   stash (stashed_source_idx, -1 = None), out (yielded segments).  Template block stack and Indent/Dedent
   metas are abstracted away: a zero-length slice yields one placeholder.

   The model does not assert the contract as INVARIANTs when used by the check: it *emits* every terminal
   behaviour (input layout + predicted token list), the harness feeds the same layout to the real
   _iter_segments, the real output is judged by the contract (LexTrace), and a difference between the real
   and the predicted output is reported as DRIFT.  The contract operators at the end of the module are used
   for the model-only run that shows which clauses the transcribed algorithm can violate.              *)
EXTENDS Naturals, Integers, Sequences, FiniteSets, TLC, Json

CONSTANTS MaxSlices,   \* slices per layout
          MaxT,        \* rendered length
          Emit,
          Fixed        \* TRUE: transcription of the repaired split/stash branches (see known_findings.json)

\* a slice shape: <<kind, source length, rendered length>>
Shapes == {<<"lit", 1, 1>>, <<"lit", 2, 2>>, <<"lit", 3, 3>>,
           <<"tmp", 3, 0>>, <<"tmp", 3, 1>>, <<"tmp", 3, 2>>, <<"tmp", 7, 1>>,
           <<"blk", 2, 0>>}
Plans == UNION {[1..n -> Shapes] : n \in 1..MaxSlices}

RECURSIVE SumTo(_, _, _)
SumTo(p, f, j) == IF j = 0 THEN 0 ELSE p[j][f] + SumTo(p, f, j - 1)
TLenOf(p) == SumTo(p, 3, Len(p))
Slices(p) == [i \in 1..Len(p) |->
               [type |-> p[i][1],
                s0 |-> SumTo(p, 2, i - 1), s1 |-> SumTo(p, 2, i),
                t0 |-> SumTo(p, 3, i - 1), t1 |-> SumTo(p, 3, i)]]

\* lexed elements: a composition of the rendered length into parts, each whitespace or not
RECURSIVE Comps(_)
Comps(n) == IF n = 0 THEN {<<>>}
            ELSE UNION {{<<[len |-> j, ws |-> w]>> \o c : c \in Comps(n - j), w \in BOOLEAN} : j \in 1..n}
RECURSIVE LenTo(_, _)
LenTo(c, j) == IF j = 0 THEN 0 ELSE c[j].len + LenTo(c, j - 1)
Elems(c) == [i \in 1..Len(c) |-> [t0 |-> LenTo(c, i - 1), t1 |-> LenTo(c, i), len |-> c[i].len, ws |-> c[i].ws]]

VARIABLES tfs, elems, ei, ti, consumed, stash, out, status
vars == <<tfs, elems, ei, ti, consumed, stash, out, status>>

MinOf(a, b) == IF a < b THEN a ELSE b
Clip(e, n) == MinOf(n, e.len)                   \* python slicing clips at the end of the string

Init == \E p \in Plans :
          /\ TLenOf(p) \in 1..MaxT
          /\ tfs = Slices(p)
          /\ \E c \in Comps(TLenOf(p)) : elems = Elems(c)
          /\ ei = 1 /\ ti = 1 /\ consumed = 0 /\ stash = -1 /\ out = <<>> /\ status = "run"

\* a yielded segment: source span, rendered span as passed to PositionMarker, and the text it really holds
Tok(kind, s0, s1, t0, t1, rawlen) ==
   [kind |-> kind, s0 |-> s0, s1 |-> s1, t0 |-> t0, t1 |-> t1, rawlen |-> rawlen]

NextElem == ei' = ei + 1 /\ consumed' = 0 /\ stash' = -1

Step ==
  /\ status = "run" /\ ei <= Len(elems)
  /\ UNCHANGED <<tfs, elems>>
  /\ IF ti > Len(tfs)
     THEN \* the inner for-loop is exhausted without a break: the element is not yielded at all
          /\ status' = "dropped" /\ UNCHANGED <<ei, ti, consumed, stash, out>>
     ELSE LET e == elems[ei]  f == tfs[ti]  off == f.s0 - f.t0
              \* rendered span handed to PositionMarker: the whole element (unchanged code) or the
              \* part actually held (repaired code)
              ta == IF Fixed THEN e.t0 + consumed ELSE e.t0
          IN
       IF f.t0 = f.t1 THEN                                          \* _handle_zero_length_slice
          /\ out' = Append(out, Tok("ph", f.s0, f.s1, f.t0, f.t1, 0))
          /\ ti' = ti + 1 /\ UNCHANGED <<ei, consumed, stash, status>>
       ELSE IF f.type = "lit" THEN
          IF e.t1 <= f.t1 THEN                                      \* "Consuming whole from literal"
             /\ out' = Append(out, Tok("tok", IF stash # -1 THEN stash ELSE e.t0 + consumed + off,
                                       e.t1 + off, ta, e.t1, e.len - Clip(e, consumed)))
             /\ ti' = IF e.t1 = f.t1 THEN ti + 1 ELSE ti
             /\ NextElem /\ UNCHANGED status
          ELSE IF e.t0 = f.t1 THEN                                  \* "Missed Skip"
             /\ ti' = ti + 1 /\ UNCHANGED <<ei, consumed, stash, out, status>>
          ELSE IF e.ws THEN                                         \* split whitespace
             IF stash # -1
             THEN IF Fixed THEN /\ ti' = ti + 1 /\ UNCHANGED <<ei, consumed, stash, out, status>>
                  ELSE status' = "notimplemented" /\ UNCHANGED <<ei, ti, consumed, stash, out>>
             ELSE LET incr == IF Fixed THEN f.t1 - (e.t0 + consumed) ELSE f.t1 - e.t0 IN
                /\ out' = Append(out, Tok("tok", e.t0 + consumed + off, f.t1 + off, ta,
                                          IF Fixed THEN f.t1 ELSE e.t1,
                                          Clip(e, consumed + incr) - Clip(e, consumed)))
                /\ consumed' = consumed + incr
                /\ ti' = ti + 1 /\ UNCHANGED <<ei, stash, status>>
          ELSE                                                      \* "Spilling over literal slice"
             /\ stash' = IF stash = -1 THEN e.t0 + off ELSE stash
             /\ ti' = ti + 1 /\ UNCHANGED <<ei, consumed, out, status>>
       ELSE IF f.type = "tmp" THEN
          IF e.t1 <= f.t1 THEN                                      \* "Contained templated slice"
             /\ out' = Append(out, Tok("tok", IF stash # -1 THEN stash
                                               ELSE IF Fixed THEN f.s0 ELSE f.s0 + consumed,
                                       f.s1, ta, e.t1, e.len - Clip(e, consumed)))
             /\ ti' = IF e.t1 = f.t1 THEN ti + 1 ELSE ti
             /\ NextElem /\ UNCHANGED status
          ELSE                                                      \* "Spilling over templated slice"
             /\ stash' = IF stash = -1 THEN f.s0 ELSE stash
             /\ ti' = ti + 1 /\ UNCHANGED <<ei, consumed, out, status>>
       ELSE /\ status' = "notimplemented" /\ UNCHANGED <<ei, ti, consumed, stash, out>>

\* "If templated elements are left, yield them" — trailing zero-length slices
Drain == /\ status = "run" /\ ei = Len(elems) + 1 /\ ti <= Len(tfs)
         /\ out' = Append(out, Tok("ph", tfs[ti].s0, tfs[ti].s1, tfs[ti].t0, tfs[ti].t1, 0))
         /\ ti' = ti + 1 /\ UNCHANGED <<tfs, elems, ei, consumed, stash, status>>
Finish == /\ status = "run" /\ ei = Len(elems) + 1 /\ ti > Len(tfs)
          /\ status' = "done" /\ UNCHANGED <<tfs, elems, ei, ti, consumed, stash, out>>
EmitCase == /\ Emit /\ status \in {"done", "dropped", "notimplemented"}
            /\ status' = "emitted_" \o status
            /\ PrintT(ToJson([tfs |-> tfs, elems |-> elems, out |-> out, status |-> status]))
            /\ UNCHANGED <<tfs, elems, ei, ti, consumed, stash, out>>
Next == Step \/ Drain \/ Finish \/ EmitCase
Spec == Init /\ [][Next]_vars

---------------------------------------------------------------------------------
(* Contract (C01) on what has been yielded so far — for the model-only run. *)
SrcLen == tfs[Len(tfs)].s1
RLen   == tfs[Len(tfs)].t1
Toks   == SelectSeq(out, LAMBDA x : x.kind = "tok")
RECURSIVE SumRaw(_)
SumRaw(s) == IF s = <<>> THEN 0 ELSE Head(s).rawlen + SumRaw(Tail(s))

NoCrash       == status \notin {"dropped", "notimplemented", "emitted_dropped", "emitted_notimplemented"}
SrcInBounds   == \A j \in 1..Len(out) : 0 <= out[j].s0 /\ out[j].s0 <= out[j].s1 /\ out[j].s1 <= SrcLen
NoEmptyToken  == \A j \in 1..Len(out) : out[j].kind = "tok" => out[j].rawlen >= 1
Lossless      == status \in {"done", "emitted_done"} => SumRaw(Toks) = RLen
TmplSpanExact == \A j \in 1..Len(out) : out[j].kind = "tok" => out[j].t1 - out[j].t0 = out[j].rawlen
TmplContiguous == \A j \in 1..(Len(Toks) - 1) : Toks[j].t1 = Toks[j + 1].t0
LiteralExact  == \A j \in 1..Len(out) : out[j].kind = "tok" =>
                   \A i \in 1..Len(tfs) :
                      (tfs[i].type = "lit" /\ tfs[i].t0 <= out[j].t0 /\ out[j].t0 + out[j].rawlen <= tfs[i].t1
                         /\ out[j].t1 - out[j].t0 = out[j].rawlen)
                         => /\ out[j].s0 = out[j].t0 + (tfs[i].s0 - tfs[i].t0)
                            /\ out[j].s1 = out[j].s0 + out[j].rawlen
=================================================================================
