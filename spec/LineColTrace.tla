---------------------------- MODULE LineColTrace ----------------------------
(* Code -> spec validation for C31 / C23: every recorded call
      get_line_pos_of_char_pos(char_pos) = (line, col)
   of the real TemplatedFile must satisfy the contract.  The text is passed as the list of its line
   lengths (obtained by the recorder with str.split, independently of the newline index the code
   builds), so the contract takes the relational form

      line \in 1..#lines  /\  col \in 1..len[line]+1  /\  p = (sum of len[1..line-1]) + (line-1) + (col-1)

   which has exactly one solution for each p \in 0..len(text) and is therefore equivalent to
   LineCol!CLine / CCol.  (TLC checks that equivalence on small strings: see LineColEquiv.)     *)
EXTENDS Naturals, Integers, Sequences, TLC, Json, IOUtils, TLCExt

Traces == JsonDeserialize(IOEnv.VF_TRACES)
VARIABLES tid, pc, rej, nacc, fin
vars == <<tid, pc, rej, nacc, fin>>

T  == Traces[tid]
Ev == T.events[pc + 1]

RECURSIVE SumTo(_, _)
SumTo(L, k) == IF k = 0 THEN 0 ELSE L[k] + SumTo(L, k - 1)

Clause == LET L == T.lens IN
          IF ~(Ev.p >= 0 /\ Ev.p <= SumTo(L, Len(L)) + Len(L) - 1) THEN "OffsetInText"
          ELSE IF ~(Ev.line >= 1 /\ Ev.line <= Len(L)) THEN "LineInFile"
          ELSE IF ~(Ev.col >= 1 /\ Ev.col <= L[Ev.line] + 1) THEN "ColInLine"
          ELSE IF Ev.p # SumTo(L, Ev.line - 1) + (Ev.line - 1) + (Ev.col - 1) THEN "OffsetMatches"
          ELSE "ok"

NextTrace == tid' = tid + 1 /\ pc' = 0
Init == tid = 1 /\ pc = 0 /\ rej = <<>> /\ nacc = 0 /\ fin = FALSE
Step == /\ tid <= Len(Traces) /\ pc < Len(T.events)
        /\ IF Clause = "ok" THEN pc' = pc + 1 /\ UNCHANGED <<tid, rej, nacc, fin>>
           ELSE /\ rej' = Append(rej, [id |-> T.id, step |-> pc + 1, clause |-> Clause])
                /\ NextTrace /\ UNCHANGED <<nacc, fin>>
EndTrace == /\ tid <= Len(Traces) /\ pc = Len(T.events)
            /\ nacc' = nacc + 1 /\ NextTrace /\ UNCHANGED <<rej, fin>>
Finish == /\ tid = Len(Traces) + 1 /\ ~fin /\ fin' = TRUE
          /\ PrintT(ToJson([accepted |-> nacc, rejected |-> rej]))
          /\ UNCHANGED <<tid, pc, rej, nacc>>
TraceNext == Step \/ EndTrace \/ Finish
TraceSpec == Init /\ [][TraceNext]_vars
=============================================================================
