---------------------------- MODULE AtomicWriteObs ----------------------------
(* Spec -> code replay, verdict side.  Every plan enumerated by AtomicWrite is replayed on the real
   _safe_create_replace_file / persist_tree / lint_paths by fault injection; the harness projects the
   directory afterwards (names, body classes, modes) into an observation.  One trace = one replayed plan,
   with a single event carrying the observation; the verdict is AtomicWriteOps!ObsClause, i.e. the same
   contract the model is checked against.                                                             *)
EXTENDS AtomicWriteOps, TLC, Json, IOUtils, TLCExt

Traces == JsonDeserialize(IOEnv.VF_TRACES)
VARIABLES tid, pc, rej, nacc, fin
vars == <<tid, pc, rej, nacc, fin>>

T  == Traces[tid]
Ev == T.events[pc + 1]
Clause == ObsClause(Ev.obs)

NextTrace == tid' = tid + 1 /\ pc' = 0
Init == tid = 1 /\ pc = 0 /\ rej = <<>> /\ nacc = 0 /\ fin = FALSE
Step == /\ tid <= Len(Traces) /\ pc < Len(T.events)
        /\ IF Clause = "ok" THEN pc' = pc + 1 /\ UNCHANGED <<tid, rej, nacc, fin>>
           ELSE /\ rej' = Append(rej, [id |-> T.id, step |-> pc + 1, clause |-> Clause])
                /\ NextTrace /\ UNCHANGED <<nacc, fin>>
EndTrace == /\ tid <= Len(Traces) /\ pc = Len(T.events)
            /\ nacc' = nacc + 1 /\ NextTrace /\ UNCHANGED <<rej, fin>>
Finish == /\ tid = Len(Traces) + 1 /\ ~fin /\ fin' = TRUE
          /\ PrintT(ToJson([accepted |-> nacc, rejected |-> rej]))
          /\ UNCHANGED <<tid, pc, rej, nacc>>
TraceNext == Step \/ EndTrace \/ Finish
TraceSpec == Init /\ [][TraceNext]_vars
=============================================================================
