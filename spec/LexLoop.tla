-------------------------------- MODULE LexLoop --------------------------------
(* C01, Algo layer — the matcher loop of PyLexer.lex / lex_match (core/parser/lexer.py) over abstract
   characters, and the small-scope string enumerator for the spec -> code replay.

   Characters are symbols 1..NChars; symbols 1, 2, 3 stand for tab, newline and space (the three characters
   the last-resort regex [^\t\n\ ]* refuses), the others for whatever the harness maps them to (quotes,
   comment openers, control characters, NBSP, U+2028, BOM, astral plane, letters, digits, operators).
   The dialect's matchers are abstracted to a nondeterministic choice "the first matcher that matches
   takes n >= 1 characters"; assumption A2 says some dialect matcher matches each of tab / newline / space
   (an obligation on every dialect, checked on the real lexers by the C29 and C01 harness).

   Actions
     DialectMatch(n)  lex_match: a dialect matcher consumes n characters (always possible on whitespace
                      under A2; may or may not be possible elsewhere)
     LastResort       no dialect matcher matches: the last-resort regex takes the maximal run of
                      non-whitespace characters
     Fatal            last resort matched nothing -> SQLLexError (reachable only without A2)
   Properties: Lossless (elements ++ rest = input at every step), NoFatal, Terminates (rest shrinks).  *)
EXTENDS Naturals, Sequences, TLC, Json

CONSTANTS NChars, MaxLen, A2, Emit
Chars == 1..NChars
IsWs(c) == c \in {1, 2, 3}
Str == UNION {[1..n -> Chars] : n \in 0..MaxLen}

VARIABLES input, rest, elems, status
vars == <<input, rest, elems, status>>

RECURSIVE Flat(_)
Flat(es) == IF es = <<>> THEN <<>> ELSE Head(es).raw \o Flat(Tail(es))

\* longest prefix of non-whitespace characters
RECURSIVE NonWsRun(_)
NonWsRun(s) == IF s = <<>> \/ IsWs(Head(s)) THEN 0 ELSE 1 + NonWsRun(Tail(s))

Init == /\ input \in Str /\ rest = input /\ elems = <<>> /\ status = "run"

DialectMatch(n) ==
   /\ status = "run" /\ rest # <<>> /\ n \in 1..Len(rest)
   /\ elems' = Append(elems, [raw |-> SubSeq(rest, 1, n), kind |-> "dialect"])
   /\ rest' = SubSeq(rest, n + 1, Len(rest))
   /\ UNCHANGED <<input, status>>
\* lex_match returned with a non-empty forward string: no dialect matcher matches at Head(rest)
LastResort ==
   /\ status = "run" /\ rest # <<>>
   /\ (A2 => ~IsWs(Head(rest)))               \* under A2 this point is never reached on whitespace
   /\ LET n == NonWsRun(rest) IN
      IF n = 0 THEN status' = "fatal" /\ UNCHANGED <<input, rest, elems>>
      ELSE /\ elems' = Append(elems, [raw |-> SubSeq(rest, 1, n), kind |-> "unlexable"])
           /\ rest' = SubSeq(rest, n + 1, Len(rest))
           /\ UNCHANGED <<input, status>>
Done == /\ status = "run" /\ rest = <<>> /\ status' = "done" /\ UNCHANGED <<input, rest, elems>>
EmitStr == /\ Emit /\ status = "done" /\ status' = "emitted"
           /\ (elems = <<>> \/ \A i \in 1..Len(elems) : Len(elems[i].raw) = 1)   \* one emission per input
           /\ PrintT(ToJson([s |-> input]))
           /\ UNCHANGED <<input, rest, elems>>
Next == (\E n \in 1..MaxLen : DialectMatch(n)) \/ LastResort \/ Done \/ EmitStr
Spec == Init /\ [][Next]_vars

Lossless  == Flat(elems) \o rest = input
NoFatal   == status # "fatal"
NoEmpty   == \A i \in 1..Len(elems) : elems[i].raw # <<>>
Progress  == [][status = "run" /\ status' = "run" => Len(rest') < Len(rest)]_vars
=================================================================================
