---------------------------------- MODULE TokSeq ----------------------------------
(* Small-scope input space for the parser properties (C02, C03, C04): every sequence of at most MaxLen
   words over a vocabulary of NWords SQL words, enumerated completely by TLC and parsed for real in
   several dialects.  The harness maps word k to its text (keywords, identifiers, literals, brackets,
   operators, comma, semicolon) and joins with single spaces.                                      *)
EXTENDS Naturals, Sequences, TLC, Json
CONSTANTS NWords, MaxLen
VARIABLES seq, emitted
Init == seq = <<>> /\ emitted = FALSE
Add(w) == ~emitted /\ Len(seq) < MaxLen /\ seq' = Append(seq, w) /\ UNCHANGED emitted
EmitIt == ~emitted /\ seq # <<>> /\ emitted' = TRUE /\ PrintT(ToJson(seq)) /\ UNCHANGED seq
Next == (\E w \in 1..NWords : Add(w)) \/ EmitIt
Spec == Init /\ [][Next]_<<seq, emitted>>
Bounded == Len(seq) <= MaxLen
===================================================================================
