--------------------------- MODULE AtomicWriteTrace ---------------------------
(* Code -> spec validation for C26: the system calls of a real `sqlfluff fix` subprocess
   (strace -f -e trace=file,desc), one trace per file the run replaced.  The harness keeps, in order, the
   calls that touch (a) the path that ends up renamed onto the output, from its creation on, and (b) the
   input and output paths themselves when opened for writing, truncated or unlinked.

     event = [op, role, ...]   op   \in open | write | fsync | close | chmod | rename | unlink | openw | truncate
                               role \in "tmp" | "target" (the output path) | "input" (with a suffix: the original)
     open : same_dir, excl     write : n (bytes)     chmod : mode     rename : dst \in "target" | "input" | "other"
     trace = [id, omode, size, suffix, events]

   A trace is accepted when it is a behaviour of the success path of AtomicWrite: the visible operations
   appear in the order AtomicWriteOps!SysOrder (writes may repeat), the temp file is created exclusively in
   the output's directory, all `size` bytes are written before the fsync, the fsync precedes close, chmod
   (to the original's mode) and the rename onto the output, and neither the output nor the original is ever
   opened for writing, truncated or unlinked.                                                            *)
EXTENDS AtomicWriteOps, TLC, Json, IOUtils, TLCExt

ASSUME IsSubSeq(SysOrder, MainOps)

Traces == JsonDeserialize(IOEnv.VF_TRACES)
VARIABLES tid, pc, rej, nacc, fin, k, nbytes      \* k = number of SysOrder operations completed
vars == <<tid, pc, rej, nacc, fin, k, nbytes>>

T  == Traces[tid]
Ev == T.events[pc + 1]
Idx(op) == CHOOSE i \in 1..Len(SysOrder) : SysOrder[i] = op
Expected(op) == k + 1 = Idx(op) \/ (op = "write" /\ k = Idx("write"))

Clause ==
  IF Ev.role \in {"target", "input"} /\ Ev.op \in {"openw", "truncate", "write", "unlink"} THEN "TargetNeverOpenedForWriting"
  ELSE IF Ev.op \notin {SysOrder[i] : i \in 1..Len(SysOrder)} THEN "UnexpectedOperation"
  ELSE IF Ev.role # "tmp" THEN "UnexpectedOperation"
  ELSE IF ~Expected(Ev.op) THEN
       (IF Ev.op = "rename" THEN "WrittenSyncedAndModedBeforeRename"
        ELSE IF Ev.op = "fsync" THEN "DataWrittenBeforeSync"
        ELSE IF Ev.op = "close" /\ k = Idx("write") THEN "SyncedBeforeClose" ELSE "OpOrder")
  ELSE IF Ev.op = "open" /\ ~(Ev.same_dir /\ Ev.excl) THEN "TempInSameDir"
  ELSE IF Ev.op = "fsync" /\ nbytes # T.size THEN "CompleteBeforeSync"
  ELSE IF Ev.op = "chmod" /\ Ev.mode # T.omode THEN "ModePreserved"
  ELSE IF Ev.op = "rename" /\ Ev.dst # "target" THEN "RenameOntoTarget"
  ELSE "ok"

NextTrace == tid' = tid + 1 /\ pc' = 0 /\ k' = 0 /\ nbytes' = 0
Init == tid = 1 /\ pc = 0 /\ rej = <<>> /\ nacc = 0 /\ fin = FALSE /\ k = 0 /\ nbytes = 0
Step == /\ tid <= Len(Traces) /\ pc < Len(T.events)
        /\ IF Clause = "ok"
           THEN /\ pc' = pc + 1 /\ k' = Idx(Ev.op)
                /\ nbytes' = (IF Ev.op = "write" THEN nbytes + Ev.n ELSE nbytes)
                /\ UNCHANGED <<tid, rej, nacc, fin>>
           ELSE /\ rej' = Append(rej, [id |-> T.id, step |-> pc + 1, clause |-> Clause])
                /\ NextTrace /\ UNCHANGED <<nacc, fin>>
\* end of trace: the rename must have happened
EndTrace == /\ tid <= Len(Traces) /\ pc = Len(T.events)
            /\ IF k = Len(SysOrder) THEN nacc' = nacc + 1 /\ rej' = rej
               ELSE nacc' = nacc /\ rej' = Append(rej, [id |-> T.id, step |-> pc, clause |-> "ReplacedByRename"])
            /\ NextTrace /\ UNCHANGED fin
Finish == /\ tid = Len(Traces) + 1 /\ ~fin /\ fin' = TRUE
          /\ PrintT(ToJson([accepted |-> nacc, rejected |-> rej]))
          /\ UNCHANGED <<tid, pc, rej, nacc, k, nbytes>>
TraceNext == Step \/ EndTrace \/ Finish
TraceSpec == Init /\ [][TraceNext]_vars
=============================================================================
