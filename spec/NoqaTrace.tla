------------------------------ MODULE NoqaTrace ------------------------------
(* Code -> spec validation for C20.  One trace = one real lint of a generated file, recorded at the
   returns of IgnoreMask.from_tree (event "Parsed"), LintedFile.get_violations (event "Mask", with the
   directives' `used` marks read afterwards), and a lint with disable_noqa (event "Off": every planted
   violation must be reported; what that run reports is the unmasked violation set `viols`).
   The contract is Noqa!Hidden / MustUsed / MayUsed evaluated on the trace's own directives and on the
   violations the run itself reported before masking.                                               *)
EXTENDS Noqa, IOUtils, TLCExt

Traces == JsonDeserialize(IOEnv.VF_TRACES)
VARIABLES tid, pc, rej, nacc, fin
tvars == <<tid, pc, rej, nacc, fin, dirs, viols, done>>

T  == Traces[tid]
Ev == T.events[pc + 1]
DirsOf(t)  == [i \in 1..Len(t.dirs) |-> [line |-> t.dirs[i].line, kind |-> t.dirs[i].kind,
                                          rules |-> ToSet(t.dirs[i].rules)]]
Load(k) == IF k <= Len(Traces) THEN dirs' = DirsOf(Traces[k]) /\ viols' = ToSet(Traces[k].viols)
           ELSE dirs' = <<>> /\ viols' = {}

Clause ==
  CASE Ev.ev = "Parsed" -> IF DirsOf([dirs |-> Ev.dirs]) # dirs THEN "DirectivesParsed" ELSE "ok"
    [] Ev.ev = "Mask"   -> IF ToSet(Ev.kept) # {v \in viols : ~Hidden(v)} THEN "KeptIsComplementOfHidden"
                           ELSE IF \E i \in DI : MustUsed(i) /\ ~Ev.used[i] THEN "UsedWhenOnlyHider"
                           ELSE IF \E i \in DI : Ev.used[i] /\ ~MayUsed(i) THEN "UnusedWhenHidNothing"
                           ELSE "ok"
    [] Ev.ev = "Off"    -> IF ~(ToSet(T.planted) \subseteq ToSet(Ev.kept)) THEN "DisabledHidesNothing" ELSE "ok"
    [] OTHER -> "UnknownEvent"

NextTrace == tid' = tid + 1 /\ pc' = 0 /\ Load(tid + 1)
TInit == /\ tid = 1 /\ pc = 0 /\ rej = <<>> /\ nacc = 0 /\ fin = FALSE /\ done = FALSE
         /\ dirs = (IF Len(Traces) >= 1 THEN DirsOf(Traces[1]) ELSE <<>>)
         /\ viols = (IF Len(Traces) >= 1 THEN ToSet(Traces[1].viols) ELSE {})
Step == /\ tid <= Len(Traces) /\ pc < Len(T.events)
        /\ IF Clause = "ok" THEN pc' = pc + 1 /\ UNCHANGED <<tid, rej, nacc, fin, dirs, viols, done>>
           ELSE /\ rej' = Append(rej, [id |-> T.id, step |-> pc + 1, clause |-> Clause])
                /\ NextTrace /\ UNCHANGED <<nacc, fin, done>>
EndTrace == /\ tid <= Len(Traces) /\ pc = Len(T.events)
            /\ nacc' = nacc + 1 /\ NextTrace /\ UNCHANGED <<rej, fin, done>>
Finish == /\ tid = Len(Traces) + 1 /\ ~fin /\ fin' = TRUE
          /\ PrintT(ToJson([accepted |-> nacc, rejected |-> rej]))
          /\ UNCHANGED <<tid, pc, rej, nacc, dirs, viols, done>>
TraceNext == Step \/ EndTrace \/ Finish
TraceSpec == TInit /\ [][TraceNext]_tvars
=============================================================================
