----------------------------- MODULE DialectGraph -----------------------------
(* C29 — every grammar reference reachable from a dialect's root resolves.

   The model is *extracted*: for each bundled dialect, harness/vf/dialect_graph.py walks the expanded
   library (Dialect.expand) and writes the data below as one JSON document, read once at start-up through
   IOEnv.VF_GRAPH (TLC's cfg files cannot hold tuples, and SANY needs minutes for a generated 1.5 MB
   module; the JSON reader needs a second).  One entry per dialect:
     NameOf[d]    names; ids 1..NDefined[d] are the defined elements (library entries, plus one pseudo
                  element "@bracket_pairs" / "@angle_bracket_pairs" per bracket set), larger ids are names
                  that are referenced somewhere but not defined
     EdgesOf[d][n] ids referenced from inside the definition of element n: Ref._ref anywhere below its
                  `_elements`, `terminators`, `exclude`, `delimiter`, a segment's `match_grammar`, the bracket
                  set a Bracketed/Delimited names (keyword references are Refs to "<Kw>KeywordSegment")
     RootOf[d]    the root segment;  ObservedOf[d] = ids of the names the real parser asked Dialect.ref for
                  while parsing fixture files of that dialect (0 = a name the extractor never saw)

   Contract: Resolves(n) for every n reachable from the root — Dialect.ref(name) finds `name` in the library
   (anything else raises RuntimeError out of the parser).
   Exploration: one Visit step per grammar element (deterministic worklist), so a behaviour is the whole
   reachability computation of one dialect; `dangling` collects every reachable (element, reference) pair that
   does not resolve, and Finish emits them all (the run must not stop at the first one).
   Binding to the code: ObservedOf[d] \subseteq seen — a name the parser really resolved that the model does
   not reach means the extractor missed an edge (reported as `unexplained`, a machinery failure).   *)
EXTENDS Naturals, Sequences, FiniteSets, TLC, Json, IOUtils, FiniteSetsExt, SequencesExt

Data       == JsonDeserialize(IOEnv.VF_GRAPH)
Dialects   == Data.Dialects
NDefined   == Data.NDefined
RootOf     == Data.RootOf
NameOf     == Data.NameOf
EdgesOf    == Data.EdgesOf        \* JSON arrays: EdgesOf[d][n] is a sequence of ids
ObservedOf == Data.ObservedOf

VARIABLES d,         \* dialect index
          todo,      \* reached, not yet visited
          seen,      \* reached
          dangling,  \* <<element, reference>> pairs reached that do not resolve
          done
vars == <<d, todo, seen, dangling, done>>

Resolves(n)  == n >= 1 /\ n <= NDefined[d]
Edges(n)     == ToSet(EdgesOf[d][n])
Name(n)      == NameOf[d][n]

Init == /\ d \in 1..Len(Dialects)
        /\ todo = {RootOf[d]} /\ seen = {RootOf[d]} /\ dangling = {} /\ done = FALSE
Visit == /\ ~done /\ todo # {}
         /\ LET n == CHOOSE x \in todo : TRUE IN     \* TLC picks deterministically; any order reaches the same sets
            IF Resolves(n)
            THEN /\ todo' = (todo \ {n}) \cup (Edges(n) \ seen)
                 /\ seen' = seen \cup Edges(n)
                 /\ dangling' = dangling \cup {<<n, m>> : m \in {x \in Edges(n) : ~Resolves(x)}}
            ELSE /\ todo' = todo \ {n} /\ UNCHANGED <<seen, dangling>>      \* nothing below an undefined name
         /\ UNCHANGED <<d, done>>
Finish == /\ ~done /\ todo = {} /\ done' = TRUE
          /\ PrintT(ToJson([dialect     |-> Dialects[d],
                            reachable   |-> Cardinality(seen),
                            defined     |-> NDefined[d],
                            dangling    |-> SetToSeq({[from |-> Name(p[1]), to |-> Name(p[2])] : p \in dangling}),
                            unexplained |-> SetToSeq(ToSet(ObservedOf[d]) \ seen),
                            observed    |-> Len(ObservedOf[d])]))
          /\ UNCHANGED <<d, todo, seen, dangling>>
Next == Visit \/ Finish
Spec == Init /\ [][Next]_vars

\* The property.  It is *evaluated* by Finish (which lists every violation) rather than declared as an
\* INVARIANT of the run, because TLC stops at the first violated invariant.
ReferencesResolve == \A n \in seen : Resolves(n)
\* sanity of the extracted data
TypeOK == /\ Len(NDefined) = Len(Dialects) /\ Len(RootOf) = Len(Dialects) /\ Len(EdgesOf) = Len(Dialects)
          /\ Resolves(RootOf[d]) /\ Len(EdgesOf[d]) = NDefined[d]
          /\ \A n \in seen : n \in 1..Len(NameOf[d])
          /\ \A p \in dangling : p[1] \in seen /\ p[2] \in seen /\ Resolves(p[1]) /\ ~Resolves(p[2])
===============================================================================
