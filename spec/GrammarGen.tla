--------------------------------- MODULE GrammarGen ---------------------------------
(* Small-scope space of grammars for C06 (parse results do not depend on the parse cache or on first-token
   pruning): every grammar term up to a nesting depth over the combinators of the real engine, in prefix
   notation (a sequence of strings, so that all terms are comparable values):

      kw k            StringParser(k, KeywordSegment)            k \in {"A", "B", "C"}
      seq x y         Sequence(x, y)                  gseq x y   Sequence(x, y, parse_mode=GREEDY)
      oneof x y       OneOf(x, y)                     any x      AnyNumberOf(x)
      opt x y         Sequence(Sequence(x, optional=True), y)
      delim x         Delimited(x, delimiter=StringParser("C"))
      term x k        OneOf(x, terminators=[StringParser(k)])   — terminators change what inner greedy matches see

   TLC enumerates the terms (Depth 1 or 2; at depth 2 the children range over Kids) and prints them; the
   harness builds each with the real grammar classes and matches every token string up to a length bound
   in four modes (default / cache off / pruning off / both), and ParseDetTrace requires equal results.   *)
EXTENDS Naturals, Sequences, TLC, Json

CONSTANTS Depth, Rich           \* Rich = TRUE: depth-2 children range over all depth-1 terms
KW == {"A", "B", "C"}
L0 == {<<"kw", k>> : k \in KW}
Un(op, S)     == {<<op>> \o x : x \in S}
Bin(op, S, T) == {<<op>> \o x \o y : x \in S, y \in T}
TermOf(S)     == {<<"term">> \o x \o <<k>> : x \in S, k \in {"B", "C"}}
Level(S, K) == Bin("seq", S, K) \cup Bin("gseq", S, K) \cup Bin("oneof", S, K) \cup Bin("opt", S, K)
               \cup Un("any", S) \cup Un("delim", S) \cup TermOf(S)
L1 == L0 \cup Level(L0, L0)
Kids == IF Rich THEN L1 ELSE L0 \cup Un("any", L0) \cup Bin("oneof", L0, L0) \cup Un("delim", {<<"kw", "A">>})
                             \cup Bin("gseq", {<<"kw", "A">>}, {<<"kw", "B">>})
L2 == L1 \cup Level(Kids, Kids)
Terms == IF Depth = 1 THEN L1 ELSE L2

VARIABLES term, emitted
Init == term \in Terms /\ emitted = FALSE
EmitIt == ~emitted /\ emitted' = TRUE /\ PrintT(ToJson(term)) /\ UNCHANGED term
Next == EmitIt
Spec == Init /\ [][Next]_<<term, emitted>>
WellFormed == Len(term) >= 2
=====================================================================================
