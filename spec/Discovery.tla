------------------------------- MODULE Discovery -------------------------------
(* C25 — file discovery honours ignore files regardless of path spelling.

   Contract layer : MustApply / MayApply (which ignore files are applicable), MustIgnored / MayIgnored,
                    MustSelect(q) \subseteq result \subseteq MaySelect(q), SpellingInvariant.
   Algo layer     : core/linter/discovery.py paths_from_path as written:
                    outer specs = iter_intermediate_paths(target, working_path) (helpers/file.py),
                    _process_exact_path, _iter_files_in_path (os.walk top-down, inner specs kept only while
                    `dirname == inner_dirname or dirname.startswith(abspath(inner_dirname) + sep)`,
                    sub-directory pruning with the `<subdir>/*` pseudo path, per-file checks).
   A world is a directory tree below a root R (directories = sequences of names), the same three files in
   every directory, and a set of ignore entries (directory, kind of ignore file, pattern set).  A query is
   (working directory, target path, spelling of the path, configured extensions).

   Pattern matching is *not* modelled: pathspec is trusted and its verdicts are supplied as three tables
   (JSON file named by the environment variable VF_MATCH, computed by the harness with pathspec itself):
     file : <<pattern id, relative file path>>       pathspec.match_file(rel)          (contract + Algo)
     dir  : <<pattern id, relative directory path>>  pathspec.match_file(rel + "/")    (contract: the
            gitignore rule that nothing below an excluded directory can be re-included; only widens May)
     star : <<pattern id, relative directory path>>  pathspec.match_file(rel + "/*")   (Algo: pruning hack)

   Readings (weakest reasonable; DESIGN.md §5 C25):
   * "ancestor directory" = the chain from the working directory down to the file's directory; ignore
     files above the working directory are unspecified (either behaviour allowed).  Directories between the
     given path and the file always apply.
   * "configured SQL extension": exact suffix match must select, a match that differs only in letter case
     may select.
   * A file below a directory that the pattern set excludes *as a directory* may be dropped even where
     pathspec does not match the file itself (negated patterns).                                        *)
EXTENDS Naturals, Sequences, FiniteSets, TLC, Json, IOUtils, FiniteSetsExt, SequencesExt

CONSTANTS MaxDepth,     \* directories nest at most MaxDepth deep below the root
          MaxIgn,       \* at most MaxIgn ignore files in the tree
          Kinds,        \* subset of {".sqlfluffignore", ".sqlfluff", "pyproject.toml"}
          Pats,         \* pattern-set ids (keys of the VF_MATCH tables)
          ExtChoices,   \* set of configured extension sets, e.g. {{".sql"}, {".sql", ".txt"}}
          AllShapes,    \* TRUE: every prefix-closed tree; FALSE: only the complete tree
          CwdNames,     \* working directories: "" = the root, any other string = that child of the root
          FixInnerKeep  \* TRUE: retention test on absolute paths (the code since 3c3752e); FALSE: the pre-fix test (F1)

Cwds      == {IF c = "" THEN <<>> ELSE <<c>> : c \in CwdNames}
Names     == <<"a", "ab">>           \* "a" is a string prefix of "ab": the `+ os.sep` in the code matters
FileNames == {"x.sql", "n.txt", "U.SQL"}
FileExt   == [n \in FileNames |-> CASE n = "x.sql" -> ".sql" [] n = "n.txt" -> ".txt" [] OTHER -> ".SQL"]
Lower(e)  == IF e = ".SQL" THEN ".sql" ELSE IF e = ".TXT" THEN ".txt" ELSE e

RECURSIVE DirsTo(_)
DirsTo(k) == IF k = 0 THEN {<<>>}
             ELSE DirsTo(k - 1) \cup {Append(d, Names[i]) : d \in {e \in DirsTo(k - 1) : Len(e) = k - 1}, i \in 1..Len(Names)}
Dirs == DirsTo(MaxDepth)
PrefixOf(p, d)  == Len(p) <= Len(d) /\ \A i \in 1..Len(p) : p[i] = d[i]
Parent(d)       == SubSeq(d, 1, Len(d) - 1)
PrefixClosed(t) == \A d \in t : d = <<>> \/ Parent(d) \in t
Trees == IF AllShapes THEN {t \cup {<<>>} : t \in {s \in SUBSET (Dirs \ {<<>>}) : PrefixClosed(s \cup {<<>>})}}
         ELSE {Dirs}

Tab       == JsonDeserialize(IOEnv.VF_MATCH)
MatchFile == ToSet(Tab.file)
MatchDir  == ToSet(Tab.dir)
MatchStar == ToSet(Tab.star)

VARIABLES tree, ign, done
vars == <<tree, ign, done>>

Files      == {[dir |-> d, name |-> n] : d \in tree, n \in FileNames}
Rel(d, f)  == SubSeq(f.dir, Len(d) + 1, Len(f.dir)) \o <<f.name>>      \* os.path.relpath(file, spec dir)
RelDir(d, e) == SubSeq(e, Len(d) + 1, Len(e))

\* a query: cwd, target directory t.dir (and t.name # "" for an exact file), spelling, extensions
Under(f, t) == IF t.name = "" THEN PrefixOf(t.dir, f.dir) ELSE f = [dir |-> t.dir, name |-> t.name]

--------------------------------------------------------------------------------
(* Contract *)
MustApply(f, cwd, t) == {d \in tree : PrefixOf(d, f.dir) /\ (PrefixOf(cwd, d) \/ PrefixOf(t.dir, d))}
MayApply(f)          == {d \in tree : PrefixOf(d, f.dir)}
FileMatched(g, f)    == <<g.pat, Rel(g.dir, f)>> \in MatchFile
DirExcluded(g, f)    == \E k \in (Len(g.dir) + 1)..Len(f.dir) :
                           <<g.pat, RelDir(g.dir, SubSeq(f.dir, 1, k))>> \in MatchDir
MustIgnored(f, cwd, t) == \E g \in ign : g.dir \in MustApply(f, cwd, t) /\ FileMatched(g, f)
MayIgnored(f)          == \E g \in ign : g.dir \in MayApply(f) /\ (FileMatched(g, f) \/ DirExcluded(g, f))
ExtMust(f, exts) == FileExt[f.name] \in exts
ExtMay(f, exts)  == Lower(FileExt[f.name]) \in {Lower(e) : e \in exts}
MustSelect(cwd, t, exts) == {f \in Files : Under(f, t) /\ ExtMust(f, exts) /\ ~MayIgnored(f)}
MaySelect(cwd, t, exts)  == {f \in Files : Under(f, t) /\ ExtMay(f, exts) /\ ~MustIgnored(f, cwd, t)}
\* SpellingInvariant: for one (cwd, target, exts) the result is the same set of files under every spelling.
\* It is a relation between several executions; the emitted record groups the spellings of one query and the
\* replay compares the executions with each other (clause "SpellingInvariant").

--------------------------------------------------------------------------------
(* Algo: discovery.py *)
\* helpers/file.py iter_intermediate_paths: lowest common path of working path and target, then down to the
\* target's directory (both ends included)
RECURSIVE CommonLen(_, _, _)
CommonLen(c, d, k) == IF k < Len(c) /\ k < Len(d) /\ c[k + 1] = d[k + 1] THEN CommonLen(c, d, k + 1) ELSE k
OuterDirs(cwd, t) == {d \in tree : Len(d) >= CommonLen(cwd, t.dir, 0) /\ PrefixOf(d, t.dir)}
OuterSpecs(cwd, t) == {g \in ign : g.dir \in OuterDirs(cwd, t)}
\* _match_file_extension lower-cases both sides
ExtAlgo(f, exts) == ExtMay(f, exts)
\* _check_ignore_specs
Hit(specs, f)       == \E g \in specs : FileMatched(g, f)
StarHit(specs, e)   == \E g \in specs : <<g.pat, RelDir(g.dir, e)>> \in MatchStar
\* _process_exact_path
AlgoExact(cwd, t, exts) == LET f == [dir |-> t.dir, name |-> t.name] IN
    IF ~ExtAlgo(f, exts) THEN {} ELSE IF Hit(OuterSpecs(cwd, t), f) THEN {} ELSE {f}
\* _iter_files_in_path, retention of the inner specs while walking.  Before commit 3c3752e the test was
\* `dirname == inner_dirname or dirname.startswith(abspath(inner_dirname) + sep)`: `dirname` is spelled like the
\* argument, the right-hand side is absolute, so the second disjunct needed an absolute spelling (F1) — that is
\* FixInnerKeep = FALSE.  The code now compares abspath(dirname): FixInnerKeep = TRUE.
Keep(inner, cur, absolute) == cur = inner \/ ((absolute \/ FixInnerKeep) /\ PrefixOf(inner, cur))
Children(d) == [i \in 1..Len(Names) |-> Append(d, Names[i])]
RECURSIVE Walk(_, _, _, _, _, _)
Walk(stack, inner, sel, outer, exts, absolute) ==
    IF stack = <<>> THEN sel
    ELSE LET d    == Head(stack)
             kept == {g \in inner : Keep(g.dir, d, absolute)}
             now  == kept \cup {g \in ign : g.dir = d}
             subs == SelectSeq(Children(d), LAMBDA e : e \in tree /\ ~StarHit(outer, e) /\ ~StarHit(now, e))
             here == {f \in Files : f.dir = d /\ ExtAlgo(f, exts) /\ ~Hit(outer, f) /\ ~Hit(now, f)}
         IN Walk(subs \o Tail(stack), now, sel \cup here, outer, exts, absolute)
AlgoSelect(cwd, t, exts, absolute) ==
    IF t.name # "" THEN AlgoExact(cwd, t, exts)
    ELSE Walk(<<t.dir>>, {}, {}, OuterSpecs(cwd, t), exts, absolute)

--------------------------------------------------------------------------------
(* Scope *)
Entry == [dir : tree, kind : Kinds, pat : Pats]
RECURSIVE UpTo(_, _)          \* subsets with at most k elements (kSubset cannot fingerprint base sets this large)
UpTo(k, S) == IF k = 0 THEN {{}} ELSE LET P == UpTo(k - 1, S) IN P \cup {s \cup {e} : s \in P, e \in S}
DistinctFiles(E) == \A g, h \in E : (g.dir = h.dir /\ g.kind = h.kind) => g = h
Targets == {[dir |-> d, name |-> ""] : d \in tree} \cup {[dir |-> d, name |-> n] : d \in tree, n \in {"x.sql", "n.txt"}}
\* spellings: "abs" always; "rel" / "dotrel" (./rel) when the target is strictly below cwd; "dot" when it is cwd
Spellings(cwd, t) == {"abs"}
    \cup (IF PrefixOf(cwd, t.dir) /\ (t.dir # cwd \/ t.name # "") THEN {"rel", "dotrel"} ELSE {})
    \cup (IF t.dir = cwd /\ t.name = "" THEN {"dot"} ELSE {})
Queries == {[cwd |-> c, t |-> t, exts |-> x] : c \in Cwds \cap tree, t \in Targets, x \in ExtChoices}

RECURSIVE Join(_)
Join(s) == IF s = <<>> THEN "" ELSE IF Len(s) = 1 THEN s[1] ELSE s[1] \o "/" \o Join(Tail(s))
FileStr(f) == Join(f.dir \o <<f.name>>)
Strs(S)    == SetToSeq({FileStr(f) : f \in S})
Within(q, got) == MustSelect(q.cwd, q.t, q.exts) \subseteq got /\ got \subseteq MaySelect(q.cwd, q.t, q.exts)

Init == /\ tree \in Trees
        /\ ign \in {E \in UpTo(MaxIgn, [dir : tree, kind : Kinds, pat : Pats]) : DistinctFiles(E)}
        /\ done = FALSE
\* Predicted results are carried as differences from May: `d` = May \ predicted, `x` = predicted \ May.
QRec(q) == LET must == MustSelect(q.cwd, q.t, q.exts)
               may  == MaySelect(q.cwd, q.t, q.exts)
               aa   == AlgoSelect(q.cwd, q.t, q.exts, TRUE)
               ar   == AlgoSelect(q.cwd, q.t, q.exts, FALSE)
           IN [cwd |-> Join(q.cwd), dir |-> Join(q.t.dir), name |-> q.t.name, exts |-> SetToSeq(q.exts),
               sp |-> SetToSeq(Spellings(q.cwd, q.t)), must |-> Strs(must), extra |-> Strs(may \ must),
               aad |-> Strs(may \ aa), aax |-> Strs(aa \ may), ard |-> Strs(may \ ar), arx |-> Strs(ar \ may),
               aok |-> (must \subseteq aa /\ aa \subseteq may), rok |-> (must \subseteq ar /\ ar \subseteq may)]
Emit == /\ ~done /\ done' = TRUE /\ UNCHANGED <<tree, ign>>
        /\ PrintT(ToJson([tree |-> SetToSeq({Join(d) : d \in tree}),
                          ign  |-> SetToSeq({[dir |-> Join(g.dir), kind |-> g.kind, pat |-> g.pat] : g \in ign}),
                          qs   |-> SetToSeq({QRec(q) : q \in Queries})]))
Next == Emit
Spec == Init /\ [][Next]_vars

--------------------------------------------------------------------------------
(* Algo => Contract.  Holds with FixInnerKeep = TRUE on pattern sets without the prune/negation clash;
   violated (F1) with FixInnerKeep = FALSE for every non-absolute spelling (kept as a regression model).  *)
AbsoluteWithinContract == \A q \in Queries : Within(q, AlgoSelect(q.cwd, q.t, q.exts, TRUE))
RelativeWithinContract == \A q \in Queries : Spellings(q.cwd, q.t) # {"abs"} => Within(q, AlgoSelect(q.cwd, q.t, q.exts, FALSE))
AlgoSpellingInvariant  == \A q \in Queries : Spellings(q.cwd, q.t) # {"abs"} =>
                              AlgoSelect(q.cwd, q.t, q.exts, TRUE) = AlgoSelect(q.cwd, q.t, q.exts, FALSE)
\* the contract is satisfiable: Must is always inside May
ContractConsistent     == \A q \in Queries : MustSelect(q.cwd, q.t, q.exts) \subseteq MaySelect(q.cwd, q.t, q.exts)
================================================================================
