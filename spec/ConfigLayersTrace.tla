-------------------------- MODULE ConfigLayersTrace --------------------------
(* Code -> spec validation for C27.  One trace = one real run (one Linter, one root FluffConfig) over a
   materialised configuration hierarchy; one event per processed file, recorded at the call of
   Linter.render_string (the FluffConfig object the pipeline really uses for that file) and completed
   with what the run's output shows (which probe lines LT05 flagged, which probe aliases AL06 flagged,
   what the templater rendered).  The recorder only decodes concrete values back to layer names
   ("user", "root", "inl2", ... ; "?" if the value is none of the planted ones); the verdict is the
   contract ConfigLayers!EffectiveIn evaluated here on the trace's own layer assignment.

   Clauses (first failing one is reported):
     KnownValue            the observed value is one of the planted values
     OnlyListedSources     the value does not come from a config file outside the statement's list of sources
                           (the harness plants one in the parent of the working directory, outside HOME)
     IsolatedFromOthers    the observed value comes from a layer on this file's own chain
     LastSetterWins        ... and from the *last* layer of the chain that sets the key
   each suffixed with the channel it was observed on: Core/Section x Object/Behaviour.               *)
EXTENDS ConfigLayers, IOUtils, TLCExt

Traces == JsonDeserialize(IOEnv.VF_TRACES)
VARIABLES tid, pc, rej, nacc, fin
tvars == <<tid, pc, rej, nacc, fin, assign, mode, hist, stage, i, defobj, cache, ovobj, rootv, obs>>

T  == Traces[tid]
Ev == T.events[pc + 1]
AssignOf(t) == [k \in Keys |-> ToSet(t.assign[k])]

\* "above" = a config file in the parent of the working directory (outside HOME): not a source of the
\* statement's list, hence on no file's chain
Known == Sources \cup {"default", "above"}
\* channel name, key, observed layer name
Channels == <<[n |-> "CoreObject",        k |-> "c", v |-> Ev.obj_c],
              [n |-> "SectionObjectRule", k |-> "s", v |-> Ev.obj_s_rule],
              [n |-> "SectionObjectCtx",  k |-> "s", v |-> Ev.obj_s_ctx],
              [n |-> "CoreBehaviour",        k |-> "c", v |-> Ev.beh_c],
              [n |-> "SectionBehaviourRule", k |-> "s", v |-> Ev.beh_s_rule],
              [n |-> "SectionBehaviourCtx",  k |-> "s", v |-> Ev.beh_s_ctx]>>
ChClause(ch) == IF ch.v \notin Known THEN "KnownValue"
                ELSE IF ch.v = "above" THEN "OnlyListedSources"
                ELSE IF ~OnChain(Ev.file, mode, ch.v) THEN "IsolatedFromOthers"
                ELSE IF ch.v # Effective(Ev.file, ch.k) THEN "LastSetterWins"
                ELSE "ok"
Clause == IF Ev.file \notin Files THEN "KnownFile"
          ELSE LET bad == {j \in 1..Len(Channels) : ChClause(Channels[j]) # "ok"}
               IN IF bad = {} THEN "ok"
                  ELSE ChClause(Channels[Min(bad)]) \o ":" \o Channels[Min(bad)].n

Load(k) == IF k <= Len(Traces) THEN assign' = AssignOf(Traces[k]) /\ mode' = Traces[k].mode
           ELSE assign' = [q \in Keys |-> {}] /\ mode' = "paths"
NextTrace == tid' = tid + 1 /\ pc' = 0 /\ Load(tid + 1)
Rest == <<hist, stage, i, defobj, cache, ovobj, rootv, obs>>
TInit == /\ tid = 1 /\ pc = 0 /\ rej = <<>> /\ nacc = 0 /\ fin = FALSE
         /\ assign = (IF Len(Traces) >= 1 THEN AssignOf(Traces[1]) ELSE [q \in Keys |-> {}])
         /\ mode = (IF Len(Traces) >= 1 THEN Traces[1].mode ELSE "paths")
         /\ hist = <<>> /\ stage = "done" /\ i = 0 /\ defobj = <<>> /\ cache = <<>> /\ ovobj = <<>>
         /\ rootv = <<>> /\ obs = <<>>
Step == /\ tid <= Len(Traces) /\ pc < Len(T.events)
        /\ IF Clause = "ok" THEN pc' = pc + 1 /\ UNCHANGED <<tid, rej, nacc, fin, assign, mode>>
           ELSE /\ rej' = Append(rej, [id |-> T.id, step |-> pc + 1, clause |-> Clause])
                /\ NextTrace /\ UNCHANGED <<nacc, fin>>
        /\ UNCHANGED Rest
\* a run that did not process every file of its history is rejected (nothing may be silently dropped)
EndTrace == /\ tid <= Len(Traces) /\ pc = Len(T.events)
            /\ IF Len(T.events) = T.nhist THEN nacc' = nacc + 1 /\ UNCHANGED rej
               ELSE rej' = Append(rej, [id |-> T.id, step |-> pc, clause |-> "EveryFileProcessed"])
                    /\ UNCHANGED nacc
            /\ NextTrace /\ UNCHANGED <<fin>> /\ UNCHANGED Rest
Finish == /\ tid = Len(Traces) + 1 /\ ~fin /\ fin' = TRUE
          /\ PrintT(ToJson([accepted |-> nacc, rejected |-> rej]))
          /\ UNCHANGED <<tid, pc, rej, nacc, assign, mode>> /\ UNCHANGED Rest
TraceNext == Step \/ EndTrace \/ Finish
TraceSpec == TInit /\ [][TraceNext]_tvars
=============================================================================
