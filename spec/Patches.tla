-------------------------------- MODULE Patches --------------------------------
(* C30 / C10 / C11 — source patches: filter -> merge -> slice -> rebuild.

   Contract layer : what a set of candidate edits may do to a source file
                      AppliedDisjointOnce      (C30)  out = source with a pairwise non-overlapping subset of
                                                      the candidate edits applied, each exactly once
                      IsolatedApplied          (C30)  an edit that overlaps no other (template-safe) edit is
                                                      not lost
                      TemplateCellsPreserved   (C10)  every non-literal source cell (templated / block /
                                                      comment) is copied exactly once, in order and
                                                      un-split, unless an explicit source edit replaces
                                                      the whole tag
                      OnlyPatchedRangesDiffer  (C11)  every cell outside the applied ranges is copied exactly
                                                      once and in order, nothing else is emitted
                      P30                             precondition of merge/slice/rebuild and obligation of
                                                      generate_source_patches: a patch equals a source-only
                                                      slice or overlaps none
                    and, for recorded tag sequences (C10 trace), SameTagSeq.
   Algo layer     : transcriptions of
                      core/linter/patch.py : generate_source_patches (dedupe, raw-slice filter, sort) with
                                             TemplatedFile.raw_slices_spanning_source_slice,
                                             _patches_conflict, merge_source_patches
                      core/linter/linted_file.py : LintedFile._slice_source_file_using_patches,
                                             LintedFile._build_up_fixed_source_string
   TLC checks Algo => Contract for every raw-slice layout of L cells and every set of <= MaxP candidate
   patches (NBuf variant buffers), and emits each case with the contract's set of allowed outputs for
   replay into the real functions.

   Source model: cells 0..L-1, cell c carries the distinct symbol c.  A layout is a sequence of raw
   slices [a, b, ty] partitioning 0..L.  Patch texts are symbols >= 10 ("" is the empty text).      *)
EXTENDS Naturals, Integers, Sequences, FiniteSets, TLC, Json, IOUtils, FiniteSetsExt, SequencesExt

CONSTANTS L,        \* number of source cells
          MaxP,     \* candidate patches per case (all buffers together)
          MaxSO,    \* source-only raw slices (block / comment) per layout
          NBuf,     \* variant buffers
          NTexts,   \* replacement texts: 1 -> {"x"}, 2 -> {"", "x"}, 3 -> {"", "x", "y"}
          SOKinds,  \* 1: source-only slices are typed "block"; 2: "block" or "comment" (treated alike by the code)
          EmitOn,   \* TRUE: print one JSON record per case
          NParts, Part  \* the layouts are split into NParts classes; this run explores class Part (0-based).
                    \* NParts = 0: no enumeration, the cases are read from the JSON file IOEnv.VF_CASES (sampled
                    \* scopes too large to enumerate; TLC still computes the transcription and the contract)

Types   == {"literal", "templated", "block", "comment"}
SOTypes == {"block", "comment"}                      \* RawFileSlice.is_source_only_slice
Texts   == IF NTexts = 1 THEN {"x"} ELSE IF NTexts = 2 THEN {"", "x"} ELSE {"", "x", "y"}
Sym(t)  == IF t = "" THEN <<>> ELSE IF t = "x" THEN <<10>> ELSE <<11>>
TI(t)   == IF t = "" THEN 0 ELSE IF t = "x" THEN 1 ELSE 2
Span    == {<<a, b>> \in (0..L) \X (0..L) : a <= b}
Cats    == {"lit", "source"}                         \* literal / mid_point / end_point behave alike
Patch   == [s : Span, t : Texts, cat : Cats, buf : 1..NBuf]

Min2(a, b) == IF a < b THEN a ELSE b
Max2(a, b) == IF a > b THEN a ELSE b
Cells(a, b) == [i \in 1..(b - a) |-> a + i - 1]       \* symbols of source[a:b]

---------------------------------------------------------------------------------
(* Layouts: raw slices partitioning the source *)
Bounds(C)    == SetToSortSeq(C \cup {0, L}, LAMBDA x, y : x < y)
LayoutOf(C, f) == LET B == Bounds(C) IN [k \in 1..(Len(B) - 1) |-> [a |-> B[k], b |-> B[k + 1], ty |-> f[k]]]
LayTypes == IF SOKinds = 1 THEN Types \ {"comment"} ELSE Types
Layouts == UNION {{LayoutOf(C, f) : f \in [1..(Cardinality(C) + 1) -> LayTypes]} : C \in SUBSET (1..(L - 1))}
NSO(lay) == Cardinality({k \in 1..Len(lay) : lay[k].ty \in SOTypes})

VARIABLES lay, cands, flip, res
vars == <<lay, cands, flip, res>>

SliceOf(c)   == CHOOSE k \in 1..Len(lay) : lay[k].a <= c /\ c < lay[k].b
NonLit(c)    == lay[SliceOf(c)].ty # "literal"
SOSeq        == SelectSeq(lay, LAMBDA r : r.ty \in SOTypes)            \* TemplatedFile.source_only_slices
SOSpans      == {<<SOSeq[k].a, SOSeq[k].b>> : k \in 1..Len(SOSeq)}
Start(p) == p.s[1]
Stop(p)  == p.s[2]

---------------------------------------------------------------------------------
(* Contract *)
Edit(p)  == [s |-> p.s, t |-> p.t, cat |-> p.cat]
Edits    == {Edit(p) : p \in cands}

\* two edits cannot both be applied
Overlap(s, r) == LET a == s[1]  b == s[2]  c == r[1]  d == r[2] IN
   IF a = b /\ c = d THEN a = c                    \* two insertions at one point: order undetermined
   ELSE IF a = b THEN c < a /\ a < d               \* insertion strictly inside a replaced range
   ELSE IF c = d THEN a < c /\ c < b
   ELSE Max2(a, c) < Min2(b, d)

\* C10: an edit may touch template code only if it is an explicit source edit of a whole tag
NonLitSlices == {k \in 1..Len(lay) : lay[k].ty # "literal"}
InsideTag(q) == \E k \in NonLitSlices : lay[k].a < q /\ q < lay[k].b
WholeTag(s)  == \E k \in NonLitSlices : s = <<lay[k].a, lay[k].b>>
TouchesTag(s) == \E k \in NonLitSlices : Max2(s[1], lay[k].a) < Min2(s[2], lay[k].b)
Safe(e) == IF e.s[1] = e.s[2] THEN ~InsideTag(e.s[1])
           ELSE ~TouchesTag(e.s) \/ (e.cat = "source" /\ WholeTag(e.s))

ValidApplied(A) == \A e, f \in A : e # f => ~Overlap(e.s, f.s)

EOrd(A) == SetToSortSeq(A, LAMBDA e, f : \/ e.s[1] < f.s[1]
                                         \/ e.s[1] = f.s[1] /\ e.s[2] < f.s[2]
                                         \/ e.s = f.s /\ TI(e.t) < TI(f.t)
                                         \/ e.s = f.s /\ e.t = f.t /\ e.cat = "lit" /\ f.cat = "source")
RECURSIVE Walk(_, _)
Walk(seq, idx) == IF seq = <<>> THEN Cells(idx, L)
                  ELSE LET e == Head(seq) IN Cells(idx, e.s[1]) \o Sym(e.t) \o Walk(Tail(seq), e.s[2])
ApplyOut(A) == Walk(EOrd(A), 0)                      \* the source with exactly the edits of A substituted

Covered(c, A) == \E e \in A : e.s[1] <= c /\ c < e.s[2]
IsCell(x)     == x < L

\* same (span, text) under two categories is one edit as far as the output goes
SameEdit(e, f) == e.s = f.s /\ e.t = f.t
\* E = the edits on offer
Isolated(e, E) == Safe(e) /\ \A f \in E : (Safe(f) /\ ~SameEdit(e, f)) => ~Overlap(e.s, f.s)

AppliedDisjointOnce(out, A, E)  == A \subseteq E /\ ValidApplied(A) /\ out = ApplyOut(A)
IsolatedApplied(A, E)           == \A e \in E : Isolated(e, E) => \E f \in A : SameEdit(e, f)
OnlyPatchedRangesDiffer(out, A) ==
   /\ SelectSeq(out, IsCell) = SelectSeq(Cells(0, L), LAMBDA c : ~Covered(c, A))
   /\ Cardinality({i \in 1..Len(out) : ~IsCell(out[i])}) = Cardinality({e \in A : e.t # ""})
TemplateCellsPreserved(out, A)  ==
   /\ \A e \in A : Safe(e)
   /\ SelectSeq(out, LAMBDA x : IsCell(x) /\ NonLit(x))
        = SelectSeq(Cells(0, L), LAMBDA c : NonLit(c) /\ ~(\E e \in A : e.cat = "source" /\ WholeTag(e.s)
                                                                       /\ e.s[1] <= c /\ c < e.s[2]))
   /\ \A i \in 1..(Len(out) - 1) :      \* no tag is split by an insertion
         (IsCell(out[i]) /\ NonLit(out[i]) /\ out[i] + 1 < L /\ SliceOf(out[i] + 1) = SliceOf(out[i]))
            => out[i + 1] = out[i] + 1

\* Every output the contract allows for this case.  For outputs built by ApplyOut the two output-level clauses
\* reduce to conditions on the applied set (ContractCoherent below, checked by TLC), which is what is used here.
Verdicts == LET safe == {e \in Edits : Safe(e)}
                iso  == {e \in Edits : Isolated(e, Edits)}         \* = what IsolatedApplied(A, Edits) ranges over
            IN {[out |-> ApplyOut(A), c10 |-> A \subseteq safe, iso |-> \A e \in iso : \E f \in A : SameEdit(e, f)]
                  : A \in {A \in SUBSET Edits : ValidApplied(A)}}
Ok30(V)  == {v.out : v \in V}
Ok10(V)  == {v.out : v \in {w \in V : w.c10}}
OkAll(V) == {v.out : v \in {w \in V : w.c10 /\ w.iso}}
ContractCoherent == \A A \in {A \in SUBSET Edits : ValidApplied(A)} :
                       /\ AppliedDisjointOnce(ApplyOut(A), A, Edits)
                       /\ OnlyPatchedRangesDiffer(ApplyOut(A), A)
                       /\ TemplateCellsPreserved(ApplyOut(A), A) <=> \A e \in A : Safe(e)
                       /\ IsolatedApplied(A, Edits) <=> \A e \in {g \in Edits : Isolated(g, Edits)} : \E f \in A : SameEdit(e, f)

\* P30 for one patch against the source-only slices of the layout
P30(p) == \A o \in SOSpans : p.s = o \/ Stop(p) <= o[1] \/ Start(p) >= o[2]

\* Tag sequences (C10 trace): same number, order and type; text equal, or tolerated by Tol
SameTagSeq(before, after, Tol(_, _)) ==
   /\ Len(before) = Len(after)
   /\ \A i \in 1..Len(before) : before[i].ty = after[i].ty /\ (before[i].raw = after[i].raw \/ Tol(before[i].raw, after[i].raw))

---------------------------------------------------------------------------------
(* Algo *)
\* stable sort of a sequence by an integer key (python sorted / list.sort)
StableSort(s, K(_)) == LET ord == SetToSortSeq(1..Len(s), LAMBDA i, j : K(s[i]) < K(s[j]) \/ (K(s[i]) = K(s[j]) /\ i < j))
                       IN [k \in 1..Len(s) |-> s[ord[k]]]

\* order in which _iter_templated_patches happens to yield the candidates of one variant: arbitrary, so a
\* fixed order that is *not* sorted by position, reversible with `flip`
Key0(p) == LET t == IF flip THEN 2 - TI(p.t) ELSE TI(p.t)
               c == IF p.cat = "lit" THEN 0 ELSE 1
           IN ((t * 2 + c) * (L + 1) + Start(p)) * (L + 1) + Stop(p)
CandSeq(b) == SetToSortSeq({p \in cands : p.buf = b}, LAMBDA p, q : Key0(p) < Key0(q))

\* TemplatedFile.raw_slices_spanning_source_slice -> <<first index, count>> (count 0 = [])
RECURSIVE FwdStart(_, _)
FwdStart(i, st) == IF i + 1 <= Len(lay) /\ lay[i + 1].a <= st THEN FwdStart(i + 1, st) ELSE i
RECURSIVE FwdSpan(_, _, _)
FwdSpan(i, n, sp) == IF i + n <= Len(lay) /\ lay[i + n].a < sp THEN FwdSpan(i, n + 1, sp) ELSE n
RawSpanning(s) == IF s[1] >= lay[Len(lay)].b THEN <<1, 0>>
                  ELSE LET i == FwdStart(1, s[1]) IN <<i, FwdSpan(i, 1, s[2])>>

\* generate_source_patches: the keep / skip decision for one yielded patch
Keep(p) == LET r == RawSpanning(p.s)
               tys == {lay[k].ty : k \in r[1]..(r[1] + r[2] - 1)}
           IN \/ r[2] = 0 \/ tys = {"literal"}
              \/ p.cat = "source"
              \/ Start(p) = Stop(p) /\ Start(p) = lay[r[1]].a

RECURSIVE FilterLoop(_, _, _)
FilterLoop(seq, acc, seen) ==
   IF seq = <<>> THEN acc
   ELSE LET p == Head(seq) IN
        IF <<p.s, p.t>> \in seen THEN FilterLoop(Tail(seq), acc, seen)
        ELSE IF Keep(p) THEN FilterLoop(Tail(seq), Append(acc, p), seen \cup {<<p.s, p.t>>})
        ELSE FilterLoop(Tail(seq), acc, seen)
Filtered(b) == StableSort(FilterLoop(CandSeq(b), <<>>, {}), Start)      \* sorted(..., key=start)

\* _patches_conflict
Conflict(f, s) ==
   IF f.s = s.s THEN f.t # s.t
   ELSE IF Start(f) = Stop(f) /\ Stop(f) = Start(s) /\ Start(s) = Stop(s) THEN Start(f) = Start(s)
   ELSE Max2(Start(f), Start(s)) < Min2(Stop(f), Stop(s))

\* merge_source_patches
RECURSIVE MergeLoop(_, _, _)
MergeLoop(seq, acc, seen) ==
   IF seq = <<>> THEN acc
   ELSE LET p == Head(seq) IN
        IF <<p.s, p.t>> \in seen THEN MergeLoop(Tail(seq), acc, seen)
        ELSE IF \E k \in 1..Len(acc) : Conflict(acc[k], p) THEN MergeLoop(Tail(seq), acc, seen)
        ELSE MergeLoop(Tail(seq), Append(acc, p), seen \cup {<<p.s, p.t>>})
RECURSIVE Concat(_, _)
Concat(f, b) == IF b > Len(f) THEN <<>> ELSE f[b] \o Concat(f, b + 1)
MergedOf(f) == MergeLoop(StableSort(Concat(f, 1), LAMBDA p : Start(p) * (L + 1) + Stop(p)), <<>>, {})

\* LintedFile._slice_source_file_using_patches(patches, source_only_slices, raw): list of spans
RECURSIVE SliceLoop(_, _, _, _)
SliceLoop(ps, sos, idx, buf) ==
   IF ps = <<>> THEN (IF idx < L THEN Append(buf, <<idx, L>>) ELSE buf)
   ELSE LET p == Head(ps) IN
     IF sos # <<>> /\ Head(sos).a < Start(p)                          \* the inner while loop, one turn
     THEN LET n == <<Head(sos).a, Head(sos).b>>
              b1 == IF n[1] > idx THEN Append(buf, <<idx, n[1]>>) ELSE buf
          IN SliceLoop(ps, Tail(sos), n[2], Append(b1, n))
     ELSE LET sos2 == IF sos # <<>> /\ p.s = <<Head(sos).a, Head(sos).b>> THEN Tail(sos) ELSE sos
              b1 == IF Start(p) > idx THEN Append(buf, <<idx, Start(p)>>) ELSE buf
          IN IF Start(p) < idx THEN SliceLoop(Tail(ps), sos2, idx, b1)  \* "skipping overlapping patch"
             ELSE SliceLoop(Tail(ps), sos2, Stop(p), Append(b1, p.s))
SliceBufOf(m) == SliceLoop(m, SOSeq, 0, <<>>)

\* LintedFile._build_up_fixed_source_string: first patch whose span equals the slice, else raw source
FirstPatchAt(ps, sp) == LET ks == {k \in 1..Len(ps) : ps[k].s = sp} IN IF ks = {} THEN 0 ELSE Min(ks)
RECURSIVE Build(_, _)
Build(buf, ps) == IF buf = <<>> THEN <<>>
                  ELSE LET k == FirstPatchAt(ps, Head(buf)) IN
                       (IF k # 0 THEN Sym(ps[k].t) ELSE Cells(Head(buf)[1], Head(buf)[2])) \o Build(Tail(buf), ps)

---------------------------------------------------------------------------------
\* explicit source fixes replace one whole raw slice (assumption on the rules, checked on real events by P30)
\* (on literal text a "source" patch is treated exactly like any other, so it is not enumerated there)
Dom(la) == {p \in Patch : p.cat = "source" => \E k \in 1..Len(la) : la[k].ty # "literal" /\ p.s = <<la[k].a, la[k].b>>}

HasTie(cs) == \E p, q \in cs : p.s = q.s /\ p.t # q.t
LayClass(la) == (Len(la) + 3 * Cardinality({k \in 1..Len(la) : la[k].ty = "literal"})
                         + 5 * Cardinality({k \in 1..Len(la) : la[k].ty = "templated"}) + la[1].b) % NParts
FileCases == IF NParts = 0 THEN JsonDeserialize(IOEnv.VF_CASES) ELSE <<>>
CaseLay(c)   == [k \in 1..Len(c.lay) |-> [a |-> c.lay[k].a, b |-> c.lay[k].b, ty |-> c.lay[k].ty]]
CaseCands(c) == {[s |-> <<c.cands[i].s[1], c.cands[i].s[2]>>, t |-> c.cands[i].t, cat |-> c.cands[i].cat,
                  buf |-> c.cands[i].buf] : i \in 1..Len(c.cands)}
Init == /\ IF NParts = 0
           THEN \E i \in 1..Len(FileCases) : lay = CaseLay(FileCases[i]) /\ cands = CaseCands(FileCases[i])
                                              /\ flip = FileCases[i].flip
           ELSE /\ lay \in {la \in Layouts : NSO(la) <= MaxSO /\ LayClass(la) = Part}
                /\ cands \in UNION {kSubset(k, Dom(lay)) : k \in 0..MaxP}
                /\ flip \in (IF HasTie(cands) THEN BOOLEAN ELSE {FALSE})   \* the yield order only matters for ties
        /\ res = <<>>

PJ(p) == [s |-> p.s, t |-> Sym(p.t), cat |-> p.cat, buf |-> p.buf]
PJS(q) == [i \in 1..Len(q) |-> PJ(q[i])]
Emit == /\ res = <<>> /\ UNCHANGED <<lay, cands, flip>>
        /\ LET f  == [b \in 1..NBuf |-> Filtered(b)]
               m  == MergedOf(f)
               sb == SliceBufOf(m)
               o  == Build(sb, m)
               V  == Verdicts
           IN /\ res' = [p30  |-> \A b \in 1..NBuf : \A i \in 1..Len(f[b]) : P30(f[b][i]),
                         safe |-> \A b \in 1..NBuf : \A i \in 1..Len(f[b]) : Safe(Edit(f[b][i])),
                         in30 |-> o \in Ok30(V), in10 |-> o \in Ok10(V), inall |-> o \in OkAll(V)]
              /\ EmitOn => PrintT(ToJson([lay    |-> lay,
                                          bufs   |-> [b \in 1..NBuf |-> PJS(CandSeq(b))],
                                          filt   |-> [b \in 1..NBuf |-> PJS(f[b])],
                                          merged |-> PJS(m),
                                          slices |-> sb,
                                          out    |-> o,
                                          ok30   |-> SetToSeq(Ok30(V)),
                                          ok10   |-> SetToSeq(Ok10(V)),
                                          okall  |-> SetToSeq(OkAll(V))]))
Next == Emit
Spec == Init /\ [][Next]_vars

---------------------------------------------------------------------------------
(* Algo => Contract, on the terminal state of every case *)
FilterEstablishesP30   == res # <<>> => res.p30
FilterKeepsOnlySafe    == res # <<>> => res.safe
AlgoAppliedOnce        == res # <<>> => res.in30
AlgoPreservesTemplate  == res # <<>> => res.in10
AlgoRefinesContract    == res # <<>> => res.inall
===============================================================================
