----------------------------- MODULE PatchesTrace -----------------------------
(* Code -> spec validation for C30, C10 and C11 against the contract of Patches.tla.

   One trace = one real `fix` of one file.  Events are recorded at function returns:
     Patches  generate_source_patches (one per template variant)      patches = <<s0, s1, text, category>>
     Merge    merge_source_patches
     Rebuild  LintedFile._slice_source_file_using_patches + _build_up_fixed_source_string
              (slice buffer and output text)
     Tags     (C10) non-literal raw slices <<type, raw>> of the source and of the re-templated fixed source
     Load     (C11) the file's bytes as decoding units <<bytes, chars, decodable>> + BOM
     Fixes    (C11) source ranges of the LintFix anchors (and SourceFix slices) returned by BaseRule.crawl:
              the "source ranges that the applied fixes edit" (a FixPatch of an untemplated file spans the
              whole file, so patch ranges alone would make the clause vacuous there)
     Fixed    (C11) output text of fix_string and the source ranges of the merged patches, recorded without
              judging the patch pipeline (that is C30's): C11 traces carry this instead of Patches/Merge/Rebuild so
              that the byte/character clauses of Write are always reached, also on templated files
     Write    (C11) the bytes on disk afterwards, same projection, and whether inode / mtime / bytes changed
   Texts are sequences of code points; positions are Python offsets into the trace's source text `src`
   (TemplatedFile.source_str).  The trace's `lay` is the raw-slice layout <<a, b, type>> with types mapped to
   literal / templated / block / comment, so that Patches!Safe, P30, Overlap, ValidApplied, IsolatedApplied
   and SameTagSeq are evaluated as they stand.

   Rebuild: the slice buffer is used as a *witness* for the applied set; if the witness does not explain
   the output the contract's existential is searched (pool <= 10 edits) before the trace is rejected.     *)
EXTENDS Patches, IOUtils, TLCExt

Traces == JsonDeserialize(IOEnv.VF_TRACES)
VARIABLES tid, pc, rej, nacc, fin, st
tvars == <<tid, pc, rej, nacc, fin, st, lay, cands, flip, res>>

T  == Traces[tid]
Ev == T.events[pc + 1]
Src == T.src
N   == Len(Src)

LayOf(t) == [k \in 1..Len(t.lay) |-> [a |-> t.lay[k][1], b |-> t.lay[k][2], ty |-> t.lay[k][3]]]
PE(p)    == [s |-> <<p[1], p[2]>>, t |-> p[3], cat |-> IF p[4] = "source" THEN "source" ELSE "lit"]
PSet(ps) == {PE(ps[i]) : i \in 1..Len(ps)}
St0      == [pool |-> {}, merged |-> <<>>, applied |-> {}, out |-> <<>>, rebuilt |-> FALSE, units |-> <<>>, bom |-> <<>>, ranges |-> {}, pranges |-> {}]

---------------------------------------------------------------------------------
(* text-level application of a valid set of edits *)
TOrd(A) == SetToSortSeq(A, LAMBDA e, f : \/ e.s[1] < f.s[1] \/ (e.s[1] = f.s[1] /\ e.s[2] < f.s[2])
                                         \/ (e.s = f.s /\ Len(e.t) < Len(f.t))
                                         \/ (e.s = f.s /\ Len(e.t) = Len(f.t) /\ e.cat = "lit" /\ f.cat = "source"))
RECURSIVE TWalk(_, _)
TWalk(seq, idx) == IF seq = <<>> THEN SubSeq(Src, idx + 1, N)
                   ELSE LET e == Head(seq) IN SubSeq(Src, idx + 1, e.s[1]) \o e.t \o TWalk(Tail(seq), e.s[2])
ApplyTxt(A) == TWalk(TOrd(A), 0)
Explains(A, out) == ValidApplied(A) /\ (\A e \in A : e.s[1] >= 0 /\ e.s[2] <= N) /\ ApplyTxt(A) = out

\* the applied set the code's own slice buffer claims: for every slice, the first merged patch with that span
FirstAt(m, sp) == LET ks == {k \in 1..Len(m) : <<m[k][1], m[k][2]>> = sp} IN IF ks = {} THEN 0 ELSE Min(ks)
Witness(m, slices) == {PE(m[FirstAt(m, <<slices[i][1], slices[i][2]>>)]) :
                          i \in {j \in 1..Len(slices) : FirstAt(m, <<slices[j][1], slices[j][2]>>) # 0}}
Offered == st.pool \cup PSet(st.merged)
Applied(slices, out) ==
   LET W == Witness(st.merged, slices) IN
   IF Explains(W, out) THEN <<TRUE, W>>
   ELSE IF Cardinality(Offered) <= 10 /\ \E A \in SUBSET Offered : Explains(A, out)
        THEN <<TRUE, CHOOSE A \in SUBSET Offered : Explains(A, out)>>
        ELSE <<FALSE, {}>>

---------------------------------------------------------------------------------
(* C10: tolerated tag difference = whitespace just inside the delimiters, only when JJ01 is selected *)
WS == {32, 9, 10, 13}
Mod == {45, 43}                                       \* '-' '+' whitespace-control modifiers
RECURSIVE LStrip(_)
LStrip(s) == IF s # <<>> /\ Head(s) \in WS THEN LStrip(Tail(s)) ELSE s
RECURSIVE RStrip(_)
RStrip(s) == IF s # <<>> /\ s[Len(s)] \in WS THEN RStrip(SubSeq(s, 1, Len(s) - 1)) ELSE s
InnerTrim(r) == IF Len(r) < 4 \/ r[1] # 123 \/ r[Len(r)] # 125 THEN r
                ELSE LET o == IF Len(r) >= 5 /\ r[3] \in Mod THEN 3 ELSE 2
                         c == IF Len(r) >= o + 3 /\ r[Len(r) - 2] \in Mod THEN 3 ELSE 2
                     IN <<SubSeq(r, 1, o), RStrip(LStrip(SubSeq(r, o + 1, Len(r) - c))), SubSeq(r, Len(r) - c + 1, Len(r))>>
TagTol(x, y) == T.jj01 /\ InnerTrim(x) = InnerTrim(y)
TagSeq(ts) == [i \in 1..Len(ts) |-> [ty |-> ts[i][1], raw |-> ts[i][2]]]

---------------------------------------------------------------------------------
(* C11: decoding units.  Newline normalisation on units: CR LF -> one LF unit, lone CR -> LF unit. *)
UnitsOf(us) == [i \in 1..Len(us) |-> [b |-> us[i][1], c |-> us[i][2], ok |-> us[i][3], nl |-> FALSE]]
RECURSIVE NormU(_, _, _)
NormU(U, k, acc) ==
   IF k > Len(U) THEN acc
   ELSE IF U[k].c = <<13>> THEN
        IF k < Len(U) /\ U[k + 1].c = <<10>>
        THEN NormU(U, k + 2, Append(acc, [b |-> U[k].b \o U[k + 1].b, c |-> <<10>>, ok |-> U[k].ok /\ U[k + 1].ok, nl |-> TRUE]))
        ELSE NormU(U, k + 1, Append(acc, [b |-> U[k].b, c |-> <<10>>, ok |-> U[k].ok, nl |-> TRUE]))
   ELSE NormU(U, k + 1, Append(acc, U[k]))
RECURSIVE FlatC(_, _, _)
FlatC(U, k, acc) == IF k > Len(U) THEN acc ELSE FlatC(U, k + 1, acc \o U[k].c)
RECURSIVE Offs(_, _, _, _)                            \* start offset of each unit in the flattened text
Offs(U, k, pos, acc) == IF k > Len(U) THEN acc ELSE Offs(U, k + 1, pos + Len(U[k].c), Append(acc, pos))

EndianFree == T.enc \in {"utf-16", "utf-32", "utf_16", "utf_32"}
\* A unit as a comparable key: two units are "the same text written back unchanged" iff their keys are equal.
\*   newline (after normalisation)            : any decodable LF
\*   decodable characters                     : same characters and same bytes (bytes ignored for utf-16/32:
\*                                              the codec name leaves the byte order free)
\*   undecodable bytes                        : the same raw bytes
UKey(u) == IF u.ok /\ u.c = <<10>> THEN <<"nl", <<>>, <<>>>>
           ELSE IF u.ok THEN (IF EndianFree THEN <<"c", u.c, <<>>>> ELSE <<"b", u.c, u.b>>)
           ELSE <<"raw", <<>>, u.b>>
\* elements = <<key, lo, hi>>: the key and the character range [lo, hi) of the source text it stands for
TextElems   == [i \in 1..N |-> [key |-> Src[i], lo |-> i - 1, hi |-> i]]
UnitElems(U) == LET off == Offs(U, 1, 0, <<>>) IN [k \in 1..Len(U) |-> [key |-> UKey(U[k]), lo |-> off[k], hi |-> off[k] + Len(U[k].c)]]

\* The untouched stretches: maximal runs of elements no range overlaps, cut wherever a range begins or ends
\* (an insertion point).  The output must contain them in order, with anything in between only at the cuts.
Touched(e, R)  == \E r \in R : r[1] < e.hi /\ r[2] > e.lo
BreakAt(q, R)  == \E r \in R : r[1] = q \/ r[2] = q
RECURSIVE SegsOf(_, _, _, _, _)
SegsOf(E, k, R, cur, acc) ==
   IF k > Len(E) THEN (IF cur = <<>> THEN acc ELSE Append(acc, cur))
   ELSE IF Touched(E[k], R) THEN SegsOf(E, k + 1, R, <<>>, IF cur = <<>> THEN acc ELSE Append(acc, cur))
   ELSE IF BreakAt(E[k].lo, R) /\ cur # <<>> THEN SegsOf(E, k + 1, R, <<E[k].key>>, Append(acc, cur))
   ELSE SegsOf(E, k + 1, R, Append(cur, E[k].key), acc)
Lead(E, R)  == E = <<>> \/ Touched(E[1], R) \/ BreakAt(0, R)
Trail(E, R) == E = <<>> \/ Touched(E[Len(E)], R) \/ BreakAt(E[Len(E)].hi, R)

StartsAt(t, m, s) == m >= 1 /\ m + Len(s) - 1 <= Len(t) /\ SubSeq(t, m, m + Len(s) - 1) = s
\* leftmost occurrence of s in t at or after pos; 0 = none
Find(t, pos, s) == LET ms == {m \in pos..(Len(t) - Len(s) + 1) : StartsAt(t, m, s)} IN IF ms = {} THEN 0 ELSE Min(ms)
RECURSIVE MatchFrom(_, _, _, _, _)                      \* 0 = all stretches found, else index of the first one that is not
MatchFrom(segs, k, t, pos, trail) ==
   IF k > Len(segs) THEN (IF trail \/ pos = Len(t) + 1 THEN 0 ELSE Len(segs) + 1)
   ELSE IF k = Len(segs) /\ ~trail
        THEN LET m == Len(t) - Len(segs[k]) + 1 IN IF m >= pos /\ StartsAt(t, m, segs[k]) THEN 0 ELSE k
   ELSE LET m == Find(t, pos, segs[k]) IN IF m = 0 THEN k ELSE MatchFrom(segs, k + 1, t, m + Len(segs[k]), trail)
MatchAll(segs, t, lead, trail) ==
   IF segs = <<>> THEN (IF lead \/ trail \/ t = <<>> THEN 0 ELSE 1)
   ELSE IF ~lead THEN (IF ~StartsAt(t, 1, segs[1]) THEN 1
                       ELSE IF Len(segs) = 1 /\ ~trail THEN (IF Len(t) = Len(segs[1]) THEN 0 ELSE 1)
                       ELSE MatchFrom(segs, 2, t, Len(segs[1]) + 1, trail))
   ELSE MatchFrom(segs, 1, t, 1, trail)
\* 0, or the index of the first untouched stretch of E (w.r.t. ranges R) that the target does not contain in order
Lost(E, R, t) == MatchAll(SegsOf(E, 1, R, <<>>, <<>>), t, Lead(E, R), Trail(E, R))
HasRaw(seg) == \E i \in 1..Len(seg) : seg[i][1] = "raw"

---------------------------------------------------------------------------------
Clause ==
  CASE Ev.ev = "Patches" ->
         LET P == [i \in 1..Len(Ev.patches) |-> PE(Ev.patches[i])] IN
         IF \E i \in 1..Len(P) : ~(0 <= P[i].s[1] /\ P[i].s[1] <= P[i].s[2] /\ P[i].s[2] <= N) THEN "PatchSpanWellFormed"
         ELSE IF \E i \in 1..Len(P) : ~P30(P[i]) THEN "P30"
         ELSE IF \E i \in 1..Len(P) : ~Safe(P[i]) THEN "FilterKeepsOnlySafe"
         ELSE IF \E i \in 1..(Len(P) - 1) : P[i].s[1] > P[i + 1].s[1] THEN "BufferSortedByStart"
         ELSE "ok"
    [] Ev.ev = "Merge" ->
         LET M == Ev.merged IN
         IF \E i \in 1..Len(M) : ~\E e \in st.pool : SameEdit(e, PE(M[i])) THEN "MergedFromBuffers"
         ELSE IF \E i, j \in 1..Len(M) : i < j /\ SameEdit(PE(M[i]), PE(M[j])) THEN "MergedDeduplicated"
         ELSE "ok"
    [] Ev.ev = "Rebuild" ->
         LET r == Applied(Ev.slices, Ev.out) IN
         IF ~r[1] THEN "AppliedDisjointOnce"
         ELSE IF ~IsolatedApplied(r[2], Offered) THEN "IsolatedApplied"
         ELSE IF \E e \in r[2] : ~Safe(e) THEN "TemplateCellsPreserved"
         ELSE "ok"
    [] Ev.ev = "Tags" ->
         IF ~Ev.ok THEN "FixedSourceStillTemplates"
         ELSE IF Len(Ev.before) # Len(Ev.after) THEN "TemplateCellsPreserved.count"
         ELSE IF ~SameTagSeq(TagSeq(Ev.before), TagSeq(Ev.after), TagTol) THEN "TemplateCellsPreserved"
         ELSE "ok"
    [] Ev.ev = "Load" ->
         IF T.src # <<>> /\ FlatC(NormU(UnitsOf(Ev.units), 1, <<>>), 1, <<>>) # Src THEN "LoadedTextIsNormalisedFile" ELSE "ok"
    [] Ev.ev = "Fixes" -> "ok"
    [] Ev.ev = "Fixed" -> "ok"
    [] Ev.ev = "Write" ->
         LET changed == st.rebuilt /\ st.out # Src
             IU  == NormU(st.units, 1, <<>>)
             OU  == NormU(UnitsOf(Ev.units), 1, <<>>)
             txt == FlatC(OU, 1, <<>>)
             PR  == st.pranges                                \* ranges of the applied / merged patches
             FR  == st.ranges                                 \* source ranges of the fixes the rules returned
             EU  == UnitElems(IU)
             OK  == [k \in 1..Len(OU) |-> UKey(OU[k])]
             segsU == SegsOf(EU, 1, FR, <<>>, <<>>)
             lostU == MatchAll(segsU, OK, Lead(EU, FR), Trail(EU, FR))
         IN
         IF ~changed THEN (IF Ev.rewritten THEN "NotRewrittenWhenNoFix" ELSE "ok")
         ELSE IF ~Ev.rewritten THEN "ok"               \* whether a changed file must be written is C18/C26, not C11
         ELSE IF txt # st.out THEN "WrittenTextIsFixedText"
         ELSE IF (st.bom # <<>>) # (Ev.bom # <<>>) THEN "BomKept"
         ELSE IF Lost(TextElems, PR, txt) # 0 THEN "OnlyPatchedRangesDiffer"
         ELSE IF Lost(TextElems, FR, txt) # 0 THEN "OnlyFixedRangesDiffer"
         ELSE IF lostU # 0 THEN (IF lostU <= Len(segsU) /\ HasRaw(segsU[lostU]) THEN "UndecodableBytesPreserved"
                                 ELSE "UntouchedBytesPreserved")
         ELSE "ok"
    [] OTHER -> "UnknownEvent"

Upd == CASE Ev.ev = "Patches" -> [st EXCEPT !.pool = @ \cup PSet(Ev.patches)]
         [] Ev.ev = "Merge"   -> [st EXCEPT !.merged = Ev.merged]
         [] Ev.ev = "Rebuild" -> LET A == Applied(Ev.slices, Ev.out)[2] IN
                                 [st EXCEPT !.applied = A, !.out = Ev.out, !.rebuilt = TRUE, !.pranges = {e.s : e \in A}]
         [] Ev.ev = "Fixed"   -> [st EXCEPT !.out = Ev.out, !.rebuilt = TRUE,
                                            !.pranges = {<<Ev.pranges[i][1], Ev.pranges[i][2]>> : i \in 1..Len(Ev.pranges)}]
         [] Ev.ev = "Load"    -> [st EXCEPT !.units = UnitsOf(Ev.units), !.bom = Ev.bom]
         [] Ev.ev = "Fixes"   -> [st EXCEPT !.ranges = @ \cup {<<Ev.ranges[i][1], Ev.ranges[i][2]>> : i \in 1..Len(Ev.ranges)}]
         [] OTHER -> st

LoadLay(k) == IF k <= Len(Traces) THEN lay' = LayOf(Traces[k]) ELSE lay' = <<>>
NextTrace == tid' = tid + 1 /\ pc' = 0 /\ st' = St0 /\ LoadLay(tid + 1)
TInit == /\ tid = 1 /\ pc = 0 /\ rej = <<>> /\ nacc = 0 /\ fin = FALSE /\ st = St0
         /\ lay = (IF Len(Traces) >= 1 THEN LayOf(Traces[1]) ELSE <<>>)
         /\ cands = {} /\ flip = FALSE /\ res = <<>>
Step == /\ tid <= Len(Traces) /\ pc < Len(T.events)
        /\ IF Clause = "ok" THEN pc' = pc + 1 /\ st' = Upd /\ UNCHANGED <<tid, rej, nacc, fin, lay>>
           ELSE /\ rej' = Append(rej, [id |-> T.id, step |-> pc + 1, clause |-> Clause])
                /\ NextTrace /\ UNCHANGED <<nacc, fin>>
        /\ UNCHANGED <<cands, flip, res>>
EndTrace == /\ tid <= Len(Traces) /\ pc = Len(T.events)
            /\ nacc' = nacc + 1 /\ NextTrace /\ UNCHANGED <<rej, fin, cands, flip, res>>
Finish == /\ tid = Len(Traces) + 1 /\ ~fin /\ fin' = TRUE
          /\ PrintT(ToJson([accepted |-> nacc, rejected |-> rej]))
          /\ UNCHANGED <<tid, pc, rej, nacc, st, lay, cands, flip, res>>
TraceNext == Step \/ EndTrace \/ Finish
TraceSpec == TInit /\ [][TraceNext]_tvars
=============================================================================
