-------------------------------- MODULE Rectify --------------------------------
(* C07, Algo layer — JinjaTemplater._rectify_templated_slices (core/templaters/jinja.py) against its
   contract.

   Setting: to reach unrendered branches the templater renders a *modified* copy of the template in which
   some tags are replaced by other text (e.g. `{% if cond %}` -> `{% if True %}`); tag i changes length by
   delta[i].  The slices traced on the modified template carry positions in the modified template and must
   be mapped back to the original file.  Raw slice i has original length len[i]; the templated slices refer
   to raw slices in rendering order `refs`, where a loop body (raw slices la..lb) may be visited `reps`
   times.

   Contract: the source slice reported for the k-th templated slice is the ORIGINAL span of the raw slice
   it refers to:  out[k] = <<OrigStart(refs[k]), OrigStart(refs[k]) + len[refs[k]]>>.

   Algo (Fixed = FALSE): the code as released — a sorted stack of (original start, delta) from which the
   head is popped the first time a slice starts there; `carried_delta` accumulates.  A tag visited twice by
   a loop is stretched only on its first visit (finding C07-rectify-loop).
   Algo (Fixed = TRUE): the repaired function — the shift applied to a slice is the sum of the deltas of
   the modified tags that lie before it in the modified template, and a modified tag is stretched every
   time it is visited.                                                                               *)
EXTENDS Naturals, Integers, Sequences, FiniteSets, TLC, Json

CONSTANTS N,        \* number of raw slices
          Lens,     \* possible lengths of a raw slice
          Fixed, Emit
Idx == 1..N

VARIABLES len, delta, la, lb, reps, pc, carried, stack, out, refs
vars == <<len, delta, la, lb, reps, pc, carried, stack, out, refs>>

RECURSIVE Sum(_, _)
Sum(f, S) == IF S = {} THEN 0 ELSE LET x == CHOOSE x \in S : TRUE IN f[x] + Sum(f, S \ {x})

OrigStart(i) == Sum(len, 1..(i - 1))
ModLen(i)    == len[i] + delta[i]
ModStart(i)  == Sum([j \in Idx |-> ModLen(j)], 1..(i - 1))

RECURSIVE Rep(_, _)
Rep(s, n) == IF n = 0 THEN <<>> ELSE s \o Rep(s, n - 1)
Range(a, b) == [j \in 1..(b - a + 1) |-> a + j - 1]
RefsOf(a, b, r) == Range(1, a - 1) \o Rep(Range(a, b), r) \o Range(b + 1, N)

Modified == {i \in Idx : delta[i] # 0}
RECURSIVE SortedSeq(_)
SortedSeq(S) == IF S = {} THEN <<>> ELSE LET m == CHOOSE m \in S : \A y \in S : m <= y
                                     IN <<m>> \o SortedSeq(S \ {m})
\* length_deltas as the caller builds it: {original start of the tag: delta}
InitStack == [j \in 1..Cardinality(Modified) |->
                LET i == SortedSeq(Modified)[j] IN <<OrigStart(i), delta[i]>>]

Init == /\ len \in [Idx -> Lens]
        /\ delta \in [Idx -> {-1, 0, 1}]
        /\ Cardinality({i \in Idx : delta[i] # 0}) \in 1..3
        /\ la \in Idx /\ lb \in Idx /\ la <= lb
        /\ reps \in 1..2
        /\ pc = 1 /\ carried = 0 /\ out = <<>>
        /\ stack = InitStack
        /\ refs = RefsOf(la, lb, reps)

\* one iteration of the for-loop over sliced_template (released code)
StepReleased ==
   LET i  == refs[pc]
       s0 == ModStart(i)
       s1 == ModStart(i) + ModLen(i)
   IN IF stack # <<>> /\ stack[1][1] = s0 + carried
      THEN /\ out' = Append(out, <<s0 + carried, s1 + carried - stack[1][2]>>)
           /\ carried' = carried - stack[1][2]
           /\ stack' = Tail(stack)
      ELSE /\ out' = Append(out, <<s0 + carried, s1 + carried>>)
           /\ UNCHANGED <<carried, stack>>

\* repaired code: positions of the modified tags in the modified template, shift = sum of deltas before
ModTagPos(j) == stack[j][1] + Sum([q \in 1..Len(stack) |-> stack[q][2]], 1..(j - 1))
StepFixed ==
   LET i  == refs[pc]
       s0 == ModStart(i)
       s1 == ModStart(i) + ModLen(i)
       before == Sum([q \in 1..Len(stack) |-> IF ModTagPos(q) < s0 THEN stack[q][2] ELSE 0], 1..Len(stack))
       at     == Sum([q \in 1..Len(stack) |-> IF ModTagPos(q) = s0 /\ s1 > s0 THEN stack[q][2] ELSE 0], 1..Len(stack))
   IN /\ out' = Append(out, <<s0 - before, s1 - before - at>>)
      /\ UNCHANGED <<carried, stack>>

Step == /\ pc <= Len(refs)
        /\ IF Fixed THEN StepFixed ELSE StepReleased
        /\ pc' = pc + 1
        /\ UNCHANGED <<len, delta, la, lb, reps, refs>>
Expected == [j \in 1..Len(refs) |-> <<OrigStart(refs[j]), OrigStart(refs[j]) + len[refs[j]]>>]
EmitCase == /\ Emit /\ pc = Len(refs) + 1 /\ pc' = pc + 1
            /\ PrintT(ToJson([len |-> len, delta |-> delta, refs |-> refs, out |-> out, expected |-> Expected]))
            /\ UNCHANGED <<len, delta, la, lb, reps, carried, stack, out, refs>>
Next == Step \/ EmitCase
Spec == Init /\ [][Next]_vars

\* Contract
Correct  == \A j \in 1..Len(out) : out[j] = Expected[j]
InBounds == \A j \in 1..Len(out) : out[j][1] >= 0 /\ out[j][2] <= OrigStart(N + 1) /\ out[j][1] <= out[j][2]
=================================================================================
