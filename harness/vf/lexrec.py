"""Recorder for the template -> lex (-> parse) steps of the pipeline, shared by C01 C02 C03 C04 C07.

It projects what the code returned at the step boundaries into small values (offsets, lengths, kinds and
equality bits between independently obtained texts).  It is deliberately dumb: no filtering, no repair,
no expected values.  The contract is evaluated by TLC on these projections (spec/SourceMap.tla,
spec/LexContract.tla, spec/TreeContract.tla).
"""
from __future__ import annotations

import hashlib
import json
import traceback
from typing import Any, Dict, List, Optional

from . import sq

KIND_WS, KIND_NL, KIND_COMMENT, KIND_CODE = "ws", "nl", "comment", "code"


def kind_of(seg) -> str:
    if seg.is_meta:
        t = seg.type
        if t == "indent":
            return "indent" if getattr(seg, "indent_val", 0) > 0 else "dedent"
        if t == "dedent":
            return "dedent"
        if t == "end_of_file":
            return "eof"
        if t == "template_loop":
            return "loop"
        if t == "placeholder":
            return "placeholder"
        return "meta"
    if seg.is_type("unlexable"):
        return "unlexable"
    if seg.is_type("newline"):
        return KIND_NL
    if seg.is_type("whitespace"):
        return KIND_WS
    if seg.is_type("comment"):
        return KIND_COMMENT
    return KIND_CODE


def template_event(tf) -> Dict[str, Any]:
    src, tmpl = tf.source_str, tf.templated_str
    raw = []
    for r in tf.raw_sliced:
        raw.append([r.slice_type, int(r.source_idx), len(r.raw), bool(src[r.source_idx:r.source_idx + len(r.raw)] == r.raw)])
    tfs = []
    for s in tf.sliced_file:
        s0, s1 = s.source_slice.start, s.source_slice.stop
        t0, t1 = s.templated_slice.start, s.templated_slice.stop
        tfs.append([s.slice_type, int(s0), int(s1), int(t0), int(t1), bool(src[s0:s1] == tmpl[t0:t1])])
    mono = all(tfs[i][1] <= tfs[i + 1][1] for i in range(len(tfs) - 1))
    return {"nsrc": len(src), "ntmpl": len(tmpl), "raw": raw, "tfs": tfs, "monotone": mono,
            "untemplated": bool(src == tmpl and len(tfs) == 1 and tfs[0][0] == "literal")}


def token_rows(tf, tokens) -> List[list]:
    src, tmpl = tf.source_str, tf.templated_str
    rows = []
    for seg in tokens:
        pm = seg.pos_marker
        t0, t1 = pm.templated_slice.start, pm.templated_slice.stop
        s0, s1 = pm.source_slice.start, pm.source_slice.stop
        raw = seg.raw
        rows.append([int(t0), int(t1), int(s0), int(s1), len(raw), kind_of(seg),
                     bool(tmpl[t0:t1] == raw), bool(src[s0:s1] == raw), int(getattr(seg, "indent_val", 0) or 0)])
    return rows


def record_lex(text: str, dialect: str, templater: str, fname: str = "<string>", tid: str = "",
               overrides: Optional[dict] = None, context: Optional[dict] = None, lex: bool = True) -> List[Dict[str, Any]]:
    """Template + lex `text`; one trace per rendered variant (or one Crash trace)."""
    from sqlfluff.core.errors import SQLFluffSkipFile
    from sqlfluff.core.linter import linter as linter_mod

    overrides = dict(overrides or {})
    cfg = sq.cfg_for(dialect, templater, fname, **overrides)
    lnt = sq.linter(cfg)
    base = {"id": tid, "input": {"text": text, "dialect": dialect, "templater": templater, "fname": fname,
                                   "overrides": overrides}}
    try:
        config = cfg.copy()
        config.process_raw_file_for_config(text, fname)
        rendered = lnt.render_string(text, fname, config, "utf8")
    except SQLFluffSkipFile:
        return [dict(base, id=tid + "#skip", events=[{"ev": "Skip"}])]
    except Exception as e:  # an exception escaping the templating step is itself an observation
        return [dict(base, id=tid + "#crash", events=[{"ev": "Crash", "stage": "template", "exc": type(e).__name__,
                                                        "msg": str(e)[:200], "tb": traceback.format_exc()[-600:]}])]
    out = []
    tmp_v = [{"fatal": bool(v.fatal), "line": v.line_no} for v in rendered.templater_violations]
    if not rendered.templated_variants:
        return [dict(base, id=tid + "#tmp", events=[{"ev": "TemplateFail", "violations": tmp_v}])]
    for k, tf in enumerate(rendered.templated_variants):
        events = [dict(template_event(tf), ev="Template", variant=k, tmp=len(tmp_v))]
        if not lex:
            out.append(dict(base, id=f"{tid}#v{k}", events=events))
            continue
        try:
            tokens, lxr = linter_mod.Lexer(config=config).lex(tf)
            events.append({"ev": "Lex", "toks": token_rows(tf, tokens),
                           "lxr": [[int(v.line_no), int(v.line_pos)] for v in lxr]})
        except Exception as e:
            events.append({"ev": "Crash", "stage": "lex", "exc": type(e).__name__, "msg": str(e)[:200],
                           "tb": traceback.format_exc()[-600:]})
        out.append(dict(base, id=f"{tid}#v{k}", events=events))
    return out


def digest(obj: Any) -> str:
    return hashlib.sha256(json.dumps(obj, sort_keys=True).encode()).hexdigest()[:12]


def _one(item):
    text, dialect, templater, fname, tid, overrides = item
    return record_lex(text, dialect, templater, fname=fname, tid=tid, overrides=overrides)


def _one_nolex(item):
    text, dialect, templater, fname, tid, overrides = item
    return record_lex(text, dialect, templater, fname=fname, tid=tid, overrides=overrides, lex=False)


def record_many(items, lex: bool = True) -> List[Dict[str, Any]]:
    """items: (text, dialect, templater, fname, tid, overrides) -> flat list of traces."""
    from .par import pmap

    out: List[Dict[str, Any]] = []
    for traces in pmap(_one if lex else _one_nolex, list(items)):
        out.extend(traces)
    return out


def strip_for_tlc(trace: Dict[str, Any]) -> Dict[str, Any]:
    """What the validator needs (drop the input text and tracebacks)."""
    evs = []
    for e in trace["events"]:
        e = {k: v for k, v in e.items() if k not in ("tb", "msg")}
        evs.append(e)
    return {"id": trace["id"], "events": evs}


# ----------------------------------------------------------------------------------- parse
NONCODE = ("ws", "nl", "comment")


def leaf_rows(tf, segs, intern: Dict[str, int]) -> List[list]:
    rows = token_rows(tf, segs)
    for r, seg in zip(rows, segs):
        r.append(intern.setdefault(seg.raw, len(intern) + 1))
    return rows


def node_rows(tree) -> List[list]:
    """Preorder list of the non-leaf nodes: [type, lo, hi, t0, t1, s0, s1, exempt, kid_t0s, first_kind, last_kind]
    where [lo, hi) is the node's range in tree.raw_segments (1-based lo, exclusive hi -> TLA+ lo..hi-1)."""
    rows: List[list] = []
    counter = [0]

    def walk(seg, is_root):
        if not seg.segments:
            counter[0] += 1
            return
        lo = counter[0] + 1
        idx = len(rows)
        rows.append(None)
        for ch in seg.segments:
            walk(ch, False)
        hi = counter[0] + 1
        pm = seg.pos_marker
        kids = seg.segments
        nonmeta = [c for c in kids if not c.is_meta]
        first = kind_of(nonmeta[0]) if nonmeta else "none"
        last = kind_of(nonmeta[-1]) if nonmeta else "none"
        if nonmeta and nonmeta[0].segments:
            first = "node"
        if nonmeta and nonmeta[-1].segments:
            last = "node"
        rows[idx] = [seg.type, lo, hi,
                     int(pm.templated_slice.start), int(pm.templated_slice.stop),
                     int(pm.source_slice.start), int(pm.source_slice.stop),
                     bool(is_root or seg.is_type("unparsable") or seg.can_start_end_non_code),
                     [[int(c.pos_marker.templated_slice.start), int(c.pos_marker.templated_slice.stop)] for c in kids if c.pos_marker],
                     first, last, kind_of(kids[0]) if not kids[0].segments else "node",
                     kind_of(kids[-1]) if not kids[-1].segments else "node"]

    walk(tree, True)
    return rows


def record_parse(text: str, dialect: str, templater: str, fname: str = "<string>", tid: str = "",
                 overrides: Optional[dict] = None) -> List[Dict[str, Any]]:
    """Template + lex + parse; one trace per variant with events Template, Lex, Parse (or Crash)."""
    from sqlfluff.core.errors import SQLFluffSkipFile
    from sqlfluff.core.linter.linter import Linter

    overrides = dict(overrides or {})
    cfg = sq.cfg_for(dialect, templater, fname, **overrides)
    lnt = sq.linter(cfg)
    base = {"id": tid, "input": {"text": text, "dialect": dialect, "templater": templater, "fname": fname,
                                   "overrides": overrides}}
    try:
        config = cfg.copy()
        config.process_raw_file_for_config(text, fname)
        rendered = lnt.render_string(text, fname, config, "utf8")
    except SQLFluffSkipFile:
        return [dict(base, id=tid + "#skip", events=[{"ev": "Skip"}])]
    except Exception as e:
        return [dict(base, id=tid + "#crash", events=[{"ev": "Crash", "stage": "template", "exc": type(e).__name__,
                                                        "msg": str(e)[:200], "tb": traceback.format_exc()[-600:]}])]
    if not rendered.templated_variants:
        return [dict(base, id=tid + "#tmp", events=[{"ev": "TemplateFail", "violations": len(rendered.templater_violations)}])]
    out = []
    for k, tf in enumerate(rendered.templated_variants):
        events = [dict(template_event(tf), ev="Template", variant=k, tmp=len(rendered.templater_violations))]
        intern: Dict[str, int] = {}
        try:
            tokens, lxr = Linter._lex_templated_file(tf, config)
        except Exception as e:
            events.append({"ev": "Crash", "stage": "lex", "exc": type(e).__name__, "msg": str(e)[:200], "tb": traceback.format_exc()[-600:]})
            out.append(dict(base, id=f"{tid}#v{k}", events=events))
            continue
        try:
            tree, prs = Linter._parse_tokens(tokens, config, fname=fname)
        except Exception as e:
            events.append({"ev": "Crash", "stage": "parse", "exc": type(e).__name__, "msg": str(e)[:200], "tb": traceback.format_exc()[-600:]})
            out.append(dict(base, id=f"{tid}#v{k}", events=events))
            continue
        def _kind(desc: str) -> str:
            d = (desc or "").lower()
            if "maximum parse" in d:
                return "limit"
            if "bracket" in d:
                return "bracket"
            if "completeness" in d:
                return "completeness"
            return "other"

        ev = {"ev": "Parse", "toks": leaf_rows(tf, tokens, intern), "nprs": len(prs), "nlxr": len(lxr), "tree": tree is not None,
              "prs_kinds": sorted({_kind(v.desc()) for v in prs})}
        if tree is not None:
            ev["leaves"] = leaf_rows(tf, tree.raw_segments, intern)
            ev["nodes"] = node_rows(tree)
            ev["nunparsable"] = sum(1 for _ in tree.iter_unparsables())
        else:
            ev["leaves"], ev["nodes"], ev["nunparsable"] = [], [], 0
        events.append(ev)
        out.append(dict(base, id=f"{tid}#v{k}", events=events))
    return out


def _one_parse(item):
    text, dialect, templater, fname, tid, overrides = item
    return record_parse(text, dialect, templater, fname=fname, tid=tid, overrides=overrides)


def record_many_parse(items) -> List[Dict[str, Any]]:
    from .par import pmap

    out: List[Dict[str, Any]] = []
    for traces in pmap(_one_parse, list(items), chunksize=4):
        out.extend(traces)
    return out
