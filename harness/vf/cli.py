"""./check <Cnn> [--tier quick|thorough] [--replay <file>]"""
from __future__ import annotations

import argparse
import importlib
import os
import sys
import traceback

from .tlc import MachineryError


def main(argv=None) -> int:
    ap = argparse.ArgumentParser(prog="check")
    ap.add_argument("prop")
    ap.add_argument("--tier", default=os.environ.get("VERIF_TIER", "quick"), choices=["quick", "thorough"])
    ap.add_argument("--replay", default=None)
    ap.add_argument("--seed", type=int, default=int(os.environ.get("VERIF_SEED", "0") or 0))
    args = ap.parse_args(argv)
    prop = args.prop.upper()
    try:
        mod = importlib.import_module(f"vf.props.{prop.lower()}")
    except ModuleNotFoundError as e:
        print(f"machinery failure: no check module for {prop}: {e}", file=sys.stderr)
        return 2
    try:
        if args.replay:
            return int(mod.replay(args.replay, args.tier, args.seed))
        return int(mod.run(args.tier, args.seed))
    except MachineryError as e:
        print(f"machinery failure ({prop}): {e}", file=sys.stderr)
        return 2
    except Exception:
        traceback.print_exc()
        print(f"machinery failure ({prop}): unexpected harness exception", file=sys.stderr)
        return 2


if __name__ == "__main__":
    sys.exit(main())
