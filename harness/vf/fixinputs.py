"""Inputs of the "fix suite" (C12 C13 C14 C15 C17): named *parts*, each a list of cases
{id, sql, dialect, rules, configs?, over?, mode}.  Pure input construction (deterministic for tier + seed); part of
the recording cache key together with vf/fixrec.py.
"""
from __future__ import annotations

import os
import random
import re
from typing import Callable, Dict, List, Optional, Tuple

from . import sq

FORMAT_RULES = ("capitalisation,layout,ambiguous.union,convention.not_equal,convention.coalesce,"
                "convention.select_trailing_comma,convention.is_null,jinja.padding,structure.distinct")
RULESETS = {"all": "all", "layout": "layout", "format": FORMAT_RULES}
MAXCHARS = {"quick": 5000, "thorough": 12000}


# ------------------------------------------------------------------------------------ inputs
def corpus(tier: str, seed: int, per_dialect: Optional[int] = None) -> List[Tuple[str, str]]:
    """Dialect fixtures, stratified over every dialect (deterministic for a seed)."""
    cap = MAXCHARS[tier]
    items = [(p, d) for p, d in sq.dialect_corpus() if os.path.getsize(p) <= cap]
    nd = len({d for _, d in items})
    per = per_dialect or (5 if tier == "quick" else 12)
    return sq.stratified(items, lambda x: x[1], per * nd, seed)


def corpus_part(tier: str, seed: int, ruleset: str) -> List[dict]:
    mode = "layout" if ruleset == "layout" else "any"
    return [{"id": f"{ruleset}:{os.path.relpath(p, sq.FIX)}", "sql": sq.read(p), "dialect": d,
             "rules": RULESETS[ruleset], "mode": mode} for p, d in corpus(tier, seed)]


# whitespace / operator adjacency (C12, finding F15): every template is tried in every dialect
ADJ = [
    "SELECT - - 1\n", "SELECT 1 - - - 1\n", "SELECT a - -b FROM t\n", "SELECT a - - b FROM t\n", "SELECT a-(-b) FROM t\n",
    "SELECT a + +b FROM t\n", "SELECT a+ -b FROM t\n", "SELECT a*-b FROM t\n", "SELECT a * - b FROM t\n",
    "SELECT a/ *b FROM t\n", "SELECT a / *b FROM t\n", "SELECT a /b FROM t\n", "SELECT a||b FROM t\n", "SELECT a || b FROM t\n",
    "SELECT a< >b FROM t\n", "SELECT a > = b FROM t\n", "SELECT a < = b FROM t\n", "SELECT a ! = b FROM t\n",
    "SELECT a>=b,c<=d,e<>f,g!=h FROM t\n", "SELECT a . b FROM t\n", "SELECT t . * FROM t\n", "SELECT 1 . 5\n", "SELECT 1.e - 5\n",
    "SELECT(a)FROM t\n", "SELECT a FROM t WHERE(a)IN(1,2)\n", "SELECT CASE WHEN(a)THEN(1)ELSE(2)END FROM t\n",
    "SELECT DISTINCT(a) FROM t\n", "SELECT DISTINCT(a),b FROM t\n", "SELECT a FROM t WHERE NOT(a)AND(b)\n",
    "SELECT 'a' 'b'\n", "SELECT a --c\n- -b FROM t\n", "SELECT a /*c*/ - /*d*/ -b FROM t\n", "SELECT a - /**/ -b FROM t\n",
    "SELECT -\n-1\n", "SELECT a\n-\n-b FROM t\n", "SELECT (a) - (-b) FROM t\n", "SELECT a -- x\nFROM t\n", "SELECT a- -1 AS c FROM t\n",
    "SELECT - - a AS c, + - b AS d, - + c AS e FROM t\n", "SELECT a FROM t WHERE a = - - 1\n", "SELECT a FROM t WHERE a BETWEEN - - 1 AND - - 2\n",
    "SELECT a FROM t ORDER BY - - a\n", "SELECT f(- - 1, - -a) FROM t\n", "SELECT a::int, b :: int FROM t\n", "SELECT a[1] , b [ 2 ] FROM t\n",
    "SELECT a AS\"b\" FROM t\n", "SELECT 1AS b\n", "SELECT a FROM t WHERE a IN(SELECT b FROM u)AND c=1\n", "SELECT *FROM t\n",
    "SELECT a,b FROM t WHERE a=1AND b=2\n", "SELECT a FROM t LIMIT 1OFFSET 2\n", "SELECT COUNT(*)AS c FROM t\n",
    "SELECT COUNT(DISTINCT(a)) FROM t\n", "SELECT COUNT(DISTINCT(a + b)), SUM(DISTINCT(c)) FROM t\n",
    # a comment whose closing newline is the only thing between it and a token that wants to touch its neighbour
    "SELECT foo -- c\n(1)\n", "SELECT count -- rows\n(*) FROM t\n", "SELECT\n    my_func -- explain\n    (a, b)\nFROM t\n",
    "SELECT\n    arr -- first\n    [1] AS n\nFROM t\n", "CREATE TABLE t (\n    a varchar -- short\n    (10)\n)\n",
    "SELECT a:: -- c\nint FROM t\n", "SELECT a -- c\n::int FROM t\n", "SELECT foo /* c */\n(1)\n", "SELECT a -- c\n, b FROM t\n",
    "SELECT a FROM t -- c\nWHERE a = 1\n", "SELECT t -- c\n.a FROM t\n", "SELECT a -- c\n;\n",
]


def adjacency_part(tier: str, seed: int) -> List[dict]:
    ds = sq.dialects()
    out = []
    for i, sql in enumerate(ADJ):
        dsel = ds if tier == "thorough" else [ds[(i + j * 7 + seed) % len(ds)] for j in range(4)] + ["ansi"]
        for d in sorted(set(dsel)):
            out.append({"id": f"adj{i}:{d}", "sql": sql, "dialect": d, "rules": "all", "mode": "any"})
    return out


_SIGN_SPOTS = re.compile(r"(?<=[\w)\]]) ([-+*/]) (?=[\w(])")


def mutants_part(tier: str, seed: int) -> List[dict]:
    """Seeded corpus mutants: a unary sign right after a binary operator, whitespace squeezed/widened around
    operators and brackets (texts that still lex to the same code tokens are kept; the parse decides clean0)."""
    rnd = random.Random(seed * 7919 + 17)
    files = corpus(tier, seed, per_dialect=3 if tier == "quick" else 6)
    out = []
    for p, d in files:
        src = sq.read(p)
        spots = list(_SIGN_SPOTS.finditer(src))
        muts = []
        if spots:
            m = rnd.choice(spots)
            for name, ins in (("sign", "-"), ("signsp", "- "), ("plus", "+"), ("signsign", "- -")):
                muts.append((name, src[: m.end()] + ins + src[m.end():]))
        muts.append(("tight", re.sub(r" *([,()=<>+*/|]) *", r"\1", src)))
        muts.append(("wide", re.sub(r"([,()=<>+*/|])", r"  \1  ", src)))
        muts.append(("nlops", re.sub(r" ([-+*/]) ", r"\n\1\n", src)))
        for name, text in muts[: (3 if tier == "quick" else 8)]:
            if text != src:
                out.append({"id": f"mut:{name}:{os.path.relpath(p, sq.FIX)}", "sql": text, "dialect": d, "rules": "all", "mode": "any"})
    return out


def _templated(sql: str) -> bool:
    return "{{" in sql or "{%" in sql or "{#" in sql


def _pick(cases: List[dict], tier: str, seed: int, n_quick: int) -> List[dict]:
    """thorough: all; quick: a sample stratified over the rule files (deterministic for a seed)."""
    if tier == "thorough" or len(cases) <= n_quick:
        return cases
    sel = sq.stratified(cases, lambda c: c["rule"], n_quick, seed)
    keep = {c["id"] for c in sel}
    return [c for c in cases if c["id"] in keep]


def cases_own_part(tier: str, seed: int) -> List[dict]:
    """Rule yaml cases with a fail_str, under their own rule selection and configs."""
    cs = _pick([c for c in sq.rule_cases() if c["kind"] == "fail"], tier, seed, 360)
    return [{"id": f"own:{c['id']}", "sql": c["sql"], "dialect": "ansi", "rules": c["rule"], "configs": c["configs"], "mode": "any"}
            for c in cs]


def cases_layout_part(tier: str, seed: int) -> List[dict]:
    """Layout-rule cases and every templated case (pass or fail), fixed with the whole layout group (own configs)."""
    lt = _pick([c for c in sq.rule_cases() if c["rule"].startswith("LT") and c["kind"] == "fail" and not _templated(c["sql"])],
               tier, seed, 140)
    tm = _pick([c for c in sq.rule_cases() if _templated(c["sql"])], tier, seed, 90)
    return [{"id": f"lay:{c['id']}", "sql": c["sql"], "dialect": "ansi", "rules": "layout", "configs": c["configs"], "mode": "layout"}
            for c in lt + tm]


def cases_templated_all_part(tier: str, seed: int) -> List[dict]:
    """Templated rule cases under all rules (C13: findings F12/F13 classes)."""
    tm = _pick([c for c in sq.rule_cases() if _templated(c["sql"])], tier, seed, 90)
    return [{"id": f"tall:{c['id']}", "sql": c["sql"], "dialect": "ansi", "rules": "all", "configs": c["configs"], "mode": "any"}
            for c in tm]


LAYOUT_VARIANTS: List[Tuple[str, dict]] = [
    ("comma_leading", {"layout": {"type": {"comma": {"line_position": "leading"}}}}),
    ("comma_trailing", {"layout": {"type": {"comma": {"line_position": "trailing"}}}}),
    ("op_trailing", {"layout": {"type": {"binary_operator": {"line_position": "trailing"},
                                          "comparison_operator": {"line_position": "trailing"}}}}),
    ("op_leading", {"layout": {"type": {"binary_operator": {"line_position": "leading"},
                                         "comparison_operator": {"line_position": "leading"}}}}),
    ("tab", {"indentation": {"indent_unit": "tab"}}),
    ("space2", {"indentation": {"indent_unit": "space", "tab_space_size": 2}}),
    ("len40", {"core": {"max_line_length": 40}}),
    ("len120", {"core": {"max_line_length": 120}}),
    ("implicit", {"indentation": {"allow_implicit_indents": True}}),
    ("len40_leading_tab", {"core": {"max_line_length": 40}, "indentation": {"indent_unit": "tab"},
                           "layout": {"type": {"comma": {"line_position": "leading"}}}}),
]


def layoutcfg_part(tier: str, seed: int) -> List[dict]:
    files = corpus(tier, seed, per_dialect=4 if tier == "quick" else 8)
    out = []
    nv = len(LAYOUT_VARIANTS)
    for i, (p, d) in enumerate(files):
        src = sq.read(p)
        ks = [(i + j) % nv for j in range(2 if tier == "quick" else 4)]
        for k in ks:
            name, cfg = LAYOUT_VARIANTS[k]
            text = src
            if k % 3 == 0:     # whitespace mutant alongside the config variation
                text = re.sub(r"\n[ \t]+", "\n", src) if k % 2 == 0 else re.sub(r",\s*", "\n, ", src)
            out.append({"id": f"lcfg:{name}:{os.path.relpath(p, sq.FIX)}", "sql": text, "dialect": d, "rules": "layout",
                        "configs": cfg, "mode": "layout"})
    return out


CP = {
    "CP01": ("capitalisation.keywords", "capitalisation_policy", ["consistent", "upper", "lower", "capitalise"]),
    "CP02": ("capitalisation.identifiers", "extended_capitalisation_policy",
             ["consistent", "upper", "lower", "pascal", "capitalise", "snake", "camel"]),
    "CP03": ("capitalisation.functions", "extended_capitalisation_policy",
             ["consistent", "upper", "lower", "pascal", "capitalise", "snake", "camel"]),
    "CP04": ("capitalisation.literals", "capitalisation_policy", ["consistent", "upper", "lower", "capitalise"]),
    "CP05": ("capitalisation.types", "extended_capitalisation_policy",
             ["consistent", "upper", "lower", "pascal", "capitalise", "snake", "camel"]),
}
CAP_HAND = [
    ("ansi", 'SELECT "MixedCase", \'StrinG\', fooBar, Foo_bar2x, COUNT(x), Sum(y), my_Func(z) -- CommentText Here\n'
             'FROM "Tbl" AS tBl /* Block CommenT */ WHERE x IS nUlL AND y = tRue OR z = False AND CAST(q AS vArChar(10)) = \'Ab\'\n'),
    ("ansi", "select a, B, cC from t1 inner JOIN T2 on t1.a = T2.a where a in (1, 2) order by a desc\n"),
    ("ansi", "CREATE TABLE fooBar (idCol int, nameCol VarChar(20), tsCol TimeStamp, b1 Boolean DEFAULT true)\n"),
    ("ansi", "SELECT straße, ıd, ǅx, ΣΑΣ, naïveCol FROM müllTable\n"),
    ("ansi", "SELECT current_timestamp, Current_Date, EXTRACT(Year FROM d), DATEADD(Day, 1, d) FROM t\n"),
    ("bigquery", "SELECT `MixedCase`, fooBar, STRUCT(1 AS aB), SAFE_CAST(x AS Int64), r'RawStr', b\"Byt\" FROM `Proj.DataSet.Tbl` AS tT\n"),
    ("tsql", "SELECT [MixedCase], fooBar, @VarName, N'UniStr', GetDate() FROM [dbo].[Tbl] AS tT WHERE x = NULL\n"),
    ("mysql", "SELECT `MixedCase`, fooBar, @userVar, _utf8'StR', IfNull(a, b) FROM `Tbl` WHERE c IS Not Null\n"),
    ("postgres", "SELECT \"MixedCase\", fooBar, E'EscStr', $1, $tag$Dollar Quoted$tag$, x::VarChar, y::Int4 FROM \"Sch\".\"Tbl\" WHERE t IS True\n"),
    ("snowflake", "SELECT \"MixedCase\", fooBar, $1, t.$2, x:jsonKey::String, TRY_CAST(a AS Number(10, 2)) FROM @Stage_Name AS tT\n"),
    ("sparksql", "SELECT `MixedCase`, fooBar, CAST(x AS sTrInG), array(1, 2)[0], map('Ka', 1) FROM Db.Tbl TABLESAMPLE (10 PERCENT)\n"),
    ("oracle", "SELECT \"MixedCase\", fooBar, NVL(a, b), q'[QuoteD]', TO_DATE('2020', 'YYYY') FROM Tbl tT WHERE ROWNUM < 10\n"),
    # quoted names in function and type position, comments inside a data type
    ("ansi", "CREATE TABLE t (a DOUBLE /* Foo Bar */ precision, b INT, c Timestamp -- Keep Me\n WITH TIME ZONE)\n"),
    ("bigquery", "SELECT `MyFunc`(a), `proj.ds.Fn`(d), Upper(x) FROM t\n"),
    ("tsql", "SELECT [MyFunc](a), [dbo].[Fn](b), Upper(x) FROM t;\nCREATE TABLE u (a [Int], b [MyType], c INT, d [dbo].[MyUdt]);\n"),
    ("postgres", "CREATE TABLE t (a INT, b \"MyType\", c text, d myschema.\"MyEnum\"[]);\nSELECT b::\"char\", \"MyFn\"(a) FROM t;\n"),
    ("oracle", "CREATE TABLE t (a NUMBER, b \"MyObjType\", c varchar2(10));\n"),
    ("mysql", "SELECT `MyFn`(a), Upper(b), CAST(c AS signed) FROM `Tbl`;\n"),
]


def _case_mutant(src: str, rnd: random.Random) -> str:
    """Flip the case of random letters outside quotes and comments (cheap scanner; the lexer decides the rest)."""
    out = []
    i, n = 0, len(src)
    while i < n:
        ch = src[i]
        if ch in "'\"`":
            j = src.find(ch, i + 1)
            j = n - 1 if j < 0 else j
            out.append(src[i: j + 1])
            i = j + 1
        elif src.startswith("--", i) or ch == "#":
            j = src.find("\n", i)
            j = n if j < 0 else j
            out.append(src[i:j])
            i = j
        elif src.startswith("/*", i):
            j = src.find("*/", i)
            j = n - 2 if j < 0 else j
            out.append(src[i: j + 2])
            i = j + 2
        elif ch == "[":
            j = src.find("]", i)
            j = n - 1 if j < 0 else j
            out.append(src[i: j + 1])
            i = j + 1
        else:
            out.append(ch.swapcase() if ch.isalpha() and rnd.random() < 0.35 else ch)
            i += 1
    return "".join(out)


def cap_part(tier: str, seed: int) -> List[dict]:
    rnd = random.Random(seed * 104729 + 5)
    inputs: List[Tuple[str, str, str]] = [(f"hand{i}", d, s) for i, (d, s) in enumerate(CAP_HAND)]
    for p, d in corpus(tier, seed, per_dialect=2 if tier == "quick" else 5):
        src = sq.read(p)
        if len(src) > 3000:
            continue
        rel = os.path.relpath(p, sq.FIX)
        inputs.append((rel, d, src))
        inputs.append(("mut:" + rel, d, _case_mutant(src, rnd)))
    combos: List[Tuple[str, str, dict]] = []
    for code, (sect, key, pols) in CP.items():
        for pol in pols:
            combos.append((code, pol, {"rules": {sect: {key: pol}}}))
    for pol in ("consistent", "upper", "lower", "capitalise"):
        combos.append(("CP01,CP02,CP03,CP04,CP05", pol,
                       {"rules": {sect: {key: pol} for sect, key, _ in CP.values()}}))
    out = []
    for k, (name, d, src) in enumerate(inputs):
        sel = combos if name.startswith("hand") else \
            [combos[(k * 5 + j * 7 + seed) % len(combos)] for j in range(6 if tier == "quick" else 12)]
        seen = set()
        for code, pol, cfg in sel:
            if (code, pol) in seen:
                continue
            seen.add((code, pol))
            out.append({"id": f"cap:{code}:{pol}:{name}", "sql": src, "dialect": d, "rules": code, "configs": cfg, "mode": "cap"})
    return out


PARTS: Dict[str, Callable[[str, int], List[dict]]] = {
    "corpus_all": lambda t, s: corpus_part(t, s, "all"),
    "corpus_layout": lambda t, s: corpus_part(t, s, "layout"),
    "corpus_format": lambda t, s: corpus_part(t, s, "format"),
    "adjacency": adjacency_part,
    "mutants": mutants_part,
    "cases_own": cases_own_part,
    "cases_layout": cases_layout_part,
    "cases_templated_all": cases_templated_all_part,
    "layoutcfg": layoutcfg_part,
    "cap": cap_part,
}


