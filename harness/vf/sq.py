"""Access to the code under test (sqlfluff, imported from /repo/src) and to its fixture corpus.

Nothing here judges anything: these are inputs and thin call helpers.  Configs/linters are cached per
option tuple because building a FluffConfig costs 0.3-0.5 s.
"""
from __future__ import annotations

import functools
import glob
import json
import os
import random
from typing import Any, Dict, Iterable, List, Optional, Tuple

REPO = os.environ.get("VF_REPO", "/repo")
FIX = os.path.join(REPO, "test", "fixtures")

# the code under test logs warnings (and tracebacks of caught rule errors) on stderr: keep the checks' output clean
import logging as _logging

for _name in ("sqlfluff", "sqlfluff.linter", "sqlfluff.rules", "sqlfluff.templater", "sqlfluff.parser", "sqlfluff.lexer"):
    _lg = _logging.getLogger(_name)
    _lg.setLevel(_logging.CRITICAL + 10)
    _lg.addHandler(_logging.NullHandler())
    _lg.propagate = False


def read(path: str) -> str:
    with open(path, encoding="utf-8", errors="backslashreplace") as fh:
        return fh.read()


@functools.lru_cache(maxsize=None)
def dialects() -> Tuple[str, ...]:
    from sqlfluff.core.dialects import dialect_readout

    return tuple(sorted(d.label for d in dialect_readout()))


@functools.lru_cache(maxsize=None)
def dialect_corpus() -> Tuple[Tuple[str, str], ...]:
    out = []
    for d in sorted(os.listdir(os.path.join(FIX, "dialects"))):
        p = os.path.join(FIX, "dialects", d)
        if os.path.isdir(p):
            for f in sorted(glob.glob(os.path.join(p, "*.sql"))):
                out.append((f, d))
    return tuple(out)


@functools.lru_cache(maxsize=None)
def rule_cases() -> Tuple[dict, ...]:
    """All std_rule_cases entries: {id, rule, sql, kind, fix_str, configs}."""
    import yaml

    out = []
    for path in sorted(glob.glob(os.path.join(FIX, "rules", "std_rule_cases", "*.yml"))):
        with open(path) as fh:
            y = yaml.safe_load(fh.read())
        rule = y.pop("rule")
        gcfg = y.pop("configs", None)
        base = os.path.basename(path)[:-4]
        for name, v in y.items():
            if not isinstance(v, dict):
                continue
            cfg = v.get("configs", gcfg)
            sql = v.get("pass_str") if "pass_str" in v else v.get("fail_str")
            if sql is None:
                continue
            out.append({"id": f"{base}:{name}", "rule": rule, "sql": sql,
                        "kind": "pass" if "pass_str" in v else "fail",
                        "fix_str": v.get("fix_str"), "configs": cfg, "skip": v.get("skip")})
    return tuple(out)


@functools.lru_cache(maxsize=None)
def templater_fixtures() -> Tuple[str, ...]:
    return tuple(sorted(glob.glob(os.path.join(FIX, "templater", "*", "*.sql"))))


def stratified(items: List[Any], key, n: int, seed: int) -> List[Any]:
    """Deterministic stratified sample: round-robin over strata, shuffled within each by seed."""
    rnd = random.Random(seed)
    strata: Dict[Any, List[Any]] = {}
    for it in items:
        strata.setdefault(key(it), []).append(it)
    for v in strata.values():
        rnd.shuffle(v)
    out: List[Any] = []
    keys = sorted(strata)
    i = 0
    while len(out) < n and any(strata.values()):
        k = keys[i % len(keys)]
        if strata[k]:
            out.append(strata[k].pop())
        i += 1
    return out


def corpus_sample(n: int, seed: int, templated: bool = False) -> List[Tuple[str, str, str]]:
    """(path, dialect, templater) — dialect fixtures stratified by dialect (+ templater fixtures)."""
    out = [(p, d, "jinja") for p, d in stratified(list(dialect_corpus()), lambda x: x[1], n, seed)]
    if templated:
        for f in templater_fixtures()[: max(4, n // 4)]:
            out.append((f, "ansi", "path"))
    return out


def _freeze(x: Any) -> Any:
    if isinstance(x, dict):
        return tuple(sorted((k, _freeze(v)) for k, v in x.items()))
    if isinstance(x, (list, tuple)):
        return tuple(_freeze(v) for v in x)
    return x


_CFG: Dict[Any, Any] = {}


def config(dialect: str = "ansi", templater: str = "jinja", configs: Optional[dict] = None, **overrides: Any):
    """Cached FluffConfig built from defaults only (no user / cwd config files)."""
    from sqlfluff.core import FluffConfig

    ov = {"dialect": dialect, "templater": templater}
    ov.update(overrides)
    if configs and isinstance(configs.get("core"), dict) and "dialect" in configs["core"]:
        ov.pop("dialect")
    key = (_freeze(ov), _freeze(configs or {}))
    if key not in _CFG:
        import copy
        _CFG[key] = FluffConfig(configs=copy.deepcopy(configs) if configs else None, overrides=ov)
    return _CFG[key]


def path_config(path: str, **overrides: Any):
    """Config as the path-based entry points build it for `path` (nested .sqlfluff files apply)."""
    from sqlfluff.core import FluffConfig

    return FluffConfig.from_path(os.path.dirname(path), overrides=overrides or None)


_LINTER: Dict[int, Any] = {}


def linter(cfg):
    from sqlfluff.core import Linter

    k = id(cfg)
    if k not in _LINTER:
        _LINTER[k] = (Linter(config=cfg), cfg)
    return _LINTER[k][0]


def cfg_for(dialect: str, templater: str, path: Optional[str] = None, **overrides: Any):
    if templater == "path":
        ov = {"dialect": dialect}
        ov.update(overrides)
        key = ("path", os.path.dirname(path or ""), _freeze(ov))
        if key not in _CFG:
            _CFG[key] = path_config(path, **ov)
        return _CFG[key]
    return config(dialect=dialect, templater=templater, **overrides)


def lint_text(text: str, dialect: str = "ansi", templater: str = "jinja", fname: str = "<string>",
              fix: bool = False, **overrides: Any):
    cfg = cfg_for(dialect, templater, fname, **overrides)
    return linter(cfg).lint_string(text, fname=fname, fix=fix)


def parse_text(text: str, dialect: str = "ansi", templater: str = "jinja", fname: str = "<string>", **overrides: Any):
    cfg = cfg_for(dialect, templater, fname, **overrides)
    return linter(cfg).parse_string(text, fname=fname)


def src_digest() -> str:
    """Content hash of the source tree under test (cache key for recordings)."""
    import hashlib

    hsh = hashlib.sha256()
    for root, dirs, files in os.walk(os.path.join(REPO, "src")):
        dirs.sort()
        if "__pycache__" in root:
            continue
        for f in sorted(files):
            if f.endswith((".py", ".cfg", ".json", ".toml")):
                p = os.path.join(root, f)
                hsh.update(p.encode())
                with open(p, "rb") as fh:
                    hsh.update(fh.read())
    return hsh.hexdigest()[:20]
