"""C28 helpers: projections of parse output and of the parse tree, builders of small real trees.

Nothing here judges anything.  The projections are deliberately dumb: a record (python dict/list, or JSON /
YAML parsed back) and the human `parse` text are read *in order* into a pre-order list of
(depth, type, text-or-None); the tree is walked through `.segments` independently of to_tuple.
"""
from __future__ import annotations

import ast
import json
import os
import random
import re
from typing import Any, Dict, List, Optional, Tuple

POS_KEYS = ("start_line_no", "start_line_pos", "start_file_pos", "end_line_no", "end_line_pos", "end_file_pos")


# ---------------------------------------------------------------- projections
def flatten(record: Any, d: int = 0, out: Optional[list] = None) -> list:
    """Record -> [(depth, key, text|None, shape)] in textual order.  shape: s/n/d/l."""
    if out is None:
        out = []
    if not isinstance(record, dict):
        raise ValueError(f"record level is {type(record).__name__}, not a mapping")
    for k, v in record.items():
        if k in POS_KEYS and isinstance(v, int):
            continue
        if isinstance(v, str):
            out.append((d, k, v, "s"))
        elif v is None:
            out.append((d, k, None, "n"))
        elif isinstance(v, dict):
            out.append((d, k, None, "d"))
            flatten(v, d + 1, out)
        elif isinstance(v, list):
            out.append((d, k, None, "l"))
            for e in v:
                flatten(e, d + 1, out)
        else:
            # yaml may hand back a non-string scalar for an unquoted text: keep what was read
            out.append((d, k, v, "s"))
    return out


_LINE = re.compile(r"^(\[L:\s*\d+, P:\s*\d+\]|-)\s*\|( *)((?:\[META\] (?:\(implicit\) )?)?)([^\s:]+):(?:\s+(.*))?$")


def parse_human(text: str) -> Tuple[List[list], List[str]]:
    """`sqlfluff parse` human text -> ([[depth, type, text|None, meta]], other lines).  First variant only."""
    rows: List[list] = []
    other: List[str] = []
    variant = 0
    for line in text.split("\n"):
        if not line.strip():
            continue
        m = _LINE.match(line)
        if not m:
            if re.match(r"^Variant \d+:", line.strip()):
                variant += 1
            other.append(line)
            continue
        if variant > 1:
            continue
        ind, meta, typ, suffix = m.group(2), bool(m.group(3)), m.group(4), m.group(5)
        rows.append([len(ind) // 4, typ, suffix, meta])
    # a row is a leaf when no deeper row follows; its text is the python literal printed as suffix
    out: List[list] = []
    for i, (d, typ, suffix, meta) in enumerate(rows):
        leaf = i + 1 >= len(rows) or rows[i + 1][0] <= d
        txt: Optional[str] = None
        if meta:
            txt = ""
        elif leaf:
            if suffix is not None and suffix[:1] in "'\"":
                try:
                    txt = ast.literal_eval(suffix)
                except Exception:
                    txt = None
            elif suffix is None:
                txt = None
        out.append([d, typ, txt, meta, leaf])
    return out, other


def walk(seg: Any, d: int = 0, out: Optional[list] = None) -> list:
    """Tree -> [(depth, type, text|None, is_meta, holds_code)] by plain recursion over .segments."""
    if out is None:
        out = []
    kids = seg.segments
    if not kids:
        meta = bool(seg.is_meta)
        out.append([d, seg.get_type(), seg.raw, meta, bool(seg.is_code) and not meta])
        return out
    me = [d, seg.get_type(), None, False, False]
    out.append(me)
    start = len(out)
    for k in kids:
        walk(k, d + 1, out)
    me[4] = any(n[4] for n in out[start:] if n[2] is not None)
    return out


# ---------------------------------------------------------------- S->C: real trees from TLC records
_CLS: Dict[Tuple[str, str], Any] = {}
RAW_OF = {"code": "x", "empty": "", "ws": " ", "meta": ""}


def _cls(kind: str, typ: str):
    from sqlfluff.core.parser.segments import CodeSegment, WhitespaceSegment
    from sqlfluff.core.parser.segments.base import BaseSegment
    from sqlfluff.core.parser.segments.meta import MetaSegment

    key = (kind, typ)
    if key not in _CLS:
        if kind == "in":
            base: Any = BaseSegment
            body = {"type": typ, "can_start_end_non_code": True}
        elif kind == "ws":
            base, body = WhitespaceSegment, {"type": typ}
        elif kind == "meta":
            base, body = MetaSegment, {"type": typ}
        else:
            base, body = CodeSegment, {"type": typ}
        _CLS[key] = type(f"VF_{kind}_{typ}", (base,), body)
    return _CLS[key]


_PM = None


def _pm():
    global _PM
    if _PM is None:
        from sqlfluff.core.parser.markers import PositionMarker
        from sqlfluff.core.templaters.base import TemplatedFile

        tf = TemplatedFile.from_string("x x x x x x")
        _PM = PositionMarker(slice(0, 1), slice(0, 1), tf)
    return _PM


def build_tree(nodes: List[dict]):
    """Pre-order [d, t, k] list (as emitted by TreeRecord.tla) -> real BaseSegment / RawSegment tree."""
    pm = _pm()

    def build(i: int):
        n = nodes[i]
        if n["k"] != "in":
            c = _cls(n["k"], n["t"])
            seg = c(pos_marker=pm) if n["k"] == "meta" else c(RAW_OF[n["k"]], pm)
            return seg, i + 1
        kids = []
        j = i + 1
        while j < len(nodes) and nodes[j]["d"] > n["d"]:
            if nodes[j]["d"] != n["d"] + 1:
                raise ValueError("malformed pre-order list")
            k, j = build(j)
            kids.append(k)
        return _cls("in", n["t"])(segments=tuple(kids), pos_marker=pm), j

    root, end = build(0)
    if end != len(nodes):
        raise ValueError("malformed pre-order list")
    return root


SETTINGS = [(co, im, ip) for co in (False, True) for im in (False, True) for ip in (False, True)]


def skey(co: bool, im: bool, ip: Optional[bool] = None) -> str:
    b = lambda x: "t" if x else "f"  # noqa: E731
    return b(co) + b(im) + (b(ip) if ip is not None else "")


def replay_tree(rec: dict) -> List[dict]:
    """Run the real as_record / stringify on the tree of one TLC record.  Returns observed projections."""
    root = build_tree(rec["nodes"])
    obs = []
    for co, im, ip in SETTINGS:
        try:
            r = root.as_record(show_raw=True, code_only=co, include_meta=im, include_position=ip)
            # what the CLI does with it: a JSON round trip must not change what is read back
            flat = flatten(json.loads(json.dumps(r)))
            obs.append({"src": "as_record", "co": co, "im": im, "ip": ip, "seq": [list(x[:3]) for x in flat],
                        "shape": [x[3] for x in flat]})
        except Exception as e:  # noqa: BLE001
            obs.append({"src": "as_record", "co": co, "im": im, "ip": ip, "crash": f"{type(e).__name__}: {e}"})
    for co in (False, True):
        try:
            rows, _ = parse_human(root.stringify(code_only=co))
            obs.append({"src": "stringify", "co": co, "im": True, "ip": False,
                        "seq": [[r[0], r[1], r[2] if (r[4] or r[3]) else None] for r in rows], "shape": None})
        except Exception as e:  # noqa: BLE001
            obs.append({"src": "stringify", "co": co, "im": True, "ip": False, "crash": f"{type(e).__name__}: {e}"})
    return obs


def replay_chunk(recs: List[dict]) -> List[List[dict]]:
    return [replay_tree(r) for r in recs]


# ---------------------------------------------------------------- C->S: recording real parse output
_TOK = re.compile(r"\w+|\s+|[^\w\s]", re.S)


def mutant(sql: str, rnd: random.Random) -> str:
    """Small token-level damage that tends to leave an unparsable section, plus a comment in it."""
    toks = _TOK.findall(sql)
    if len(toks) < 4:
        return sql + " )"
    i = rnd.randrange(len(toks))
    op = rnd.randrange(5)
    if op == 0:
        del toks[i]
    elif op == 1:
        toks.insert(i, rnd.choice([")", "(", ",", "+", "select", "from"]))
    elif op == 2:
        toks.insert(i, " /* c */ ")
        j = rnd.randrange(len(toks))
        toks.insert(j, rnd.choice([")", "+ +", "from from"]))
    elif op == 3:
        toks.insert(i, " -- c\n")
        j = rnd.randrange(len(toks))
        toks.insert(j, " ) ")
    else:
        toks[i:i] = [" ", toks[rnd.randrange(len(toks))], " "]
    return "".join(toks)


class Interner:
    def __init__(self) -> None:
        self.ids: Dict[Any, int] = {}

    def __call__(self, s: Any) -> int:
        if s is None:
            return -1
        if s not in self.ids:
            self.ids[s] = len(self.ids)
        return self.ids[s]


def _cuts(rendered: str, leaf_texts: List[Any], tx: Interner) -> Tuple[List[int], int]:
    """Cut `rendered` at the cumulative lengths of the output's own leaf texts; intern each piece."""
    out, pos = [], 0
    for t in leaf_texts:
        n = len(t) if isinstance(t, str) else 0
        out.append(tx(rendered[pos:pos + n]))
        pos += n
    return out, len(rendered) - pos


CLI_COMBOS = [(fmt, co, im) for fmt in ("json", "yaml", "human") for co in (False, True) for im in (False, True)]


def record_file(item: dict) -> dict:
    """One trace: parse `item` through every output channel and project what each one shows.

    item: {id, path, dialect, templater, sql (None = read path), cli (bool), api (bool)}
    """
    import yaml
    from click.testing import CliRunner

    from . import sq

    path, dialect, templater = item["path"], item["dialect"], item["templater"]
    sql = item.get("sql")
    tmpdir = None
    if sql is None:
        sql = sq.read(path)
        cli_path = path
    else:
        # mutated text: write it where no fixture config applies
        from .tlc import scratch

        tmpdir = scratch("c28")
        cli_path = os.path.join(tmpdir, os.path.basename(path))
        with open(cli_path, "w", encoding="utf-8") as fh:
            fh.write(sql)
    tr: Dict[str, Any] = {"id": item["id"], "file": path, "dialect": dialect, "templater": templater, "events": [],
                          "mutant": item.get("sql") is not None}
    try:
        try:
            parsed = sq.parse_text(sql, dialect=dialect, templater=templater,
                                   fname=path if tmpdir is None else cli_path)
        except Exception as e:  # noqa: BLE001 - a crash of parse itself is C04's business
            tr["skip"] = f"parse raised {type(e).__name__}"
            return tr
        rv = parsed.root_variant()
        if rv is None or rv.tree is None:
            tr["skip"] = "no tree"
            return tr
        tree = rv.tree
        rendered = rv.templated_file.templated_str
        tx, ty = Interner(), Interner()
        nodes = walk(tree)
        tr["tree"] = [[n[0], ty(n[1]), tx(n[2]), int(n[3]), int(n[4])] for n in nodes]
        tr["raws"] = [[tx(s.raw), int(bool(s.is_meta)), int(bool(s.is_code) and not s.is_meta)] for s in tree.raw_segments]
        tr["rendered_len"] = len(rendered)
        tr["nvariants"] = len(parsed.parsed_variants)
        seqs: List[list] = []
        index: Dict[str, int] = {}

        def add(src: str, fmt: str, co: bool, im: bool, rows: Optional[list], note: str = "") -> None:
            ev: Dict[str, Any] = {"ev": "Rec", "src": src, "fmt": fmt, "co": co, "im": im, "human": fmt == "human"}
            if rows is None:
                ev.update({"ev": "NoOutput", "note": note})
                tr["events"].append(ev)
                return
            seq = [[r[0], ty(r[1]), tx(r[2]) if (r[2] is None or isinstance(r[2], str)) else tx(("nonstr", repr(r[2]))),
                    (int(r[3]) if fmt == "human" else -1)] for r in rows]
            key = json.dumps(seq)
            if key not in index:
                index[key] = len(seqs)
                seqs.append(seq)
            ev["s"] = index[key] + 1
            if note:
                ev["note"] = note
            tr["events"].append(ev)

        cuts, rest = _cuts(rendered, [s.raw for s in tree.raw_segments], tx)
        tr["tree_event"] = {"ev": "Tree", "cuts": cuts, "rest": rest}
        # 1. the linter-level record (what `parse` serialises), all five flag settings the CLI/API can ask for
        for co, im, ip in [(False, False, False), (True, False, False), (False, True, True), (True, True, True),
                           (False, True, False)]:
            r = tree.as_record(show_raw=True, code_only=co, include_meta=im, include_position=ip)
            add("as_record" + ("+pos" if ip else ""), "record", co, im, [list(x[:3]) + [False] for x in flatten(r)])
        # 2. the simple API
        if item.get("api"):
            import sqlfluff
            from sqlfluff.api.simple import APIParsingError

            try:
                r = sqlfluff.parse(sql, dialect=dialect)
                add("api", "record", False, False, [list(x[:3]) + [False] for x in flatten(r)])
            except APIParsingError:
                pass
        # 3. the CLI in the three formats
        if item.get("cli"):
            from sqlfluff.cli.commands import parse as cli_parse

            runner = CliRunner()
            for fmt, co, im in [c for c in CLI_COMBOS if tuple(c[1:]) in {tuple(x) for x in item.get("settings", [c[1:] for c in CLI_COMBOS])}]:
                args = [cli_path, "--dialect", dialect, "-f", fmt, "--nocolor"]
                if templater not in ("path",):
                    args += ["--templater", templater]
                if co:
                    args.append("-c")
                if im:
                    args.append("-m")
                res = runner.invoke(cli_parse, args)
                out = res.output
                if fmt == "human":
                    rows, other = parse_human(out)
                    if not rows:
                        add("cli", fmt, co, True, None, f"exit {res.exit_code}: {out[-200:]}")
                        continue
                    # the human format always prints metas unless --code-only
                    add("cli", fmt, co, (not co) or im, [[r[0], r[1], r[2] if (r[4] or r[3]) else None, r[3]] for r in rows],
                        "comment-sections" if any(o.strip() in ("Comments:", "Code:") for o in other) else "")
                    continue
                try:
                    doc = json.loads(out) if fmt == "json" else yaml.safe_load(out)
                    seg = doc[0]["segments"]
                except Exception as e:  # noqa: BLE001
                    add("cli", fmt, co, im, None, f"exit {res.exit_code}, unreadable {fmt}: {type(e).__name__} {out[-200:]}")
                    continue
                if seg is None:
                    add("cli", fmt, co, im, None, "segments: null")
                    continue
                add("cli", fmt, co, im, [list(x[:3]) + [False] for x in flatten(seg)])
        tr["seqs"] = seqs
        tr["types"] = {v: k for k, v in ty.ids.items()}
        tr["ntexts"] = len(tx.ids)
        return tr
    finally:
        if tmpdir:
            import shutil

            shutil.rmtree(tmpdir, ignore_errors=True)
