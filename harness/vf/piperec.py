"""Recorder for whole entry-point calls (parse / lint / fix of one input), shared by C04 and C05.

Wrappers are installed from the harness on functions that exist in the code (no source change):
Linter.render_string, Linter._lex_templated_file, Linter._parse_tokens, Linter.lint_fix_parsed,
LintedFile.fix_string.  Each logs one event at its return; the outermost call logs End or Crash.
"""
from __future__ import annotations

import contextlib
import traceback
from typing import Any, Dict, List, Optional

from . import sq

SEAMS = [("sqlfluff.core.linter.linter", "Linter", "render_string"),
         ("sqlfluff.core.linter.linter", "Linter", "_lex_templated_file"),
         ("sqlfluff.core.linter.linter", "Linter", "_parse_tokens"),
         ("sqlfluff.core.linter.linter", "Linter", "lint_fix_parsed"),
         ("sqlfluff.core.linter.linted_file", "LintedFile", "fix_string")]


def check_seams() -> None:
    import importlib
    from .tlc import MachineryError

    for mod, cls, fn in SEAMS:
        c = getattr(importlib.import_module(mod), cls, None)
        if c is None or not hasattr(c, fn):
            raise MachineryError(f"recorder seam {mod}.{cls}.{fn} is missing in the tree under test")


@contextlib.contextmanager
def recording(events: List[dict]):
    from sqlfluff.core.linter.linted_file import LintedFile
    from sqlfluff.core.linter.linter import Linter

    o_render, o_lex, o_parse = Linter.render_string, Linter._lex_templated_file, Linter._parse_tokens
    o_lint, o_fix = Linter.lint_fix_parsed, LintedFile.fix_string

    def render(self, in_str, fname, config, encoding):
        r = o_render(self, in_str, fname, config, encoding)
        events.append({"ev": "Render", "n": len(r.templated_variants), "ntmp": len(r.templater_violations)})
        return r

    def lex(templated_file, config):
        r = o_lex(templated_file, config)
        events.append({"ev": "Lex", "ntok": len(r[0]) if r[0] is not None else 0, "nlxr": len(r[1])})
        return r

    def parse(tokens, config, fname=None, parse_statistics=False):
        r = o_parse(tokens, config, fname=fname, parse_statistics=parse_statistics)
        lim = config.get("max_parse_nodes")
        events.append({"ev": "Parse", "ntok": len(tokens), "limit": int(lim or 0), "tree": r[0] is not None, "nprs": len(r[1])})
        return r

    def lint(cls, tree, config, rule_pack, fix=False, fname=None, templated_file=None, formatter=None):
        r = o_lint(tree, config=config, rule_pack=rule_pack, fix=fix, fname=fname, templated_file=templated_file, formatter=formatter)
        internal = [v.rule_code() for v in r[1] if (v.desc() or "").startswith("Unexpected exception")]
        events.append({"ev": "Lint", "nviol": len(r[1]), "internal": bool(internal), "internal_rules": sorted(set(internal))})
        return r

    def fix_string(self):
        r = o_fix(self)
        events.append({"ev": "FixString", "changed": bool(r[1])})
        return r

    Linter.render_string = render
    Linter._lex_templated_file = staticmethod(lex)
    Linter._parse_tokens = staticmethod(parse)
    Linter.lint_fix_parsed = classmethod(lint)
    LintedFile.fix_string = fix_string
    try:
        yield
    finally:
        Linter.render_string = o_render
        Linter._lex_templated_file = staticmethod(o_lex)
        Linter._parse_tokens = staticmethod(o_parse)
        Linter.lint_fix_parsed = o_lint
        LintedFile.fix_string = o_fix


def run_entry(text: str, dialect: str, templater: str, mode: str, fname: str = "<string>", tid: str = "",
              overrides: Optional[dict] = None) -> Dict[str, Any]:
    """mode: parse | lint | fix.  Returns one trace."""
    import sys
    if hasattr(sys, "tracebacklimit"):
        # Dialect.ref() sets sys.tracebacklimit = 0 as a side effect when it raises for a dangling grammar
        # reference; undo it so that the crash site of later runs in this process can still be recorded
        del sys.tracebacklimit
    overrides = dict(overrides or {})
    events: List[dict] = []
    trace = {"id": tid, "mode": mode, "input": {"text": text, "dialect": dialect, "templater": templater, "fname": fname,
                                                 "overrides": overrides, "mode": mode}}
    try:
        cfg = sq.cfg_for(dialect, templater, fname, **overrides)
        lnt = sq.linter(cfg)
    except Exception as e:   # configuration problems are usage errors, not crashes of parse/lint/fix
        trace["events"] = [{"ev": "Render", "n": 0, "ntmp": 0}, {"ev": "End", "result": "config-error", "internal": False}]
        trace["config_error"] = f"{type(e).__name__}: {e}"[:200]
        return trace
    with recording(events):
        try:
            if mode == "parse":
                parsed = lnt.parse_string(text, fname=fname)
                events.append({"ev": "End", "result": "parsed", "internal": False, "nviol": len(parsed.violations)})
            else:
                lf = lnt.lint_string(text, fname=fname, fix=(mode == "fix"))
                # same gate as the fixing entry points: a file that did not template has nothing to fix
                if mode == "fix" and lf.templated_file is not None:
                    lf.fix_string()
                vs = lf.get_violations(filter_ignore=False, filter_warning=False)
                internal = sorted({v.rule_code() for v in vs if (v.desc() or "").startswith("Unexpected exception")})
                events.append({"ev": "End", "result": "linted", "internal": bool(internal), "internal_rules": internal,
                               "nviol": len(vs)})
        except Exception as e:
            tb = traceback.extract_tb(e.__traceback__)
            site = next((f"{f.filename.split('/src/sqlfluff/')[-1]}:{f.name}" for f in reversed(tb) if "/src/sqlfluff/" in f.filename), "?")
            events.append({"ev": "Crash", "exc": type(e).__name__, "msg": str(e)[:200], "site": site,
                           "tb": traceback.format_exc()[-700:]})
    trace["events"] = events
    return trace


def _one(item):
    text, dialect, templater, mode, fname, tid, overrides = item
    return run_entry(text, dialect, templater, mode, fname=fname, tid=tid, overrides=overrides)


def run_many(items) -> List[Dict[str, Any]]:
    from .par import pmap

    return pmap(_one, list(items), chunksize=4)


def strip_for_tlc(trace: Dict[str, Any]) -> Dict[str, Any]:
    evs = [{k: v for k, v in e.items() if k not in ("tb", "msg", "site", "internal_rules", "result")} for e in trace["events"]]
    for e in evs:
        e.setdefault("internal", False)
    return {"id": trace["id"], "mode": trace["mode"], "events": evs}
