"""Regenerates the seeded-changes table in DESIGN.md (between the SEEDS markers) from seeded/*/meta.json."""
import glob
import json
import os

from .tlc import VERIF


def main():
    rows = ["| seeded change | property | what it needs to manifest | result | note |", "|---|---|---|---|---|"]
    for f in sorted(glob.glob(os.path.join(VERIF, "seeded", "*", "meta.json"))):
        m = json.load(open(f))
        rows.append("| `{}` — {} | {} | {} | {} | {} |".format(
            m["id"], m["change"].replace("|", "\\|"), m["property"], m["needs_to_manifest"].replace("|", "\\|"),
            m.get("result", "").replace("|", "\\|"), m.get("note", "").replace("|", "\\|")))
    p = os.path.join(VERIF, "DESIGN.md")
    s = open(p).read()
    a, b = "<!-- SEEDS:BEGIN -->", "<!-- SEEDS:END -->"
    i, j = s.index(a) + len(a), s.index(b)
    s = s[:i] + "\n" + "\n".join(rows) + "\n" + s[j:]
    open(p, "w").write(s)
    print(len(rows) - 2, "seeded changes")


if __name__ == "__main__":
    main()
