"""Helpers shared by the C08 / C09 checks: running the parts of spec/Render.tla, concretising the
abstract characters / fragments TLC enumerates, and calling the real templaters.

Nothing here judges: verdicts come from the records TLC emits (C09) or from RenderTrace.tla (C08).
"""
from __future__ import annotations

import os
import traceback
from string import Formatter
from typing import Any, Dict, List, Optional, Tuple

from .tlc import MachineryError, TLCRun, cfg_text, run_tlc

PY_CLASSES = ["LB", "RB", "DOT", "COL", "BANG", "N", "O"]
PH_STYLES = ["colon", "colon_nospaces", "colon_optional_quotes", "numeric_colon", "pyformat", "dollar",
             "dollar_surround", "flyway_var", "question_mark", "numeric_dollar", "percent", "ampersand"]
JJ_KINDS = ["LIT", "NL", "HASH", "BRC", "DLR", "VT", "VE", "VW", "IFT", "IFF", "ELIF", "ELSE", "ENDIF", "FOR", "ENDFOR",
            "SET", "SETB", "CMT", "WIF", "WENDIF", "WV", "RAW", "MAC", "DO"]


def run_part(part: str, maxlen: int, *, py_alphabet=(), styles=(), jj_alphabet=(), invariants=(),
             timeout: int = 1500, workers: Any = "auto", heap: str = "8g") -> TLCRun:
    consts = {"Part": part, "MaxLen": maxlen, "PyAlphabet": set(py_alphabet), "Styles": set(styles),
              "JjAlphabet": set(jj_alphabet)}
    if workers == "auto" and os.environ.get("VF_PROCS"):
        workers = max(1, int(os.environ["VF_PROCS"]))       # shared machine: VF_PROCS also caps TLC's workers
    return run_tlc("Render", cfg_text(constants=consts, invariants=invariants), timeout=timeout,
                   workers=workers, heap=heap)


def site_of(exc: BaseException) -> str:
    """Innermost sqlfluff function on the traceback (stable name of where an exception came from)."""
    site = "?"
    for fs in traceback.extract_tb(exc.__traceback__):
        if "sqlfluff" in fs.filename.replace("\\", "/"):
            site = fs.name
    return site


# ------------------------------------------------------------------------------------ python format
PY_CHAR = {"LB": "{", "RB": "}", "DOT": ".", "COL": ":", "BANG": "!", "N": "s"}
PY_OTHER = [" ", ",", "\n", "-", "é", "'", "(", ")"]
# how the values of the replay context look: they may start / end with characters that also occur in the literals
PY_VALUE_STYLES = ["plain", "other", "name", "dot", "punct"]


def py_text(classes: List[str], other: str = " ") -> str:
    return "".join(PY_CHAR.get(c, other) for c in classes)


def py_value(style: str, other: str, plain: str, k: int, dotted: bool) -> str:
    """Value of a name with k characters.  None of these is empty or a valid format spec for str."""
    body = ("y" if dotted else "x") * k
    if style == "plain":
        return plain
    if style == "other":
        # a value that is itself a quoted Python literal would be un-quoted by the templater's infer_type
        return (body + other) if other in "'\"" else (other + body + other)
    if style == "name":
        return "s" + "_" * k + ("ds" if dotted else "s")
    if style == "dot":
        return "." + body + "."
    return ":" + body + "!"          # punct


def py_context(maxlen: int, style: str = "plain", other: str = " ") -> Dict[str, Any]:
    """Every name s, ss, sss.. has a value; every proper dotted name has one under 'sqlfluff'."""
    ctx: Dict[str, Any] = {"s" * k: py_value(style, other, f"v{k}", k, False) for k in range(1, maxlen + 1)}
    dotted: Dict[str, str] = {}

    def gen(prefix: str, room: int) -> None:
        # prefix ends with a name character; extend with ".s+" groups
        for k in range(1, room):
            name = prefix + "." + "s" * k
            plain = "d" + "".join("0" if ch == "." else "1" for ch in name)
            dotted[name] = py_value(style, other, plain, len(name), True)
            gen(name, room - k - 1)

    for k in range(1, maxlen + 1):
        gen("s" * k, maxlen - k)
    ctx["sqlfluff"] = dotted
    return ctx


class RefFormatter(Formatter):
    """str.format with dotted field names looked up as whole keys of context['sqlfluff']."""

    def get_field(self, field_name, args, kwargs):
        if "." in field_name:
            return kwargs["sqlfluff"][field_name], field_name
        return super().get_field(field_name, args, kwargs)


def ref_format(text: str, ctx: Dict[str, Any]) -> Tuple[Optional[str], Optional[str]]:
    try:
        return RefFormatter().vformat(text, (), ctx), None
    except Exception as e:  # noqa: BLE001 - the reference's failure class is data here
        return None, type(e).__name__


def real_python(text: str, ctx: Dict[str, Any]):
    """-> (kind, rendered, info, tf): kind in render | tmp | exc."""
    from sqlfluff.core.errors import SQLTemplaterError
    from sqlfluff.core.templaters import PythonTemplater

    t = PythonTemplater(override_context=ctx)
    try:
        tf, viols = t.process(in_str=text, fname="c09.sql", config=None)
    except SQLTemplaterError as e:
        return "tmp", None, {"msg": str(e)[:80]}, None
    except Exception as e:  # noqa: BLE001 - an escaping exception is exactly what is being looked for
        return "exc", None, {"exc": type(e).__name__, "site": site_of(e), "msg": str(e)[:120]}, None
    if viols:
        return "tmp", tf.templated_str, {"msg": str(viols[0])[:80]}, tf
    return "render", tf.templated_str, {}, tf


# ------------------------------------------------------------------------------------ placeholder
PH_CHAR = {"COLON": ":", "DOLLAR": "$", "PCT": "%", "QM": "?", "AMP": "&", "LBR": "{", "RBR": "}",
           "LPAR": "(", "RPAR": ")", "SQ": "'", "DQ": '"', "W": "a", "S": "s", "D": "1", "US": "_",
           "DASH": "-", "BS": "\\"}
# characters that mean nothing to a style (what class O may stand for)
PH_OTHER = {
    "colon": [" ", ",", "\n", "$", "?", "'", "%", "&", "="],
    "colon_nospaces": [" ", ",", "\n", "$", "?", "'", "%", "&"],
    "colon_optional_quotes": [" ", ",", "\n", "$", "?", "%", "&", "\\", "="],
    "numeric_colon": [" ", ",", "\n", "$", "?", "'", "%", "&"],
    "pyformat": [" ", ",", "\n", "$", "?", "'"],
    "dollar": [" ", ",", "\n", "?", "'", "%", "&", "("],
    "dollar_surround": [" ", ",", "\n", "?", "'", "%", "&", "{"],
    "flyway_var": [" ", ",", "\n", "?", "'", "%", "&"],
    "question_mark": [" ", ",", "\n", "$", "'", "%", "&", "="],
    "numeric_dollar": [" ", ",", "\n", "?", "'", "%", "&", "="],
    "percent": [" ", ",", "\n", "$", "?", "'", "&", "("],
    "ampersand": [" ", ",", "\n", "$", "?", "'", "%", ":"],
}
PH_VALUES = {"a": "va", "s": "sv", "1": 7, "aa": "v,aa", "a:a": "fw", "a-a": "dash"}


def ph_text(classes: List[str], other: str) -> str:
    return "".join(PH_CHAR.get(c, other) for c in classes)


def ph_token(tok: List[str], other: str) -> str:
    if tok[0] == "=":
        return str(PH_VALUES[ph_text(tok[1:], other)])
    if tok[0] == "~":
        return tok[1]
    return PH_CHAR.get(tok[0], other)


def real_placeholder(text: str, style: str):
    from sqlfluff.core.templaters import PlaceholderTemplater

    t = PlaceholderTemplater(override_context=dict(PH_VALUES, param_style=style))
    try:
        tf, viols = t.process(in_str=text, fname="c09.sql", config=None)
    except Exception as e:  # noqa: BLE001
        return "exc", None, {"exc": type(e).__name__, "site": site_of(e), "msg": str(e)[:120]}
    return ("tmp" if viols else "render"), tf, {}


# ------------------------------------------------------------------------------------ jinja skeletons
JJ_TEXT = {
    "NL": "\n",
    "HASH": "\n# not a line statement\n",
    "BRC": "'{\"k\": 1}'", "DLR": "${x}",
    "VT": "{{ v }}", "VE": "{{ e }}", "VW": "{{ w }}",
    "IFT": "{% if t %}", "IFF": "{% if f %}", "ELIF": "{% elif t2 %}", "ELSE": "{% else %}", "ENDIF": "{% endif %}",
    "FOR": "{% for i in r %}", "ENDFOR": "{% endfor %}",
    "SET": "{% set z = 'q' %}{{ z }}", "SETB": "{% set zb %}b{{ v }}{% endset %}{{ zb }}",
    "CMT": "{# c #}", "WIF": "{%- if t -%}", "WENDIF": "{%- endif -%}", "WV": "{{- v -}}",
    "RAW": "{% raw %}{{ x }}{% endraw %}",
    "MAC": "{% macro mm(a) %}M{{ a }}{% endmacro %}{{ mm(1) }}",
    "DO": "{% do l.append(1) %}{{ l|length }}",
}
JJ_LITS = ["SELECT a", " , b ", "\n  c", " FROM t ", "x\n"]
JJ_CONTEXT = {"v": "col", "e": "", "w": " ", "t": "True", "f": "False", "t2": "True", "r": "[1, 2]", "l": "[]"}


def jj_source(frags: List[str]) -> str:
    out, k = [], 0
    for f in frags:
        if f == "LIT":
            out.append(JJ_LITS[k % len(JJ_LITS)])
            k += 1
        else:
            out.append(JJ_TEXT[f])
    return "".join(out)
