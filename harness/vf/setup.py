"""MANIFEST.setup_cmd: check the toolchain offline and SANY-parse every specification module."""
import glob
import os
import shutil
import subprocess
import sys
from concurrent.futures import ThreadPoolExecutor

from .tlc import CP, JAR, SPEC_DIR, MachineryError, scratch


def main() -> int:
    for need in ("java",):
        if not shutil.which(need):
            print(f"setup: {need} missing"); return 2
    if not os.path.exists(JAR):
        print("setup: tla2tools.jar missing"); return 2
    import sqlfluff  # noqa: F401  (the repository under test, editable install from /repo/src)
    d = scratch("sany")
    try:
        mods = []
        for f in glob.glob(os.path.join(SPEC_DIR, "**", "*.tla"), recursive=True):
            shutil.copy(f, d)
            with open(f) as fh:
                if "TLAPS" in fh.read().split("====")[0].split("EXTENDS")[-1].split("\n")[0]:
                    continue        # proof modules extend TLAPS (tlapm's library); they are checked by tlapm, not SANY
            mods.append(os.path.basename(f))
        def one(m):
            p = subprocess.run(["java", "-cp", CP, "tla2sany.SANY", m], cwd=d, capture_output=True, text=True)
            bad = p.returncode != 0 or "Semantic errors" in p.stdout or "Parse Error" in p.stdout or "Fatal errors" in p.stdout or "*** Errors" in p.stdout
            return m, bad, p.stdout
        with ThreadPoolExecutor(8) as ex:
            res = list(ex.map(one, sorted(mods)))
        bad = [r for r in res if r[1]]
        for m, _, out in bad:
            print(f"setup: SANY rejects {m}\n{out[-1500:]}")
        print(f"setup: {len(mods)} specification modules parsed, {len(bad)} rejected")
        # a module SANY rejects makes the checks that use it end as machinery failures (exit 2); setup itself
        # only fails when the toolchain is unusable, so that one module under construction cannot block the rest
        return 0
    finally:
        shutil.rmtree(d, ignore_errors=True)


if __name__ == "__main__":
    sys.exit(main())
