"""Merge findings_proposed/<Cnn>.json into known_findings.json (integration step, run by hand):
   python -m vf.merge_findings C30 C10 ..."""
import json
import os
import sys

from .tlc import VERIF


def main(props):
    kf = os.path.join(VERIF, "known_findings.json")
    data = json.load(open(kf))
    have = {f["key"]: i for i, f in enumerate(data["findings"])}
    for p in props:
        fn = os.path.join(VERIF, "findings_proposed", f"{p}.json")
        if not os.path.exists(fn):
            print(f"{p}: no proposals")
            continue
        d = json.load(open(fn))
        items = d if isinstance(d, list) else d.get("findings", [])
        n = 0
        for it in items:
            it.setdefault("status", "open")
            it.setdefault("property", p)
            want = "fixed: property=" if it["status"] == "fixed" else "KNOWN-FINDING: property="
            if not it["line"].startswith(f"{want}{it['property']} "):
                raise SystemExit(f"{it['key']}: malformed line {it['line'][:60]!r}")
            if it["key"] in have:
                data["findings"][have[it["key"]]] = it
            else:
                data["findings"].append(it)
                have[it["key"]] = len(data["findings"]) - 1
            n += 1
        print(f"{p}: {n} entries merged")
    json.dump(data, open(kf, "w"), indent=1)


if __name__ == "__main__":
    main(sys.argv[1:])
