"""C19 corpus leg: real fixture files (every dialect) through the three entry points, lint and fix.

No abstract scenario behind these runs, hence no S->C verdict: the recorded observations are validated by
OutcomeTrace.tla (Prop = "C19": exit status, violation records and fixed text of stdin / API against the path run).
Recording is cached like the scenario recording (key = source digest + tier + seed + this file + scenario.py).
"""
from __future__ import annotations

import fcntl
import hashlib
import json
import os
import shutil
import time
from typing import Any, Dict, List, Tuple

from . import scenario as S
from . import sq
from .par import pmap
from .tlc import MachineryError, scratch

FIX_RULES = "LT01,LT02,LT12,CP01,CP02,AL01,CV03"


def _job(job: Tuple[str, str, str, str]) -> dict:
    cid, path, dialect, cmd = job
    S.install_recorders()
    with open(path, "rb") as fh:
        raw = fh.read()
    try:
        text = raw.decode("utf-8")
    except UnicodeDecodeError:
        return {"id": cid, "skip": "not utf-8"}
    if "\r" in text or len(text) > 6000:
        return {"id": cid, "skip": "newline style / size"}   # stdin text is passed through click's text layer
    cfg = ["[sqlfluff]", f"dialect = {dialect}", "templater = jinja", "encoding = utf-8"]
    if cmd == "fix":
        # keywords forced to lower case: nearly every fixture gets rewritten, so the fixed texts are worth comparing
        cfg += [f"rules = {FIX_RULES}", "[sqlfluff:rules:capitalisation.keywords]", "capitalisation_policy = lower"]
    plan = {"root_cfg": "\n".join(cfg) + "\n", "byte_limit": None, "char_limit": None,
            "files": [{"rel": "d1/q1.sql", "text": text, "nested_cfg": None, "nbytes": len(raw), "nchars": len(text), "byte_limit": 0}]}
    rec = {"id": cid, "cmd": cmd, "feu": False, "nofail": False, "skipfail": False, "procs": 1, "limkind": "none",
           "runaway": 0, "cfgsrc": "root", "cfgitem": "all", "family": "corpus",
           "files": [{"err": "corpus", "esup": dialect, "lint": os.path.basename(path), "lsup": cmd, "size": "na", "passes": 0}]}
    root = scratch("scn")
    cwd = os.getcwd()
    out: Dict[str, Any] = {"id": cid, "rec": rec, "plan": plan, "obs": [], "error": None, "path": path}
    try:
        S.materialise(root, plan)
        os.chdir(root)
        t0 = time.time()
        try:
            out["obs"].append(S.run_cli(root, rec, plan, stdin=False))
            out["obs"].append(S.run_cli(root, rec, plan, stdin=True))
            out["obs"].append(S.run_api_string(root, rec, plan))
        except Exception:
            import traceback
            out["error"] = traceback.format_exc()[-1500:]
        out["wall"] = round(time.time() - t0, 3)
    finally:
        os.chdir(cwd)
        shutil.rmtree(root, ignore_errors=True)
    out["facts"] = [{"V": [], "notree": False}]
    return out


def corpus_runs(tier: str, seed: int) -> Tuple[List[dict], str]:
    n = 42 if tier == "quick" else 336
    sample = sq.corpus_sample(n, seed)
    jobs = []
    for k, (path, dialect, _t) in enumerate(sample):
        jobs.append((f"k{k}l", path, dialect, "lint"))
        if k % 3 == 0:
            jobs.append((f"k{k}f", path, dialect, "fix"))
    os.makedirs(S.CACHE, exist_ok=True)
    key = hashlib.sha256(json.dumps([sq.src_digest(), tier, seed, [j[:2] for j in jobs],
                                     S._digest_files([os.path.abspath(__file__), os.path.abspath(S.__file__)])]).encode()).hexdigest()[:24]
    path = os.path.join(S.CACHE, f"scencorpus-{key}.json")
    lock = open(os.path.join(S.CACHE, "scencorpus.lock"), "w")
    fcntl.flock(lock, fcntl.LOCK_EX)
    try:
        if os.path.exists(path):
            with open(path) as fh:
                data = json.load(fh)
            if data.get("key") == key:
                return data["runs"], "hit"
        runs = [r for r in pmap(_job, jobs, chunksize=2) if not r.get("skip")]
        bad = [r for r in runs if r["error"]]
        if bad:
            raise MachineryError(f"corpus recorder failed on {bad[0]['path']}:\n{bad[0]['error']}")
        tmp = path + f".tmp{os.getpid()}"
        with open(tmp, "w") as fh:
            json.dump({"key": key, "runs": runs}, fh)
        os.replace(tmp, path)
        olds = sorted((f for f in os.listdir(S.CACHE) if f.startswith("scencorpus-") and f.endswith(".json")),
                      key=lambda f: os.path.getmtime(os.path.join(S.CACHE, f)))
        for f in olds[:-4]:
            try:
                os.remove(os.path.join(S.CACHE, f))
            except OSError:
                pass
        return runs, "miss"
    finally:
        fcntl.flock(lock, fcntl.LOCK_UN)
        lock.close()
