"""C24 recorder: runs the real path-based entry points on copies of a generated directory.

Executed as a subprocess (`python -m vf.c24_run job.json out.json`) because the code under test creates
its own (spawned) worker pool.  Nothing here judges anything: each run is recorded as

  events : the lines of the NDJSON trace file, in file order.  Worker/main lines come from the runner hook
           (hooks/runner_hook.patch, only when it is applied); `add`, `persist` and `rskip` lines come from
           wrappers installed here, in the main process only, around LintedDir.add, LintedFile.persist_tree
           and Linter.render_file (no source change) and are appended to the same file the same way.
  final  : what the run reported -- records per file, file contents on disk, files_skipped, exit status /
           exit-relevant stats, the exception that escaped (if any).

A job is one directory template + a list of runs; every run gets a fresh copy of the template and is made
with cwd = that copy, so that paths are relative and identical across runs.
"""
from __future__ import annotations

import hashlib
import itertools
import json
import os
import shutil
import sys
import threading
import time
import traceback

_seq = itertools.count(1)
_lock = threading.Lock()   # LintedDir.add/persist_tree run in the main thread, render_file also in the pool's feeder thread
_MAIN_PID = os.getpid()
_MAIN_THREAD = threading.main_thread()


def _emit(ev: dict) -> None:
    path = os.environ.get("SQLFLUFF_VERIF_TRACE")
    if not path:
        return
    with _lock:   # numbering and writing are one step, so the wrapper stream is contiguous in file order
        ev = dict(ev, pid=os.getpid(), tid=threading.get_ident(), seq=next(_seq), src="wrap")
        fd = os.open(path, os.O_WRONLY | os.O_APPEND | os.O_CREAT, 0o644)
        try:
            os.write(fd, (json.dumps(ev) + "\n").encode())
        finally:
            os.close(fd)


def _sha(path: str) -> str:
    try:
        with open(path, "rb") as fh:
            return hashlib.sha256(fh.read()).hexdigest()[:16]
    except FileNotFoundError:
        return "absent"


def install_wrappers() -> None:
    from sqlfluff.core.errors import SQLFluffSkipFile
    from sqlfluff.core.linter.linted_dir import LintedDir
    from sqlfluff.core.linter.linted_file import LintedFile
    from sqlfluff.core.linter.linter import Linter

    for cls, name in ((LintedDir, "add"), (LintedFile, "persist_tree"), (Linter, "render_file")):
        if not hasattr(cls, name):
            raise RuntimeError(f"recorder seam missing: {cls.__name__}.{name}")

    orig_add = LintedDir.add

    def add(self, file):
        n0 = len(self._records)
        orig_add(self, file)
        rec = self._records[-1] if len(self._records) > n0 else None
        _emit({"event": "add", "fname": file.path, "dir": self.path,
               "rec": None if rec is None else {"violations": rec["violations"], "statistics": rec["statistics"]}})

    LintedDir.add = add

    orig_persist = LintedFile.persist_tree

    def persist_tree(self, *a, **k):
        pre = _sha(self.path)
        try:
            return orig_persist(self, *a, **k)
        finally:
            _emit({"event": "persist", "fname": self.path, "pre": pre, "post": _sha(self.path),
                   "main": os.getpid() == _MAIN_PID and threading.current_thread() is _MAIN_THREAD})

    LintedFile.persist_tree = persist_tree

    orig_render = Linter.render_file

    def render_file(self, fname, root_config):
        try:
            return orig_render(self, fname, root_config)
        except SQLFluffSkipFile:
            _emit({"event": "rskip", "fname": fname})
            raise

    Linter.render_file = render_file


def _snapshot(root: str) -> dict:
    out = {}
    for d, dirs, files in os.walk(root):
        dirs.sort()
        for f in sorted(files):
            p = os.path.join(d, f)
            out[os.path.normpath(os.path.relpath(p, root))] = _sha(p)
    return out


def _user_rules():
    from vf.c24_rule import Rule_ZZ01

    return [Rule_ZZ01]


def one_run(job: dict, run: dict, work: str) -> dict:
    from sqlfluff.core import FluffConfig, Linter

    copy = os.path.join(work, run["id"])
    shutil.copytree(job["template"], copy)
    trace = os.path.join(work, run["id"] + ".ndjson")
    open(trace, "w").close()
    os.environ["SQLFLUFF_VERIF"] = "1"
    os.environ["SQLFLUFF_VERIF_TRACE"] = trace
    os.environ["SQLFLUFF_VERIF_SCHED"] = json.dumps(run.get("sched") or {})
    cwd = os.getcwd()
    os.chdir(copy)
    final: dict = {"raised": None, "records": None, "skipped": None, "exit": None}
    t0 = time.time()
    try:
        op, n, paths = run["op"], run["n"], list(run["paths"])
        overrides = dict(job.get("overrides") or {})
        overrides.update(run.get("overrides") or {})
        Linter.allow_process_parallelism = run.get("runner", "process") == "process"
        if run["surface"] == "cli":
            from click.testing import CliRunner

            from sqlfluff.cli import commands

            args = ["--processes", str(n), "--disable-progress-bar"]
            for k, v in sorted(overrides.items()):
                args += ["--" + k.replace("_", "-"), str(v)]
            if op == "lint":
                res = CliRunner().invoke(commands.lint, args + ["--format", "json"] + paths)
                try:
                    final["records"] = [{"filepath": r["filepath"], "violations": r["violations"]}
                                        for r in json.loads(res.stdout[res.stdout.index("["):])]
                except Exception:
                    final["records"] = None
            else:
                res = CliRunner().invoke(commands.fix, args + paths)
            final["exit"] = res.exit_code
            final["output_tail"] = (res.output or "")[-400:]
            if res.exception is not None and not isinstance(res.exception, SystemExit):
                final["raised"] = type(res.exception).__name__
        else:
            cfg = FluffConfig.from_root(overrides=overrides or None)
            lnt = Linter(config=cfg, user_rules=_user_rules() if run["surface"] == "api_user_rules" else None)
            kw = {"lint": dict(fix=False), "fixcheck": dict(fix=True),
                  "fix": dict(fix=True, apply_fixes=True)}[op]
            try:
                result = lnt.lint_paths(tuple(paths), processes=n, **kw)
            except Exception as e:  # the code under test let an exception escape
                final["raised"] = type(e).__name__
                final["traceback_tail"] = traceback.format_exc()[-600:]
            else:
                final["records"] = [{"filepath": r["filepath"], "violations": r["violations"],
                                     "statistics": r["statistics"]} for r in result.as_records()]
                final["skipped"] = result.files_skipped
                final["exit"] = json.dumps([
                    result.stats(1, 0)["exit code"],
                    bool(result.files_skipped),
                    sum(p.num_unfixable_lint_errors for p in result.paths) > 0,
                    sum(p.num_unfiltered_tmp_prs_errors for p in result.paths) > 0])
                final["dirs"] = [p.path for p in result.paths]
    finally:
        os.chdir(cwd)
        Linter.allow_process_parallelism = True
    final["contents"] = _snapshot(copy)
    with open(trace) as fh:
        events = [json.loads(line) for line in fh if line.strip()]
    shutil.rmtree(copy, ignore_errors=True)
    os.unlink(trace)
    return {"id": run["id"], "events": events, "final": final, "wall_s": round(time.time() - t0, 2)}


def main(argv) -> int:
    with open(argv[1]) as fh:
        job = json.load(fh)
    import logging

    logging.getLogger("sqlfluff").setLevel(logging.CRITICAL)  # the skip/"unable to lint" warnings are expected
    install_wrappers()
    work = job["work"]
    os.makedirs(work, exist_ok=True)
    out = []
    for run in job["runs"]:
        out.append(one_run(job, run, work))
    with open(argv[2], "w") as fh:
        json.dump({"job": job["id"], "runs": out}, fh)
    return 0


if __name__ == "__main__":
    sys.exit(main(sys.argv))
