"""Fault injection for the write path of `sqlfluff fix` (property C26).

A *plan* is the list of deviations from success that spec/AtomicWrite.tla enumerated:
``[file index, op, what]`` with ``op`` one of the model's operations (stat, open, wrap, write, flush, fsync,
close, chmod, rename, copen, cdata, cstat, cunlink, remove) and ``what`` in raise / raise-empty /
raise-partial / die / die-partial.  `replay_plan` runs one plan against the real code in a forked child:
the child installs wrappers around the os / tempfile / shutil functions the write path uses (no source
change), the wrappers raise OSError or end the process with os._exit at the planned operation, and the
parent then *projects* the directory (names, body classes, modes) into an observation for AtomicWriteObs.

Nothing here judges: the observation is validated by TLC against AtomicWriteOps!ObsClause.
"""
from __future__ import annotations

import builtins
import codecs
import errno
import io
import json
import os
import shutil
import stat
import tempfile
from typing import Dict, List, Optional

BOM = codecs.BOM_UTF8
EXIT_DIED = 77

# the fixture files: index -> spec.  f1 carries a UTF-8 BOM and mode 0640, f2 is plain UTF-8 with mode 0604.
FILES = {
    1: dict(name="f1", enc="utf-8-sig", mode=0o640, bom=True,
            dirty="SELECT a  FROM b -- é\n", fixed="SELECT a FROM b -- é\n"),
    2: dict(name="f2", enc="utf-8", mode=0o604, bom=False,
            dirty="SELECT c  FROM d -- üß üß äöü\n", fixed="SELECT c FROM d -- üß üß äöü\n"),
    3: dict(name="f3", enc="utf-8", mode=0o604, bom=False,
            dirty="SELECT e  FROM f\n", fixed="SELECT e FROM f\n"),
}
SUFFIX = "_fx"


def enc_bytes(spec: dict, text: str) -> bytes:
    return (BOM if spec["bom"] else b"") + text.encode("utf-8")


def orig_bytes(i: int, skip: bool) -> bytes:
    spec = FILES[i]
    return enc_bytes(spec, spec["fixed"] if skip else spec["dirty"])


def fixed_bytes(i: int) -> bytes:
    return enc_bytes(FILES[i], FILES[i]["fixed"])


def materialise(d: str, nfiles: int, skip: List[int]) -> None:
    for i in range(1, nfiles + 1):
        p = os.path.join(d, FILES[i]["name"] + ".sql")
        with open(p, "wb") as fh:
            fh.write(orig_bytes(i, i in skip))
        os.chmod(p, FILES[i]["mode"])


# ---------------------------------------------------------------------------------------------- projection
def classify(data: Optional[bytes], i: int, skip: bool) -> str:
    if data is None:
        return "absent"
    if data == orig_bytes(i, skip):
        return "orig"
    fb = fixed_bytes(i)
    if data == fb:
        return "fixed"
    if data == b"":
        return "empty"
    if fb.startswith(data):
        return "partial"
    text = FILES[i]["fixed"]
    for alt in (text.encode("utf-8"), BOM + text.encode("utf-8"), text.encode("utf-16"), text.encode("latin-1", "replace"),
                text.encode("cp1252", "replace")):
        if data == alt:
            return "fixed-wrongenc"
    return "other"


def project(d: str, nfiles: int, skip: List[int], suffix: bool) -> dict:
    names = sorted(os.listdir(d))
    files = []
    claimed = set()
    for i in range(1, nfiles + 1):
        base = FILES[i]["name"]
        inp, out = base + ".sql", base + (SUFFIX if suffix else "") + ".sql"

        def st(n):
            p = os.path.join(d, n)
            if n not in names:
                return {"body": "absent", "mode": "none"}
            with open(p, "rb") as fh:
                data = fh.read()
            return {"body": classify(data, i, i in skip), "mode": "%04o" % stat.S_IMODE(os.stat(p).st_mode)}

        tmps = [n for n in names if n.startswith(base) and n not in (inp, out)]
        claimed.update([inp, out], tmps)
        files.append({"skip": i in skip, "omode": "%04o" % FILES[i]["mode"], "inp": st(inp), "out": st(out), "ntmp": len(tmps)})
    return {"files": files, "strays": len([n for n in names if n not in claimed]), "names": names}


# ---------------------------------------------------------------------------------------------- injection
class Injector:
    """Lives in the forked child.  `hit(op)` is called by the wrappers at each operation of the write path."""

    def __init__(self, plan, report_fd: int):
        self.plan = {(int(i), op): what for i, op, what in plan}
        self.fd = report_fd
        self.cur: Optional[int] = None
        self.input = self.output = self.tmp = None
        self.stat_seen = False
        self.kind = "os"
        self.calls: List[str] = []

    def say(self, obj) -> None:
        os.write(self.fd, (json.dumps(obj) + "\n").encode())

    def arm(self, idx, input_path, output_path):
        self.cur, self.input, self.output, self.tmp, self.stat_seen = idx, input_path, output_path, None, False

    def disarm(self):
        self.cur = None

    @property
    def armed(self):
        return self.cur is not None

    def hit(self, op: str) -> Optional[str]:
        """Returns the planned deviation for (current file, op), having reported it; dies here for `die`."""
        self.say({"op": [self.cur, op]})
        what = self.plan.get((self.cur, op))
        if what:
            self.say({"fired": [self.cur, op, what]})
            if what == "die":
                os._exit(EXIT_DIED)
            what, _, kind = what.partition(":")          # "raise:kbd" -> raise, KeyboardInterrupt
            self.kind = kind or "os"
        return what

    def die(self):
        os._exit(EXIT_DIED)

    def err(self, code, op):
        """The exception to raise for the deviation just returned by hit(): OSError, or a BaseException that is
        not an Exception (KeyboardInterrupt = Ctrl-C, SystemExit = SIGTERM handler / sys.exit)."""
        if self.kind == "kbd":
            return KeyboardInterrupt(f"injected KeyboardInterrupt at {op}")
        if self.kind == "exit":
            return SystemExit(f"injected SystemExit at {op}")
        return OSError(code, f"injected fault at {op}")


class FileProxy:
    """Stands for the text file object inside NamedTemporaryFile: write / flush / close are injection points."""

    def __init__(self, real, inj: Injector):
        object.__setattr__(self, "_real", real)
        object.__setattr__(self, "_inj", inj)

    def __getattr__(self, name):
        return getattr(self._real, name)

    def __setattr__(self, name, value):
        setattr(self._real, name, value)

    def write(self, s):
        what = self._inj.hit("write")
        if what in ("raise-partial", "die-partial"):
            self._real.write(s[: max(1, len(s) // 2)])
            self._real.flush()
        if what and what.startswith("die"):
            self._inj.die()
        if what and what.startswith("raise"):
            raise self._inj.err(errno.ENOSPC, "write")
        return self._real.write(s)

    def flush(self):
        what = self._inj.hit("flush")
        if what == "raise":
            raise self._inj.err(errno.ENOSPC, "flush")
        return self._real.flush()

    def close(self):
        return self._real.close()

    def __enter__(self):
        return self

    def __exit__(self, exc, value, tb):
        if exc is None and not self._real.closed:
            what = self._inj.hit("close")
            self._real.close()
            if what == "raise":
                raise self._inj.err(errno.EIO, "close")
        else:
            self._real.close()
        return None


class _IoShim:
    """Replaces the name `_io` inside the tempfile module only."""

    def __init__(self, inj: Injector):
        self._inj = inj

    def __getattr__(self, name):
        return getattr(io, name)

    def open(self, *a, **k):
        f = io.open(*a, **k)
        inj = self._inj
        if not inj.armed:
            return f
        what = inj.hit("wrap")
        if what == "raise":
            f.close()
            raise inj.err(errno.EIO, "wrap")
        return FileProxy(f, inj)


def install(inj: Injector) -> None:
    """Wrap the seams of the write path.  Called in the child only (never undone: the child exits)."""
    from sqlfluff.core.linter.linted_file import LintedFile

    real_safe = LintedFile._safe_create_replace_file

    def safe(input_path, output_path, write_buff, encoding):
        base = os.path.basename(input_path)
        idx = next(i for i, s in FILES.items() if base == s["name"] + ".sql")
        inj.arm(idx, input_path, output_path)
        inj.say({"call": [idx, os.path.basename(output_path), encoding]})
        try:
            return real_safe(input_path, output_path, write_buff, encoding)
        finally:
            inj.disarm()

    LintedFile._safe_create_replace_file = staticmethod(safe)

    r_stat, r_open, r_fsync, r_chmod, r_rename, r_unlink, r_remove = (os.stat, os.open, os.fsync, os.chmod, os.rename,
                                                                       os.unlink, os.remove)

    def w_stat(path, *a, **k):
        if inj.armed and not inj.stat_seen and isinstance(path, str) and path == inj.input:
            inj.stat_seen = True
            if inj.hit("stat") == "raise":
                raise inj.err(errno.EACCES, "stat")
        return r_stat(path, *a, **k)

    def w_open(path, flags, *a, **k):
        if inj.armed and flags & os.O_CREAT and flags & os.O_EXCL:
            inj.tmp = path
            if inj.hit("open") == "raise":
                raise inj.err(errno.ENOSPC, "open")
        return r_open(path, flags, *a, **k)

    def w_fsync(fd):
        if inj.armed and inj.hit("fsync") == "raise":
            raise inj.err(errno.EIO, "fsync")
        return r_fsync(fd)

    def w_chmod(path, *a, **k):
        if inj.armed and path == inj.tmp and inj.hit("chmod") == "raise":
            raise inj.err(errno.EPERM, "chmod")
        return r_chmod(path, *a, **k)

    def w_rename(src, dst, *a, **k):
        if inj.armed and src == inj.tmp and inj.hit("rename") == "raise":
            raise inj.err(errno.EBUSY, "rename")
        return r_rename(src, dst, *a, **k)

    def w_unlink(path, *a, **k):
        if inj.armed and path == inj.tmp and (inj.cur, "rename") in inj.plan and inj.hit("cunlink") == "raise":
            raise inj.err(errno.EPERM, "cunlink")
        return r_unlink(path, *a, **k)

    def w_remove(path, *a, **k):
        if inj.armed and path == inj.tmp and inj.hit("remove") == "raise":
            raise inj.err(errno.EPERM, "remove")
        return r_remove(path, *a, **k)

    os.stat, os.open, os.fsync, os.chmod, os.rename, os.unlink, os.remove = (w_stat, w_open, w_fsync, w_chmod, w_rename,
                                                                             w_unlink, w_remove)
    tempfile._io = _IoShim(inj)

    # shutil.move's copy fallback
    def s_open(file, mode="r", *a, **k):
        if inj.armed and "w" in mode and isinstance(file, str) and os.path.abspath(file) == os.path.abspath(inj.output):
            if inj.hit("copen") == "raise":
                raise inj.err(errno.EACCES, "copen")
        return builtins.open(file, mode, *a, **k)

    def s_copy(fsrc, fdst, *a, **k):
        what = inj.hit("cdata") if inj.armed else None
        data = fsrc.read()
        if what in ("raise-partial", "die-partial"):
            fdst.write(data[: max(1, len(data) // 2)])
            fdst.flush()
        if what and what.startswith("die"):
            inj.die()
        if what and what.startswith("raise"):
            raise inj.err(errno.ENOSPC, "cdata")
        fdst.write(data)

    r_copystat = shutil.copystat

    def s_copystat(src, dst, *a, **k):
        if inj.armed and inj.hit("cstat") == "raise":
            raise inj.err(errno.EPERM, "cstat")
        return r_copystat(src, dst, *a, **k)

    shutil.open = s_open                  # module global shadowing the builtin, for shutil only
    shutil._fastcopy_sendfile = s_copy
    shutil.copyfileobj = s_copy
    shutil.copystat = s_copystat


# ---------------------------------------------------------------------------------------------- one replay
def replay_plan(case: dict, base: str, linter=None) -> dict:
    """Run one plan against the real code in a forked child; return the observation.

    case: {id, level in safe|persist|paths, nfiles, skip: [..], suffix: bool, plan: [[i, op, what], ..]}
    """
    d = tempfile.mkdtemp(prefix="c26-", dir=base)
    nfiles, skip, suffix = case["nfiles"], list(case["skip"]), bool(case["suffix"])
    old_umask = os.umask(0o022)
    try:
        materialise(d, nfiles, skip)
        r, w = os.pipe()
        pid = os.fork()
        if pid == 0:
            code = 3
            try:
                os.close(r)
                inj = Injector(case["plan"], w)
                install(inj)
                try:
                    _action(case, d, linter)
                    inj.say({"outcome": "ok"})
                except BaseException as e:  # noqa: the code under test re-raises whatever was injected
                    inj.say({"outcome": "exc", "exc": f"{type(e).__name__}: {e}"})
                code = 0
            finally:
                os._exit(code)
        os.close(w)
        chunks = []
        while True:
            b = os.read(r, 65536)
            if not b:
                break
            chunks.append(b)
        os.close(r)
        _, status = os.waitpid(pid, 0)
        msgs = [json.loads(x) for x in b"".join(chunks).decode().splitlines() if x.strip()]
        exit_code = os.waitstatus_to_exitcode(status)
        outcome = next((m["outcome"] for m in msgs if "outcome" in m), None)
        if exit_code == EXIT_DIED:
            outcome = "dead"
        elif exit_code != 0 or outcome is None:
            outcome = f"harness-failure(exit={exit_code})"
        proj = project(d, nfiles, skip, suffix)
        fired = [m["fired"] for m in msgs if "fired" in m]
        obs = {"suffix": suffix, "outcome": outcome, "strays": proj["strays"], "files": proj["files"],
               "remove_failed": any(f[1] == "remove" and f[2].startswith("raise") for f in fired)}
        return {"id": case["id"], "obs": obs, "fired": fired, "ops": [m["op"] for m in msgs if "op" in m],
                "calls": [m["call"] for m in msgs if "call" in m], "names": proj["names"],
                "exc": next((m.get("exc") for m in msgs if "exc" in m), None)}
    finally:
        os.umask(old_umask)
        shutil.rmtree(d, ignore_errors=True)


def _action(case: dict, d: str, linter) -> None:
    from sqlfluff.core.linter.linted_file import LintedFile

    suffix = SUFFIX if case["suffix"] else ""
    level = case["level"]
    if level == "safe":
        for i in range(1, case["nfiles"] + 1):
            if i in case["skip"]:
                continue
            spec = FILES[i]
            inp = os.path.join(d, spec["name"] + ".sql")
            out = os.path.join(d, spec["name"] + suffix + ".sql")
            LintedFile._safe_create_replace_file(inp, out, spec["fixed"], spec["enc"])
    elif level == "persist":
        res = linter.lint_paths((d,), fix=True, apply_fixes=False)
        res.persist_changes(formatter=None, fixed_file_suffix=suffix)
    elif level == "paths":
        linter.lint_paths((d,), fix=True, apply_fixes=True, fixed_file_suffix=suffix)
    else:
        raise ValueError(level)
