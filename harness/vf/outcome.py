"""Verdict plumbing for C18 / C19 / C22 / C34: projections of the recorded runs for OutcomeTrace.tla, comparison of
observations with the verdicts TLC put into the scenario records, known-finding signatures, check / replay drivers.

Kept apart from vf/scenario.py (enumeration + recording) because the recording cache is keyed on that file.
The oracle is never here: `allowed` comes from Outcome.tla, rejections come from OutcomeTrace.tla.
"""
from __future__ import annotations

import json
from typing import Any, Dict, List, Optional, Tuple

from .scenario import counterexample, enumerate_scenarios, record_one, recording
from .tlc import MachineryError

# ------------------------------------------------------------------------------------------ projections / verdict plumbing
NONE = 99
ENTRY_KIND = {"cli_path": "path", "sub_path": "path", "cli_stdin": "stdin", "sub_stdin": "stdin",
              "api": "api", "api_paths": "api_paths"}
PROPS = {
    "C18": "Files with template or parse errors are never modified by fix",
    "C19": "All entry points agree",
    "C22": "Exit codes reflect only unsuppressed failures",
    "C34": "Oversized files are skipped, never parsed or modified",
}


def shape(rec: dict) -> str:
    return "|".join(f"{f['err']}/{f['esup']}/{f['lint']}/{f['lsup']}" + (f"@{f['size']}" if f["size"] != "na" else "")
                    + (f"*{f['passes']}" if rec["runaway"] else "") for f in rec["files"])


def _fact_key(V: List[dict], planned: bool) -> set:
    out = set()
    for v in V:
        if v["kind"] == "LINT" and v["suppressed"] and v.get("viaNoqa"):
            continue  # a noqa'd rule violation is dropped inside the rule loop: not observable, not in any clause
        out.add((v["kind"], bool(v["suppressed"]), bool(v["warning"]), bool(v["fixable"])))
    return out


def realised(rec: dict, run: dict) -> bool:
    """Does the concrete scenario have exactly the facts the abstract one planned (code's reading)?"""
    if rec.get("usage", "none") != "none":
        return True
    for pf, of in zip(rec["facts"], run["facts"]):
        if of.get("unobserved"):
            return False
        if _fact_key(pf["V"], True) != _fact_key(of["V"], False) or bool(pf["notree"]) != bool(of["notree"]):
            return False
    return True


def _intern(table: List[str], obj: Any) -> int:
    s = json.dumps(obj, sort_keys=True, ensure_ascii=False)
    if s not in table:
        table.append(s)
    return table.index(s) + 1


def trace_of(rec: dict, run: dict) -> dict:
    """Projection of one completed record for OutcomeTrace.tla (dumb: ids, counts, flags; no expectations)."""
    plan = run["plan"]
    n = len(plan["files"])
    vt: List[str] = []
    tt: List[str] = []
    events = []
    for o in run["obs"]:
        kind = "path" if ENTRY_KIND[o["entry"]] in ("path", "api_paths") else "string"
        left = [0] * n
        for k, c in (o["fixes_left"] or {}).items():
            if k.isdigit() and 1 <= int(k) <= n:
                left[int(k) - 1] = int(c)
        viol_id = 0
        if rec["cmd"] == "lint" and o["viols"] is not None and o["exc"] is None:
            viol_id = _intern(vt, [o["viols"].get(str(i), []) for i in range(1, n + 1)])
        events.append({
            "entry": o["entry"], "kind": kind, "exit": NONE if o["exit"] is None else o["exit"],
            "modified": o["modified"], "skipped": NONE if o["skipped"] is None else o["skipped"],
            "touched": o["touched"] or [], "touched_known": o["touched"] is not None,
            "limit": o["limit"] or [], "left": left, "viol_id": viol_id,
            "text_id": _intern(tt, o["texts"]),
            # an exception escaping the CLI shows as its exit status; for the API it is the whole outcome
            "raised": o["exc"] is not None and ENTRY_KIND[o["entry"]] in ("api", "api_paths"),
        })
    return {
        "id": rec["id"], "usage": rec.get("usage", "none"), "cmd": rec["cmd"], "feu": rec["feu"], "nofail": rec["nofail"], "skipfail": rec["skipfail"],
        "byte_limit": plan["byte_limit"] or 0, "char_limit": plan["char_limit"] or 0,
        "files": [{"V": [{k: v[k] for k in ("id", "kind", "suppressed", "viaNoqa", "warning", "fixable")} for v in of["V"]],
                   "nbytes": pf["nbytes"], "nchars": pf["nchars"], "notree": bool(of["notree"]),
                   "byte_limit": pf.get("byte_limit", plan["byte_limit"] or 0)}
                  for pf, of in zip(plan["files"], run["facts"])],
        "events": events,
    }


def traces_for(prop: str, rec: dict, run: dict) -> List[dict]:
    """One trace per observation; for C19 the trace is <first observation (CLI path), this observation>."""
    t = trace_of(rec, run)
    out = []
    for n, e in enumerate(t["events"]):
        tt = dict(t)
        tt["id"] = f"{t['id']}:{e['entry']}"
        tt["events"] = [t["events"][0], e] if (prop == "C19" and n > 0) else [e]
        out.append(tt)
    return out


def predicted(rec: dict, o: dict) -> bool:
    """Is this observation what the transcription (with today's quirks) predicts for that entry point?"""
    a = rec["algo"]
    k = ENTRY_KIND[o["entry"]]
    fixing = rec["cmd"] != "lint"
    if rec.get("usage", "none") != "none":
        return o["exit"] == (a["path_exit"] if k == "path" else a["stdin_exit"]) and not o["modified"]
    if k in ("path", "api_paths"):
        ok = (o["exit"] is None or o["exit"] == a["path_exit"]) and (not fixing or o["modified"] == sorted(a["path_mod"]))
        return ok and (o["skipped"] is None or o["skipped"] == a["skipped"])
    if k == "stdin":
        return o["exit"] == a["stdin_exit"] and (not fixing or bool(o["modified"]) == bool(a["stdin_mod"]))
    return (not fixing) or (bool(o["modified"]) == bool(a["api_mod"]) and (o["exc"] is not None) == bool(a["api_raises"]))


def oversized_any(rec: dict) -> bool:
    return rec["limkind"] != "none" and any(f["size"] == "over" for f in rec["files"])


def s2c_clause(prop: str, rec: dict, o: dict, first: Optional[dict]) -> Optional[str]:
    """Spec -> code: compare one observation with the verdict TLC computed for the scenario (`allowed`).

    Only set membership / equality against the record's fields happens here; which clause names exist mirrors
    OutcomeTrace.tla.  An observation is fine if it fits one of the allowed readings.
    """
    kind = ENTRY_KIND[o["entry"]]
    if prop == "C19":
        if o["exc"] is not None and kind in ("api", "api_paths"):
            return "C19.ApiRaises"
        if first is None or o is first:
            return None
        if o["exit"] is not None and first["exit"] is not None and o["exit"] != first["exit"]:
            return "C19.ExitAgree"
        if rec["cmd"] == "lint" and o["viols"] is not None and first["viols"] is not None:
            n = len(rec["files"])
            if [o["viols"].get(str(i), []) for i in range(1, n + 1)] != [first["viols"].get(str(i), []) for i in range(1, n + 1)]:
                return "C19.ViolationsAgree"
        if o["texts"] != first["texts"]:
            return "C19.FixedTextAgree"
        return None
    string = kind in ("stdin", "api")
    worst = None
    for a in rec["allowed"]:
        over = [i for i, f in enumerate(rec["files"], start=1) if f["size"] == "over" and rec["limkind"] != "none"]
        M = set(o["modified"])
        c = None
        if prop == "C18":
            blocked_or_limit = [i for i in M if i not in a["may"] and i not in over]
            if blocked_or_limit:
                c = "C18.ModifiedAtLoopLimit" if any(i in a["nofix"] for i in blocked_or_limit) else "C18.ModifiedWhileBlocked"
            elif any((o["fixes_left"] or {}).get(str(i), 0) > 0 for i in a["nofix"]):
                c = "C18.LoopLimitNotReportedUnfixable"
        elif prop == "C22":
            if rec.get("usage", "none") != "none":
                c = ("C22.ExitUsage" if o["exit"] is not None and o["exit"] not in a["exits"]
                     else "C22.UsageErrorModified" if M else None)
            elif over:
                c = None
            elif o["exit"] is not None and o["exit"] not in a["exits"]:
                c = "C22.ExitLint" if rec["cmd"] == "lint" else "C22.ExitFix"
            elif any(i not in M for i in a["must"]):
                c = "C22.FixableNotFixed"
            elif rec["cmd"] == "lint" and M:
                c = "C22.LintModified"
        elif prop == "C34":
            if rec.get("usage", "none") != "none":
                c = None
            elif set(over) & M:
                c = "C34.SkippedRewritten"
            elif o["touched"] is not None and set(over) & set(o["touched"]):
                c = "C34.SkippedParsed"
            elif o["touched"] is not None and any(i not in over and not f["notree"] and i not in o["touched"]
                                                  for i, f in enumerate(rec["facts"], start=1)):
                c = "C34.UndersizedNotProcessed"
            elif o["skipped"] is not None and o["skipped"] != a["skipped"]:
                c = "C34.SkippedCounted"
            elif o["exit"] is not None and over and o["exit"] not in a["exits"]:
                c = "C34.ExitOnlyWithSkipFail"
        if c is None:
            return None
        worst = worst or c
    return worst


# ------------------------------------------------------------------------------------------ the check driver
def signature(rec: dict, o: dict, clause: str) -> dict:
    return {"clause": clause, "entry": ENTRY_KIND[o["entry"]], "cmd": rec["cmd"], "feu": rec["feu"], "usage": rec.get("usage", "none"), "vlimit": rec.get("vlimit", 0), "limsrc": rec.get("limsrc", "root"),
            "vlimit": rec.get("vlimit", 0),
            "shape": shape(rec), "limkind": rec["limkind"], "cfg": f"{rec['cfgsrc']}/{rec['cfgitem']}",
            "runaway": rec["runaway"], "predicted": bool(rec.get("diff")) and predicted(rec, o),
            "exc": (o["exc"] or "").split(":")[0]}


def describe(rec: dict, run: dict, o: dict, clause: str, direction: str) -> str:
    plan = run["plan"]
    files = "; ".join(f"{f['rel']}={f['text']!r}" + (f" (+{f['rel'].split('/')[0]}/.sqlfluff {f['nested_cfg']!r})" if f["nested_cfg"] else "")
                      for f in plan["files"])
    return (f"[{direction}] {o['entry']} `sqlfluff {rec['cmd']}` scenario {rec['id']} ({shape(rec)}): exit={o['exit']} "
            f"modified={o['modified']} skipped={o['skipped']} limit_hit={o['limit']} exc={o['exc']}; contract allows "
            f"{rec.get('allowed', 'what the path entry did')}; root .sqlfluff={plan['root_cfg']!r}; {files}")


def check(prop: str, tier: str, seed: int, nontrivial, rule: str, refinement=(), corpus: bool = False) -> int:
    """`refinement`: (invariant, families, finding) triples — Algo => Contract clause by clause, run as TLC INVARIANTs;
    a violation is expected exactly while the named finding is open and is recorded, never a verdict."""
    from .core import Report, expect_model_ok
    from .tlc import validate_traces

    rep = Report(prop, tier, seed, "model_checking")
    m, recs = enumerate_scenarios(tier)
    expect_model_ok(m, "Outcome scenario enumeration (ContractSane)")
    if not recs:
        raise MachineryError("Outcome emitted no scenarios")
    rep.model(m, "all scenario families; contract sanity invariant; every scenario emitted with contract verdict, "
                 "transcription prediction and their difference")
    devs: Dict[str, int] = {}
    for r in recs:
        for c in r["diff"]:
            devs[c] = devs.get(c, 0) + 1
    rep.extra["model_deviations"] = {"scenarios": len(recs), "with_deviation": sum(1 for r in recs if r["diff"]),
                                     "by_clause": dict(sorted(devs.items()))}
    rep.extra["algo_refines_contract"] = []
    for inv, fams, finding in refinement:
        cx, txt = counterexample(tier, inv, fams)
        rep.model(cx, f"{inv} over {'+'.join(fams)} (Algo => Contract; violated while {finding} is open)")
        rep.extra["algo_refines_contract"].append({"invariant": inv, "holds": cx.violated is None, "expected_open_finding": finding,
                                                   "tlc_counterexample": txt})
    runs, cache = recording(tier, seed, recs)
    rep.extra["cache"] = cache
    by = {r["id"]: r for r in recs}
    seen: set = set()
    unreal = []
    traces: List[dict] = []
    tmeta: Dict[str, Tuple[dict, dict]] = {}
    for run in runs:
        rec = by[run["id"]]
        ok = realised(rec, run)
        if not ok:
            unreal.append(rec["id"])
        first = run["obs"][0] if run["obs"] else None
        for o in run["obs"]:
            rep.evaluated()
            if not predicted(rec, o):
                rep.drift.append(f"{rec['id']} {o['entry']} ({shape(rec)} {rec['cmd']}): observed exit={o['exit']} "
                                 f"modified={o['modified']} skipped={o['skipped']} exc={o['exc']} differs from the "
                                 f"transcription's prediction {rec['algo']}")
            if ok:
                c = s2c_clause(prop, rec, o, first)
                if c:
                    seen.add((rec["id"], o["entry"], c))
                    rep.violation(c, signature(rec, o, c), describe(rec, run, o, c, "S->C"),
                                  {"rec": rec, "entry": o["entry"], "obs": o, "dir": "S->C"})
        if nontrivial(rec, run):
            rep.nontrivial(json.dumps([run["plan"]["root_cfg"], [f["text"] for f in run["plan"]["files"]], rec["cmd"]]))
        for t in traces_for(prop, rec, run):
            traces.append(t)
            tmeta[t["id"]] = (rec, run)
    if corpus:
        from .outcome_corpus import corpus_runs

        cruns, ccache = corpus_runs(tier, seed)
        rep.extra["corpus"] = {"runs": len(cruns), "cache": ccache}
        for run in cruns:
            rep.evaluated(len(run["obs"]))
            if len(run["obs"]) >= 3 and any(o["viols"] and any(o["viols"].values()) or o["modified"] for o in run["obs"]):
                rep.nontrivial(json.dumps([run["path"], run["rec"]["cmd"]]))
            for t in traces_for(prop, run["rec"], run):
                traces.append(t)
                tmeta[t["id"]] = (run["rec"], run)
    if len(unreal) > len(recs) // 20:
        raise MachineryError(f"{len(unreal)} of {len(recs)} scenarios are not realised by the concretiser "
                             f"(first: {unreal[:5]}); the building blocks no longer produce the planned facts")
    rep.extra["unrealised_scenarios"] = unreal[:50]
    for u in unreal[:5]:
        rep.drift.append(f"scenario {u} ({shape(by[u])}): the concrete files do not show the planned facts; judged by observed facts only")
    val = validate_traces("OutcomeTrace", traces, constants={"Families": set(), "Wide": False, "Prop": prop}, batch=3000)
    rep.validation(val, "OutcomeTrace")
    for rj in val.rejected:
        rec, run = tmeta[rj["id"]]
        o = next(x for x in run["obs"] if f"{rec['id']}:{x['entry']}" == rj["id"])
        if (rec["id"], o["entry"], rj["clause"]) in seen:
            continue
        seen.add((rec["id"], o["entry"], rj["clause"]))
        rep.violation(rj["clause"], signature(rec, o, rj["clause"]), describe(rec, run, o, rj["clause"], "C->S"),
                      {"rec": rec, "entry": o["entry"], "obs": o, "dir": "C->S", "verdict": rj})
    # Report.finish writes the first 25 distinct signatures: interleave the classes so that every (clause, entry)
    # class that occurred is among them
    buckets: Dict[Tuple[str, str], List[dict]] = {}
    for v in rep.violations:
        buckets.setdefault((v["clause"], v["sig"].get("entry", "")), []).append(v)
    order: List[dict] = []
    while any(buckets.values()):
        for k in sorted(buckets):
            if buckets[k]:
                order.append(buckets[k].pop(0))
    rep.violations = order
    rep.extra["violation_classes"] = {}
    for v in order:
        k = f"{v['clause']}@{v['sig'].get('entry', '')}"
        rep.extra["violation_classes"][k] = rep.extra["violation_classes"].get(k, 0) + 1
    mid = runs[len(runs) // 2]
    rep.sample({"scenario": {k: v for k, v in by[mid["id"]].items() if k != "facts"}, "plan": mid["plan"],
                "observations": [{k: v for k, v in o.items() if k != "texts"} for o in mid["obs"]]})
    rep.exhaustive = True
    rep.rule = rule
    rep.trusted_base = ["vf/scenario.py concretise (building blocks -> files/configs)", "observe_facts (projection of "
                        "LintedFile.violations flags)", "recorders on Linter.lint_paths / lint_string_wrapped / "
                        "_lex_templated_file / lint_fix_parsed and the 'Loop limit' log line", "interning of violation "
                        "lists and texts", "click CliRunner as a faithful in-process CLI (cross-checked by the subprocess sample)"]
    rep.assumptions = ["scenario scope: per file one error kind x one suppression, one rule violation x one suppression; "
                       "ansi dialect, jinja templater, rules LT01/LT02/LT05/LT09/AM04 (format: its own list)",
                       "byte limit applies to files on disk only (stdin/API strings are judged for the char limit only)"]
    return rep.finish()


def replay(prop: str, path: str, tier: str, seed: int) -> int:
    from .tlc import validate_traces

    with open(path) as fh:
        case = json.load(fh)["case"]
    rec = case["rec"]
    run = record_one((rec, case["entry"].startswith("sub_")))
    if run["error"]:
        raise MachineryError(run["error"])
    first = run["obs"][0]
    bad = []
    for o in run["obs"]:
        if o["entry"] != case["entry"]:
            continue
        c = s2c_clause(prop, rec, o, first) if realised(rec, run) else None
        if c:
            bad.append(c)
    val = validate_traces("OutcomeTrace", traces_for(prop, rec, run), constants={"Families": set(), "Wide": False, "Prop": prop})
    for rj in val.rejected:
        if rj["id"].endswith(":" + case["entry"]):
            bad.append(rj["clause"])
    if bad:
        print(f"VIOLATION property={prop} replay={path}")
        print(f"  clause={bad[0]} re-recorded from the current tree: still not a behaviour of the contract")
        return 1
    print("replay: behaviour now satisfies the contract")
    return 0
