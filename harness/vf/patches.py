"""Shared plumbing for C30 / C10 / C11 (spec/Patches.tla, spec/PatchesTrace.tla).

Nothing in here judges anything.  It contains
  * the TLC case enumeration call and the concretiser that turns one emitted case into real FixPatch /
    RawFileSlice / TemplatedFile objects and pushes them through the real generate_source_patches (filter),
    merge_source_patches, LintedFile._slice_source_file_using_patches and _build_up_fixed_source_string;
  * recorders (wrappers at function boundaries) that log Patches / Merge / Rebuild events of real fix runs,
    and the projections used by the trace specification (code points, raw-slice layout, tag sequences,
    decoding units of a byte string);
  * the template generators used by C30 / C10.
"""
from __future__ import annotations

import codecs
import contextlib
import random
from typing import Any, Dict, List, Optional, Tuple

from .tlc import MachineryError, cfg_text, run_tlc
from . import par

INVARIANTS = ["FilterEstablishesP30", "FilterKeepsOnlySafe", "AlgoAppliedOnce", "AlgoPreservesTemplate",
              "AlgoRefinesContract"]


def tlc_workers():
    import os
    v = os.environ.get("VF_PROCS")
    return int(v) if v else "auto"


def _cache_file(cfg: str) -> str:
    import hashlib
    import os
    from .tlc import SPEC_DIR, JAR, VERIF
    hs = hashlib.sha256()
    with open(os.path.join(SPEC_DIR, "Patches.tla"), "rb") as fh:
        hs.update(fh.read())
    hs.update(cfg.encode())
    hs.update(str(os.path.getsize(JAR)).encode())
    d = os.environ.get("VF_CACHE") or os.path.join(VERIF, ".cache", "patches")
    os.makedirs(d, exist_ok=True)
    return os.path.join(d, hs.hexdigest()[:24] + ".json.gz")


def enumerate_cases(consts: Dict[str, Any], timeout: int = 1500, extra_inv=()):
    """TLC run of Patches over the given scope (invariants checked, one record per case emitted).

    The result depends only on the specification and the constants, never on the code under test, so it is
    cached by content hash of (Patches.tla, cfg); a hit restores TLC's own counts of the run that produced it
    and is marked `cached` (VF_NO_CACHE=1 forces a fresh run)."""
    import gzip
    import json
    import os
    from .tlc import TLCRun

    c = dict(consts)
    c.setdefault("EmitOn", True)
    cfg = cfg_text(constants=c, invariants=INVARIANTS + list(extra_inv))
    fn = _cache_file(cfg)
    if os.path.exists(fn) and not os.environ.get("VF_NO_CACHE"):
        try:
            with gzip.open(fn, "rt") as fh:
                d = json.load(fh)
            run = TLCRun(module="Patches", generated=d["generated"], distinct=d["distinct"], depth=d["depth"],
                         wall_s=d["wall_s"], exit_code=0, records=d["records"], stdout="(cached)", cmd=d.get("cmd", ""))
            run.cached = True
            return run
        except Exception:
            pass
    run = run_tlc("Patches", cfg, timeout=timeout, workers=tlc_workers(), heap="8g")
    run.cached = False
    if run.ok:
        tmp = fn + f".{os.getpid()}.tmp"
        with gzip.open(tmp, "wt", compresslevel=3) as fh:
            json.dump({"generated": run.generated, "distinct": run.distinct, "depth": run.depth, "wall_s": run.wall_s,
                       "records": run.records, "cmd": run.cmd}, fh)
        os.replace(tmp, fn)
    return run


# ------------------------------------------------------------------ S->C concretisation
CELL = "abcdefgh"
SYM = {10: "X", 11: "Y"}
RSYM = {v: k for k, v in SYM.items()}
BLOCKS = ["block_start", "block_mid", "block_end"]
LITCATS = ["literal", "mid_point", "end_point"]


def text_of(sym: List[int]) -> str:
    return "".join(SYM[x] for x in sym)


def symbols_of(s: str) -> List[int]:
    out = []
    for ch in s:
        if ch in RSYM:
            out.append(RSYM[ch])
        elif ch in CELL:
            out.append(CELL.index(ch))
        else:
            out.append(99)
    return out


def build_templated_file(lay: List[dict], k: int):
    """A real TemplatedFile whose raw slices are the layout (templated slices render to one character,
    source-only ones to nothing)."""
    from sqlfluff.core.templaters.base import RawFileSlice, TemplatedFile, TemplatedFileSlice

    n = lay[-1]["b"]
    src = CELL[:n]
    raw, sliced, templ = [], [], ""
    for i, r in enumerate(lay):
        ty = r["ty"]
        real = {"literal": "literal", "templated": "templated", "comment": "comment",
                "block": BLOCKS[(k + i) % 3]}[ty]
        raw.append(RawFileSlice(src[r["a"]:r["b"]], real, r["a"]))
        if ty == "literal":
            out = src[r["a"]:r["b"]]
        elif ty == "templated":
            out = "q"
        else:
            out = ""
        sliced.append(TemplatedFileSlice(real, slice(r["a"], r["b"]), slice(len(templ), len(templ) + len(out))))
        templ += out
    return TemplatedFile(source_str=src, fname="<patches>", templated_str=templ, sliced_file=sliced, raw_sliced=raw)


def real_patch(p: dict, k: int, src: str):
    from sqlfluff.core.linter.patch import FixPatch

    cat = "source" if p["cat"] == "source" else LITCATS[(k + p["s"][0] + p["s"][1]) % 3]
    sl = slice(p["s"][0], p["s"][1])
    return FixPatch(templated_slice=slice(0, 0), fixed_raw=text_of(p["t"]), patch_category=cat,
                    source_slice=sl, templated_str="", source_str=src[sl])


def pj(p) -> dict:
    return {"s": [p.source_slice.start, p.source_slice.stop], "t": symbols_of(p.fixed_raw),
            "cat": "source" if p.patch_category == "source" else "lit"}


def replay_case(rec: dict, k: int) -> dict:
    """Run the real pipeline on one enumerated case; returns the real intermediate and final values."""
    from sqlfluff.core.linter import patch as patch_mod
    from sqlfluff.core.linter.linted_file import LintedFile

    tf = build_templated_file(rec["lay"], k)
    src = tf.source_str
    orig = patch_mod._iter_templated_patches
    filt = []
    try:
        for b, cands in enumerate(rec["bufs"]):
            yielded = [real_patch(p, k, src) for p in cands]
            patch_mod._iter_templated_patches = lambda tree, templated_file, _y=yielded: iter(_y)
            filt.append(patch_mod.generate_source_patches(None, tf))
    finally:
        patch_mod._iter_templated_patches = orig
    merged = patch_mod.merge_source_patches(filt)
    slices = LintedFile._slice_source_file_using_patches(merged, tf.source_only_slices(), src)
    out = LintedFile._build_up_fixed_source_string(slices, merged, src)
    return {"filt": [[pj(p) for p in f] for f in filt], "merged": [pj(p) for p in merged],
            "slices": [[s.start, s.stop] for s in slices], "out": symbols_of(out), "out_str": out, "src": src}


def strip_buf(ps: List[dict]) -> List[dict]:
    return [{"s": list(p["s"]), "t": list(p["t"]), "cat": p["cat"]} for p in ps]


def judge_case(rec: dict, got: dict) -> Tuple[Optional[str], List[str]]:
    """Failing contract clause (from the sets TLC computed) or None, plus drift notes vs the transcription."""
    out = got["out"]
    if out not in rec["ok30"]:
        clause = "AppliedDisjointOnce"
    elif out not in rec["ok10"]:
        clause = "TemplateCellsPreserved"
    elif out not in rec["okall"]:
        clause = "IsolatedApplied"
    else:
        clause = None
    drift = []
    for name, mine, theirs in (("filter", got["filt"], [strip_buf(f) for f in rec["filt"]]),
                               ("merge", got["merged"], strip_buf(rec["merged"])),
                               ("slice", got["slices"], [list(s) for s in rec["slices"]]),
                               ("build", got["out"], list(rec["out"]))):
        if mine != theirs:
            drift.append(f"{name}: code {mine} != transcription {theirs}")
            break
    return clause, drift


def case_sig(rec: dict) -> str:
    kinds = sorted({r["ty"] for r in rec["lay"]})
    return ",".join(kinds)


# ------------------------------------------------------------------ projections for traces
def cps(s: str) -> List[int]:
    return [ord(c) for c in s]


TYPEMAP = {"literal": "literal", "comment": "comment", "block_start": "block", "block_mid": "block",
           "block_end": "block"}


def layout_of(tf) -> List[list]:
    return [[r.source_idx, r.source_idx + len(r.raw), TYPEMAP.get(r.slice_type, "templated")] for r in tf.raw_sliced]


def patch_rows(ps) -> List[list]:
    return [[int(p.source_slice.start), int(p.source_slice.stop), cps(p.fixed_raw), p.patch_category] for p in ps]


def tag_rows(tf) -> List[list]:
    return [[r.slice_type, cps(r.raw)] for r in tf.raw_sliced if r.slice_type != "literal"]


class Recorder:
    """Wrappers at generate_source_patches / merge_source_patches / slice / build; events of the current run."""

    def __init__(self):
        self.events: List[dict] = []
        self.tfs: List[Any] = []

    @contextlib.contextmanager
    def installed(self):
        from sqlfluff.core.linter import linter as linter_mod
        from sqlfluff.core.linter import linted_file as lf_mod
        from sqlfluff.core.linter.linted_file import LintedFile

        o_gen, o_gen2, o_merge = linter_mod.generate_source_patches, lf_mod.generate_source_patches, linter_mod.merge_source_patches
        o_slice = LintedFile.__dict__["_slice_source_file_using_patches"]
        o_build = LintedFile.__dict__["_build_up_fixed_source_string"]
        rec = self

        def gen(tree, templated_file):
            out = o_gen(tree, templated_file)
            rec.tfs.append(templated_file)
            rec.events.append({"ev": "Patches", "patches": patch_rows(out)})
            return out

        def merge(buffers):
            out = o_merge(buffers)
            rec.events.append({"ev": "Merge", "merged": patch_rows(out)})
            return out

        pending: Dict[str, Any] = {}

        def slc(source_patches, source_only_slices, raw_source_string):
            out = o_slice.__func__(source_patches, source_only_slices, raw_source_string)
            pending["slices"] = [[int(s.start), int(s.stop)] for s in out]
            return out

        def build(source_file_slices, source_patches, raw_source_string):
            out = o_build.__func__(source_file_slices, source_patches, raw_source_string)
            rec.events.append({"ev": "Rebuild", "slices": pending.pop("slices", [[int(s.start), int(s.stop)] for s in source_file_slices]),
                               "out": cps(out)})
            return out

        linter_mod.generate_source_patches = gen
        lf_mod.generate_source_patches = gen
        linter_mod.merge_source_patches = merge
        LintedFile._slice_source_file_using_patches = staticmethod(slc)
        LintedFile._build_up_fixed_source_string = staticmethod(build)
        try:
            yield self
        finally:
            linter_mod.generate_source_patches = o_gen
            lf_mod.generate_source_patches = o_gen2
            linter_mod.merge_source_patches = o_merge
            LintedFile._slice_source_file_using_patches = o_slice
            LintedFile._build_up_fixed_source_string = o_build


def record_fix(sql: str, cfg, tid: str, with_tags: bool = False, meta: Optional[dict] = None,
               fname: Optional[str] = None) -> Optional[dict]:
    """One real `fix` of a string under the recorders -> a PatchesTrace trace (None if nothing to look at)."""
    from sqlfluff.core import Linter

    lnt = Linter(config=cfg)
    rec = Recorder()
    crash = None
    with rec.installed():
        try:
            lf = lnt.lint_string(sql, fname=fname or (tid + ".sql"), fix=True)
            fixed = None
            if lf.tree is not None and lf.templated_file is not None:
                fixed, _ = lf.fix_string()
        except Exception as e:  # the code under test crashed: not ours to judge here (C04), keep what we have
            crash = f"{type(e).__name__}: {e}"
            lf, fixed = None, None
    if lf is None or lf.templated_file is None or fixed is None:
        return {"id": tid, "skip": crash or "no tree / templating failed", "sql": sql, "meta": meta or {}}
    tf = lf.templated_file
    jj01 = "JJ01" in [r.code for r in lnt.get_rulepack(config=cfg).rules]
    events = list(rec.events)
    if with_tags:
        before = tag_rows(tf)
        try:
            rend = lnt.render_string(fixed, fname=fname or (tid + ".sql"), config=cfg, encoding="utf8")
            tf2 = rend.templated_variants[0] if rend.templated_variants else None
        except Exception:
            tf2 = None
        # first in the trace: a total verdict stops at the first failing clause, and this is C10's main one
        if tf2 is None:
            events.insert(0, {"ev": "Tags", "ok": False, "before": before, "after": []})
        else:
            events.insert(0, {"ev": "Tags", "ok": True, "before": before, "after": tag_rows(tf2)})
    npatch = sum(len(e["patches"]) for e in events if e["ev"] == "Patches")
    return {"id": tid, "src": cps(tf.source_str), "lay": layout_of(tf), "jj01": jj01, "enc": "", "events": events,
            "sql": sql, "fixed": fixed, "npatch": npatch, "ntags": len([r for r in tf.raw_sliced if r.slice_type != "literal"]),
            "nvariants": len([e for e in events if e["ev"] == "Patches"]), "meta": meta or {}}


def wire(t: dict) -> dict:
    """The fields the trace specification reads."""
    return {k: t[k] for k in ("id", "src", "lay", "jj01", "enc", "events")}


# ------------------------------------------------------------------ decoding units (C11)
BOMS = {"utf-8-sig": [codecs.BOM_UTF8], "utf_8_sig": [codecs.BOM_UTF8],
        "utf-16": [codecs.BOM_UTF16_LE, codecs.BOM_UTF16_BE], "utf_16": [codecs.BOM_UTF16_LE, codecs.BOM_UTF16_BE],
        "utf-32": [codecs.BOM_UTF32_LE, codecs.BOM_UTF32_BE], "utf_32": [codecs.BOM_UTF32_LE, codecs.BOM_UTF32_BE]}


def decoding_units(data: bytes, enc: str) -> Tuple[List[list], List[int]]:
    """Project a byte string to (units, bom): units = [bytes, chars, decodable] per smallest chunk of bytes for
    which the codec (errors='backslashreplace', as load_raw_file_and_config reads files) yields characters."""
    e = enc.lower()
    bom: bytes = b""
    inner = enc
    for b in BOMS.get(e, []):
        if data.startswith(b):
            bom = b
            break
    if e in ("utf-8-sig", "utf_8_sig"):
        inner = "utf-8"
    elif e in ("utf-16", "utf_16"):
        inner = "utf-16-be" if bom == codecs.BOM_UTF16_BE else "utf-16-le"
    elif e in ("utf-32", "utf_32"):
        inner = "utf-32-be" if bom == codecs.BOM_UTF32_BE else "utf-32-le"
    body = data[len(bom):]
    dec = codecs.getincrementaldecoder(inner)(errors="backslashreplace")
    units: List[list] = []
    chunk = b""
    for i in range(len(body)):
        chunk += body[i:i + 1]
        out = dec.decode(body[i:i + 1], final=(i == len(body) - 1))
        if out:
            try:
                ok = chunk.decode(inner, "strict") == out
            except UnicodeDecodeError:
                ok = False
            units.append([list(chunk), cps(out), ok])
            chunk = b""
    if chunk:
        units.append([list(chunk), [], False])
    return units, list(bom)


# ------------------------------------------------------------------ template generators
def jinja_templates(n: int, rnd: random.Random) -> List[Tuple[str, str]]:
    """(name, template) — Jinja sources whose rendered SQL has fixable violations next to / inside / around
    tags, loops and unreached branches."""
    VIOL_SEL = ["SELECT  a", "select a", "SELECT a ,b", "SELECT a,b", "SELECT\n  a", "SELECT a as A"]
    EXPR = ["{{ col }}", "{{col}}", "{{ 'c' }}", "{{- col }}", "{{ col -}}", "{{ tbl }}", "{{ 1+1 }}", "{{ \"x  y\" }}"]
    IFO = ["{% if true %}", "{%if true%}", "{% if false %}", "{%- if true -%}", "{% if cond %}", "{% if not cond %}"]
    ELSE = ["{% else %}", "{%else%}", "{%- else %}", "{% elif cond %}"]
    IFC = ["{% endif %}", "{%endif%}", "{%- endif -%}"]
    FORO = ["{% for x in [1, 2] %}", "{%for x in [1,2]%}", "{% for x in items %}", "{% for x in [] %}", "{%- for x in [1, 2] %}"]
    FORC = ["{% endfor %}", "{%endfor%}", "{% endfor -%}"]
    COMM = ["{# note #}", "{#note#}", "{#- note -#}"]
    SET = ["{% set v = 1 %}", "{%set v=1%}", "{% set v %}zz{% endset %}"]
    WS = ["", " ", "  ", "\n", "\n  ", " \n", "\t"]
    out = []
    for k in range(n):
        w = lambda: rnd.choice(WS)
        shape = k % 11
        sel = rnd.choice(VIOL_SEL)
        if shape == 0:      # expression adjacent to a spacing violation
            t = f"{sel}{w()},{w()}{rnd.choice(EXPR)}{w()}from{w()}tbl{w()}"
        elif shape == 1:    # violation inside a conditional, tag hugging the tokens
            t = f"{sel}{w()}{rnd.choice(IFO)}{w()},b  ,c{w()}{rnd.choice(IFC)}{w()}FROM  tbl\n"
        elif shape == 2:    # if / else with an unreached branch containing violations
            t = f"{sel}{w()}{rnd.choice(IFO)}{w()}, b1  AS  x{w()}{rnd.choice(ELSE)}{w()},b2 as  y{w()}{rnd.choice(IFC)}{w()}from tbl"
        elif shape == 3:    # loop with violations in the body
            t = f"{sel}{w()}{rnd.choice(FORO)}{w()},c{{{{ x }}}}  ,d{w()}{rnd.choice(FORC)}{w()}FROM tbl{w()}"
        elif shape == 4:    # comment tags around violations
            t = f"{rnd.choice(COMM)}{w()}{sel}{rnd.choice(COMM)}  ,b{w()}{rnd.choice(COMM)}\nfrom tbl {rnd.choice(COMM)}"
        elif shape == 5:    # set blocks and trailing tag (LT12 territory)
            t = f"{rnd.choice(SET)}{w()}{sel}  from tbl{w()}{rnd.choice(IFO)}{w()}where a=1{w()}{rnd.choice(IFC)}{w()}"
        elif shape == 6:    # nested loop / if
            t = (f"{sel}\n{rnd.choice(FORO)}{w()}{rnd.choice(IFO)}{w()},e{{{{x}}}}  {w()}{rnd.choice(ELSE)}{w()} ,f{{{{ x }}}}{w()}"
                 f"{rnd.choice(IFC)}{w()}{rnd.choice(FORC)}\nfrom tbl\n")
        elif shape == 7:    # templated table / column names and keyword case
            t = f"select {rnd.choice(EXPR)}{w()},{rnd.choice(EXPR)} as Z from {rnd.choice(EXPR)}{w()}where  {rnd.choice(EXPR)}=1"
        elif shape == 8:    # indentation around block tags
            t = f"SELECT\na,\n{rnd.choice(IFO)}\nb,\n  {rnd.choice(ELSE)}\n      c,\n{rnd.choice(IFC)}\nd\nFROM tbl\n"
        elif shape == 10:   # leading whitespace consumed by the first tag
            first = rnd.choice(["{{- col }}", "{%- if true -%}", "{#- c -#}", "{%- set v = 1 -%}", "{{- 'SELECT' }}"])
            t = f"{rnd.choice(['  ', '    ', ' ', chr(9)])}{first}{w()}{sel if 'SELECT' not in first else ' a'}  from tbl" + \
                ("{% endif %}" if "if true" in first else "") + "\n"
        else:               # whitespace-control next to operators
            t = f"{sel}{w()}+{rnd.choice(EXPR)}{w()}AS s{rnd.choice(COMM)},{rnd.choice(EXPR)}||'x'  from tbl"
        out.append((f"gen{k}_s{shape}", t))
    return out


JINJA_CTX = {"col": "colx", "tbl": "tblx", "cond": True, "items": [1, 2, 3]}


def other_templates(n: int, rnd: random.Random) -> List[Tuple[str, str, str, dict]]:
    """(name, templater, source, templater config) for the placeholder and python templaters."""
    out = []
    for k in range(n):
        if k % 2 == 0:
            style = rnd.choice(["colon", "question_mark", "dollar", "percent", "numeric_colon", "ampersand"])
            p = {"colon": ":p1", "question_mark": "?", "dollar": "$p1", "percent": "%(p1)s", "numeric_colon": ":1",
                 "ampersand": "&p1"}[style]
            sql = rnd.choice([f"select a  from t where  b={p}", f"SELECT a ,{p} from t", f"select {p}  , c FROM t\n\n",
                              f"SELECT a FROM t WHERE b = {p}  AND c={p}"])
            cfg = {"templater": {"placeholder": {"param_style": style, "p1": "1", "1": "1"}}}
            out.append((f"ph{k}_{style}", "placeholder", sql, cfg))
        else:
            sql = rnd.choice(["select {c}  from {t}", "SELECT a ,{c} from {t} where  x=1", "select  {c} , b FROM {t}\n\n",
                              "SELECT {c}+1  as z from {t}"])
            cfg = {"templater": {"python": {"context": {"c": "colx", "t": "tblx"}}}}
            out.append((f"py{k}", "python", sql, cfg))
    return out
