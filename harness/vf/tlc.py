"""TLC / SANY driver.

Every model run and every trace validation in /verif goes through `run_tlc`.  The specification
sources live in /verif/spec; a run copies them into a scratch directory (TLC writes its state
files next to the spec), writes a generated .cfg with literal constants, runs TLC under a timeout
and parses TLC's own summary lines plus the JSON records the spec printed with PrintT(ToJson(..)).

A TLC error, a timeout or unparseable output is a *machinery failure* (MachineryError -> exit 2),
never a verdict.
"""
from __future__ import annotations

import json
import os
import re
import shutil
import subprocess
import tempfile
import time
from dataclasses import dataclass, field
from typing import Any, Dict, Iterable, List, Optional

VERIF = os.path.dirname(os.path.dirname(os.path.dirname(os.path.abspath(__file__))))
SPEC_DIR = os.path.join(VERIF, "spec")
JAR = "/opt/veriftools/tla/tla2tools.jar"
DEPS = "/opt/veriftools/tla/CommunityModules-deps.jar"
CP = f"{JAR}:{DEPS}"


class MachineryError(Exception):
    """Something in the verification machinery itself failed (exit status 2)."""


@dataclass
class TLCRun:
    module: str
    generated: int = 0
    distinct: int = 0
    depth: int = 0
    wall_s: float = 0.0
    exit_code: int = 0
    records: List[Any] = field(default_factory=list)  # parsed PrintT(ToJson(..)) lines
    stdout: str = ""
    violated: Optional[str] = None  # name of a violated invariant/property, if any
    coverage: Dict[str, int] = field(default_factory=dict)
    cmd: str = ""

    @property
    def ok(self) -> bool:
        return self.exit_code == 0 and self.violated is None


_GEN = re.compile(r"(\d+) states generated, (\d+) distinct states found")
_DEPTH = re.compile(r"The depth of the complete state graph search is (\d+)")
_INV = re.compile(r"Error: Invariant (\S+) is violated")
_PROP = re.compile(r"Error: (?:Action|Temporal) propert(?:y|ies) (\S*) ?(?:is|were) violated")
_COV = re.compile(r"^<(\w+) line (\d+), col (\d+) .*?>: (\d+):(\d+)")


def scratch(prefix: str = "vf") -> str:
    """A private scratch directory (removed by the caller).  Kept under /verif/.cache/tmp rather than /tmp so
    that unrelated clean-ups of /tmp cannot pull files from under a running TLC."""
    base = os.environ.get("VF_SCRATCH") or os.path.join(VERIF, ".cache", "tmp")
    os.makedirs(base, exist_ok=True)
    return tempfile.mkdtemp(prefix=prefix + "-", dir=base)


def cfg_text(
    *,
    spec: str = "Spec",
    init: Optional[str] = None,
    next_: Optional[str] = None,
    constants: Optional[Dict[str, Any]] = None,
    invariants: Iterable[str] = (),
    properties: Iterable[str] = (),
    constraints: Iterable[str] = (),
    action_constraints: Iterable[str] = (),
    postcondition: Optional[str] = None,
    view: Optional[str] = None,
    deadlock: bool = False,
) -> str:
    """Render a TLC configuration with literal constants."""
    out: List[str] = []
    if init and next_:
        out += [f"INIT {init}", f"NEXT {next_}"]
    else:
        out.append(f"SPECIFICATION {spec}")
    if constants:
        out.append("CONSTANTS")
        for k, v in constants.items():
            out.append(f"  {k} = {tla_value(v)}")
    for i in invariants:
        out.append(f"INVARIANT {i}")
    for p in properties:
        out.append(f"PROPERTY {p}")
    for c in constraints:
        out.append(f"CONSTRAINT {c}")
    for c in action_constraints:
        out.append(f"ACTION_CONSTRAINT {c}")
    if postcondition:
        out.append(f"POSTCONDITION {postcondition}")
    if view:
        out.append(f"VIEW {view}")
    out.append(f"CHECK_DEADLOCK {'TRUE' if deadlock else 'FALSE'}")
    return "\n".join(out) + "\n"


def tla_value(v: Any) -> str:
    """Python value -> TLA+ literal usable in a cfg file."""
    if isinstance(v, bool):
        return "TRUE" if v else "FALSE"
    if isinstance(v, int):
        if v < 0:
            raise MachineryError("cfg files reject negative literals; define them in the module")
        return str(v)
    if isinstance(v, str):
        return json.dumps(v)
    if isinstance(v, (set, frozenset)):
        return "{" + ", ".join(sorted(tla_value(x) for x in v)) + "}"
    if isinstance(v, (list, tuple)):
        return "<<" + ", ".join(tla_value(x) for x in v) + ">>"
    raise MachineryError(f"cannot render {v!r} as a TLA+ cfg literal")


def _stage(workdir: str) -> None:
    for root, _dirs, files in os.walk(SPEC_DIR):
        for f in files:
            if f.endswith(".tla"):
                shutil.copy(os.path.join(root, f), os.path.join(workdir, f))


def run_tlc(
    module: str,
    cfg: str,
    *,
    env: Optional[Dict[str, str]] = None,
    workers: Any = "auto",
    timeout: int = 900,
    simulate: Optional[str] = None,
    depth: Optional[int] = None,
    coverage: bool = False,
    seed: Optional[int] = None,
    heap: str = "6g",
    keep: bool = False,
    extra_modules: Optional[Dict[str, str]] = None,
    expect_violation: bool = False,
    dfs_queue: bool = False,
) -> TLCRun:
    """Run TLC on spec/<module>.tla with the given cfg text."""
    workdir = scratch("tlc")
    try:
        _stage(workdir)
        for name, text in (extra_modules or {}).items():
            with open(os.path.join(workdir, name + ".tla"), "w") as fh:
                fh.write(text)
        if not os.path.exists(os.path.join(workdir, module + ".tla")):
            raise MachineryError(f"specification module {module}.tla not found under {SPEC_DIR}")
        with open(os.path.join(workdir, module + ".cfg"), "w") as fh:
            fh.write(cfg)
        cmd = ["java", "-XX:+UseParallelGC", f"-Xmx{heap}"]
        if dfs_queue:
            cmd.append("-Dtlc2.tool.queue.IStateQueue=StateDeque")
        cmd += ["-cp", CP, "tlc2.TLC", "-noGenerateSpecTE", "-metadir", os.path.join(workdir, "states")]
        cmd += ["-workers", str(workers)]
        if simulate:
            cmd += ["-simulate", simulate]
        if depth is not None:
            cmd += ["-depth", str(depth)]
        if coverage:
            cmd += ["-coverage", "1"]
        if seed is not None:
            cmd += ["-seed", str(seed)]
        cmd += ["-config", module + ".cfg", module + ".tla"]
        e = dict(os.environ)
        e.pop("JAVA_TOOL_OPTIONS", None)
        if env:
            e.update(env)
        t0 = time.time()
        try:
            p = subprocess.run(cmd, cwd=workdir, env=e, capture_output=True, text=True, timeout=timeout)
        except subprocess.TimeoutExpired:
            subprocess.run(["pkill", "-f", workdir], check=False)
            raise MachineryError(f"TLC timed out after {timeout}s on {module}")
        run = TLCRun(module=module, wall_s=time.time() - t0, exit_code=p.returncode, stdout=p.stdout, cmd=" ".join(cmd[:-3]))
        _parse(run)
        if run.exit_code not in (0,) and not (expect_violation and run.exit_code in (12, 13)):
            if run.exit_code in (12, 13) and run.violated:
                pass  # caller decides; a violated INVARIANT on a model that is expected to hold
            else:
                tail = "\n".join((p.stdout + "\n" + p.stderr).splitlines()[-40:])
                raise MachineryError(f"TLC failed on {module} (exit {p.returncode}):\n{tail}")
        return run
    finally:
        if not keep:
            shutil.rmtree(workdir, ignore_errors=True)


def _parse(run: TLCRun) -> None:
    for line in run.stdout.splitlines():
        m = _GEN.search(line)
        if m:
            run.generated, run.distinct = int(m.group(1)), int(m.group(2))
        m = _DEPTH.search(line)
        if m:
            run.depth = int(m.group(1))
        m = _INV.search(line)
        if m:
            run.violated = m.group(1)
        m = _PROP.search(line)
        if m:
            run.violated = m.group(1) or "property"
        m = _COV.match(line.strip())
        if m:
            run.coverage[m.group(1)] = run.coverage.get(m.group(1), 0) + int(m.group(4))
        s = line.strip()
        if s.startswith('"') and s.endswith('"') and len(s) > 1:
            try:
                inner = json.loads(s)
                run.records.append(json.loads(inner))
            except Exception:
                pass


def sany(module_path: str) -> None:
    p = subprocess.run(
        ["java", "-cp", CP, "tla2sany.SANY", os.path.basename(module_path)],
        cwd=os.path.dirname(module_path), capture_output=True, text=True, timeout=120,
    )
    if p.returncode != 0 or "Semantic errors" in p.stdout or "Parse Error" in p.stdout or "Fatal errors" in p.stdout:
        raise MachineryError(f"SANY rejects {module_path}:\n{p.stdout[-2000:]}")


def validate_traces(
    module: str,
    traces: List[dict],
    *,
    constants: Optional[Dict[str, Any]] = None,
    timeout: int = 900,
    batch: int = 4000,
    extra_env: Optional[Dict[str, str]] = None,
) -> "Validation":
    """Code->spec direction: run trace specification `module` over `traces` (batched per JVM).

    The trace spec follows the TraceKit skeleton: it reads IOEnv.VF_TRACES, validates every trace
    with a total verdict, and finally prints ToJson([accepted |-> n, rejected |-> <<[id, step, clause]..>>]).
    """
    val = Validation()
    for i in range(0, len(traces), batch):
        chunk = traces[i : i + batch]
        d = scratch("tr")
        try:
            fn = os.path.join(d, "traces.json")
            with open(fn, "w") as fh:
                json.dump(chunk, fh)
            run = run_tlc(
                module,
                cfg_text(spec="TraceSpec", constants=constants),
                env={"VF_TRACES": fn, **(extra_env or {})},
                workers=1,
                timeout=timeout,
            )
        finally:
            shutil.rmtree(d, ignore_errors=True)
        verdicts = [r for r in run.records if isinstance(r, dict) and "accepted" in r and "rejected" in r]
        if len(verdicts) != 1:
            raise MachineryError(f"{module}: expected one verdict record, got {len(verdicts)}\n{run.stdout[-3000:]}")
        v = verdicts[0]
        if v["accepted"] + len(v["rejected"]) != len(chunk):
            raise MachineryError(
                f"{module}: validator consumed {v['accepted'] + len(v['rejected'])} of {len(chunk)} traces"
            )
        val.accepted += v["accepted"]
        val.rejected += list(v["rejected"])
        val.states += run.distinct
        val.transitions += run.generated
        val.wall_s += run.wall_s
        val.traces += len(chunk)
    return val


@dataclass
class Validation:
    accepted: int = 0
    rejected: List[dict] = field(default_factory=list)
    states: int = 0
    transitions: int = 0
    traces: int = 0
    wall_s: float = 0.0
