"""Seeded, token-aware mutators over corpus SQL (inputs only; nothing here judges anything)."""
from __future__ import annotations

import random
import re
from typing import List

_TOK = re.compile(r"\w+|\s+|[^\w\s]", re.S)
WEIRD = ["\x00", "\x0b", "\x0c", "\x1f", "\x7f", "\x85", "\xa0", " ", " ", "﻿", "​", "\U0001F600",
         "é", "‮", "\r", "\r\n", "\\", "`", "$$", "@", "#", "?", "~", "é", "中"]
OPENERS = ["(", "[", "'", '"', "/*", "--", "{", "$$", "`", ")", "]", "*/", "}"]


def tokens(s: str) -> List[str]:
    return _TOK.findall(s)


CLAUSE_WORDS = ["limit", "order", "group", "window", "union", "join", "on", "using", "set", "values", "returning", "qualify",
                "having", "fetch", "offset", "where", "from", "into", "partition", "over", "as", "except", "intersect", "with"]


def keyword_as_identifier(sql: str, rnd: random.Random) -> str:
    """Replace one identifier-like token by a word that also starts (or terminates) a clause.  Parsers that
    backtrack over such words try the same grammar element at the same position under differently trimmed
    views, which is where match caches and first-token pruning can go wrong."""
    toks = tokens(sql)
    idx = [i for i, t in enumerate(toks) if re.fullmatch(r"[A-Za-z_][A-Za-z_0-9]*", t)]
    if not idx:
        return sql
    i = rnd.choice(idx)
    toks[i] = rnd.choice(CLAUSE_WORDS)
    return "".join(toks)


def mutate(sql: str, rnd: random.Random) -> str:
    toks = tokens(sql)
    if not toks:
        return rnd.choice(WEIRD)
    op = rnd.randrange(16)
    if op >= 14:
        return keyword_as_identifier(sql, rnd)
    i = rnd.randrange(len(toks))
    if op == 0:
        del toks[i]
    elif op == 1:
        toks.insert(i, toks[i])
    elif op == 2 and len(toks) > 1:
        j = rnd.randrange(len(toks))
        toks[i], toks[j] = toks[j], toks[i]
    elif op == 3:
        toks.insert(i, rnd.choice(OPENERS))
    elif op == 4:
        toks.insert(i, rnd.choice(WEIRD))
    elif op == 5:
        return sql[: rnd.randrange(len(sql) + 1)]
    elif op == 6:
        n = rnd.choice([3, 10, 40])
        toks.insert(i, "(" * n)
        if rnd.random() < 0.5:
            toks.insert(min(len(toks), i + 2), ")" * n)
    elif op == 7:
        k = [j for j, t in enumerate(toks) if t in "()[]'\""]
        if k:
            del toks[rnd.choice(k)]
    elif op == 8:
        toks[i] = toks[i].swapcase()
    elif op == 9:
        ws = [j for j, t in enumerate(toks) if t.isspace()]
        if ws:
            toks[rnd.choice(ws)] = rnd.choice(["", "  ", "\n", "\t", " \n  ", "\r\n"])
    elif op == 10:
        j = rnd.randrange(len(toks))
        a, b = min(i, j), max(i, j)
        del toks[a:b]
    elif op == 11:
        other = tokens(sql)
        rnd.shuffle(other)
        toks[i:i] = other[:3]
    elif op == 12:
        toks.insert(i, rnd.choice([" -- noqa", " -- noqa: LT01", "/* noqa: disable=all */", "-- sqlfluff:max_line_length:20\n"]))
    else:
        toks.insert(i, rnd.choice(["{{ x }}", "{% if y %}", "{% endif %}", "{#", "{{", "%}", "{% for i in z %}"]))
    return "".join(toks)


def mutants(sql: str, n: int, rnd: random.Random) -> List[str]:
    out, seen = [], {sql}
    tries = 0
    while len(out) < n and tries < n * 5:
        tries += 1
        m = sql
        for _ in range(rnd.choice([1, 1, 2, 3])):
            m = mutate(m, rnd)
        if m not in seen:
            seen.add(m)
            out.append(m)
    return out
