"""Binding self-test: corrupt one recorded field (or drop one event) of genuine traces and require that the trace
validators reject exactly those traces, naming the expected clause.  Run: ./selftest.sh

This is what shows that the specification is bound to the code: a validator that accepted a corrupted trace
would be constraining nothing.
"""
from __future__ import annotations

import copy
import json
import sys

from .tlc import validate_traces
from . import lexrec, piperec, sq


def expect(module, traces, want, constants=None, strip=None):
    val = validate_traces(module, [strip(t) if strip else t for t in traces], constants=constants)
    got = {r["id"]: r["clause"] for r in val.rejected}
    ok = True
    for tid, clause in want.items():
        if clause is None:
            if tid in got:
                print(f"  FAIL {module}: genuine trace {tid} rejected ({got[tid]})"); ok = False
        elif not got.get(tid, "").startswith(clause):
            print(f"  FAIL {module}: corrupted trace {tid} -> {got.get(tid)} (expected {clause})"); ok = False
    print(f"{'ok  ' if ok else 'FAIL'} {module}: {len(want)} traces, {sum(1 for c in want.values() if c)} corrupted, all judged as expected" if ok else "")
    return ok


def main() -> int:
    ok = True
    sql = "SELECT a,  b FROM t WHERE x = 1 -- c\n"
    tmpl = "SELECT {{ 'a' }},\n  {% if true %}b{% endif %} FROM t\n"
    base = lexrec.record_lex(sql, "ansi", "raw", tid="g1") + lexrec.record_lex(tmpl, "ansi", "jinja", tid="g2")
    want = {t["id"]: None for t in base}
    muts = []

    def mut(src, tid, clause, fn):
        t = copy.deepcopy(src); t["id"] = tid; fn(t); muts.append(t); want[tid] = clause

    t0 = base[0]
    mut(t0, "m-shift", "TmplContiguous", lambda t: t["events"][1]["toks"][2].__setitem__(0, t["events"][1]["toks"][2][0] + 1))
    mut(t0, "m-drop", "TmplContiguous", lambda t: t["events"][1]["toks"].pop(3))
    mut(t0, "m-text", "TextEqualsRendered", lambda t: t["events"][1]["toks"][1].__setitem__(6, False))
    mut(t0, "m-src", "SrcIdenticalWhenUntemplated", lambda t: t["events"][1]["toks"][4].__setitem__(2, t["events"][1]["toks"][4][2] + 1))
    mut(t0, "m-eof", "EndsWithEOF", lambda t: t["events"][1]["toks"].pop())
    mut(base[1], "m-rawgap", "RawTiles", lambda t: t["events"][0]["raw"][1].__setitem__(1, t["events"][0]["raw"][1][1] + 1))
    mut(base[1], "m-lit", "LiteralEq", lambda t: t["events"][0]["tfs"][0].__setitem__(5, False))
    mut(base[1], "m-tiles", "TmplTiles", lambda t: t["events"][0]["tfs"][1].__setitem__(3, t["events"][0]["tfs"][1][3] + 1))
    ok &= expect("LexTrace", base + muts, want, strip=lexrec.strip_for_tlc)

    # parse trees
    pbase = lexrec.record_parse(sql, "ansi", "raw", tid="p1") + lexrec.record_parse("SELECT (a + b) FROM t; SELECT 1 +\n", "ansi", "raw", tid="p2")
    for mode, cases in (("C02", [("LeafEqualsToken", lambda t: t["events"][1]["leaves"][0].__setitem__(9, 999)),
                                 ("TokenDropped", lambda t: t["events"][1]["leaves"].__delitem__(slice(-3, -1))),
                                 ("UnparsableIffPRS", lambda t: t["events"][1].__setitem__("nprs", t["events"][1]["nprs"] + 1))]),
                        ("C03", [("SpanIsHull", lambda t: t["events"][1]["nodes"][2].__setitem__(4, t["events"][1]["nodes"][2][4] + 1)),
                                 ("ChildOrder", lambda t: t["events"][1]["nodes"][0][8].reverse()),
                                 ("NoNonCodeEnds", lambda t: t["events"][1]["nodes"][3].__setitem__(11, "ws") or t["events"][1]["nodes"][3].__setitem__(7, False)),
                                 ("Indent", lambda t: t["events"][1]["leaves"][0].__setitem__(8, 1))])):
        want = {t["id"]: None for t in pbase[:1]}
        muts = []
        for k, (clause, fn) in enumerate(cases):
            t = copy.deepcopy(pbase[0]); t["id"] = f"pm{k}"; fn(t); muts.append(t); want[t["id"]] = clause
        ok &= expect("TreeTrace", pbase[:1] + muts, want, constants={"Mode": mode}, strip=lexrec.strip_for_tlc)

    # pipeline
    g = piperec.run_entry(sql, "ansi", "raw", "fix", tid="e1")
    want = {"e1": None}
    muts = []
    for k, (clause, fn) in enumerate([("NeverRaises", lambda t: t["events"].__setitem__(-1, {"ev": "Crash", "exc": "X", "site": "?", "msg": ""})),
                                      ("ReturnsAResult", lambda t: t["events"].pop()),
                                      ("StageOrder", lambda t: t["events"].pop(1)),
                                      ("NoInternalRuleError", lambda t: [e.__setitem__("internal", True) for e in t["events"] if e["ev"] == "Lint"]),
                                      ("LimitReported", lambda t: [e.update(limit=1, ntok=5) for e in t["events"] if e["ev"] == "Parse"])]):
        t = copy.deepcopy(g); t["id"] = f"em{k}"; fn(t); muts.append(t); want[t["id"]] = clause
    ok &= expect("PipelineTrace", [g] + muts, want, strip=piperec.strip_for_tlc)
    return 0 if ok else 1


if __name__ == "__main__":
    sys.exit(main())
