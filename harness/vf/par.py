"""Parallel map over worker processes (fork), for recording many implementation runs.

`fn` must be a module-level function; items and results must be picklable.  The number of processes is
min(VF_PROCS or 14, len(items)); set VF_PROCS=4 while developing on a shared machine.  Results keep the
order of `items`.  Each worker imports sqlfluff once and can keep per-process caches (vf.sq does).
"""
from __future__ import annotations

import multiprocessing as mp
import os
from typing import Any, Callable, Iterable, List


def procs(n_items: int) -> int:
    cap = int(os.environ.get("VF_PROCS", "14") or 14)
    return max(1, min(cap, n_items))


def pmap(fn: Callable[[Any], Any], items: Iterable[Any], chunksize: int = 8) -> List[Any]:
    items = list(items)
    n = procs(len(items))
    if n <= 1 or len(items) < 4:
        return [fn(x) for x in items]
    ctx = mp.get_context("fork")
    with ctx.Pool(n) as pool:
        return pool.map(fn, items, chunksize=max(1, min(chunksize, len(items) // n or 1)))
