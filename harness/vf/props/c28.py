"""C28 — parse output (human / JSON / YAML / API record) is a faithful serialisation of the parse tree.

Spec:  spec/TreeRecord.tla (contract TreeSeq/MustShow + transcription of to_tuple / structural_simplify),
       spec/TreeRecordTrace.tla (the same contract over recorded outputs).
S->C:  every tree with <= MaxNodes nodes (two types -> duplicate sibling keys, code / empty-raw / whitespace /
       meta leaves) is enumerated by TLC with the contract's verdict (which nodes must be shown under each
       setting); the driver builds the real BaseSegment / RawSegment tree, runs the real as_record (8 flag
       settings, through a JSON round trip) and stringify (2), reads the result back in order and compares
       with the verdict carried by the record.  Container shapes (dict vs list) are compared with the
       transcription's prediction as DRIFT only.
C->S:  corpus files (stratified by dialect) + templater fixtures + token mutants are parsed once and shown through
       as_record, sqlfluff.parse, and the CLI `parse` in json / yaml / human x --code-only x --include-meta;
       TreeRecordTrace validates every output against the tree walked independently.
"""
from __future__ import annotations

import json
import os
import random

from ..core import Report, expect_model_ok
from ..par import pmap
from ..tlc import MachineryError, cfg_text, run_tlc, validate_traces
from .. import sq, treerec

PROP = "C28"
INVS = ["RecordListsLeafTextsInOrder", "RecordTypesNestAsTree", "DictKeysUnique", "WellFormed"]
GROUPS = {"record": lambda e: e.get("fmt") == "record", "cli-data": lambda e: e.get("fmt") in ("json", "yaml"),
          "cli-human": lambda e: e.get("fmt") == "human"}


# ------------------------------------------------------------------ S->C
def expected(rec: dict, co: bool, im: bool) -> list:
    keep = rec["keep"][treerec.skey(co, im)]
    out = []
    for i in keep:
        n = rec["nodes"][i - 1]
        out.append([n["d"], n["t"], None if n["k"] == "in" else treerec.RAW_OF[n["k"]]])
    return out


def judge_tree(rep: Report, rec: dict, obs: list) -> None:
    kinds = sorted({n["k"] for n in rec["nodes"]})
    for o in obs:
        rep.evaluated()
        sig = {"level": "object", "src": o["src"], "co": o["co"], "im": o["im"], "ip": o["ip"]}
        payload = {"kind": "tree", "rec": rec}
        if "crash" in o:
            rep.violation("OutputProduced", sig, f"{o['src']} raised {o['crash']} on tree {rec['nodes']}", payload)
            continue
        want = expected(rec, o["co"], o["im"])
        got = o["seq"]
        if [x[1] for x in got if x[2] is not None] != [x[1] for x in want if x[2] is not None]:
            clause = "ListsEveryTokenInFileOrder"
        elif [(x[0], x[1], x[2] is None) for x in got] != [(x[0], x[1], x[2] is None) for x in want]:
            clause = "TypesNestAsInTheTree"
        elif [x[2] for x in got] != [x[2] for x in want]:
            clause = "TokenTextsAreExact"
        else:
            clause = None
        if clause:
            sig["dup_sibling_types"] = _has_dup(rec["nodes"])
            sig["leaf_kinds"] = ",".join(k for k in kinds if k != "in")
            rep.violation(clause, sig, f"{o['src']}(code_only={o['co']}, include_meta={o['im']}, include_position={o['ip']}) "
                          f"shows {got}, contract shows {want} for tree {rec['nodes']}", payload)
        elif o["shape"] is not None and o["shape"] != rec["shape"][treerec.skey(o["co"], o["im"], o["ip"])]:
            rep.drift.append(f"container shapes {o['shape']} differ from the transcription's "
                             f"{rec['shape'][treerec.skey(o['co'], o['im'], o['ip'])]} for {rec['nodes']}")
    if _has_dup(rec["nodes"]):
        rep.nontrivial(json.dumps(rec["nodes"], sort_keys=True))


def _has_dup(nodes: list) -> bool:
    """Some node has two children of the same type (the case where a dict would lose a key)."""
    stack: list = []
    seen: dict = {}
    for i, n in enumerate(nodes):
        while stack and nodes[stack[-1]]["d"] >= n["d"]:
            stack.pop()
        p = stack[-1] if stack else -1
        if (p, n["t"]) in seen:
            return True
        seen[(p, n["t"])] = 1
        stack.append(i)
    return False


def model_and_replay(rep: Report, tier: str) -> None:
    n = 5 if tier == "quick" else 6
    m = run_tlc("TreeRecord", cfg_text(constants={"MaxNodes": n, "EmitCases": True}, invariants=INVS),
                timeout=3000, heap="8g")
    expect_model_ok(m, "TreeRecord Algo => Contract")
    rep.model(m, f"every tree <= {n} nodes x 8 settings: to_tuple+structural_simplify vs TreeSeq")
    if not m.records:
        raise MachineryError("TreeRecord emitted no cases")
    want_n = {5: 12860, 6: 173756}[n]
    if len(m.records) != want_n:
        raise MachineryError(f"TreeRecord emitted {len(m.records)} trees, expected {want_n}")
    recs = m.records
    chunks = [recs[i:i + 500] for i in range(0, len(recs), 500)]
    for chunk, obs in zip(chunks, pmap(treerec.replay_chunk, chunks, chunksize=1)):
        for rec, o in zip(chunk, obs):
            judge_tree(rep, rec, o)
    rep.exhaustive = True
    rep.sample({"tree": recs[len(recs) // 3]["nodes"], "must_show": recs[len(recs) // 3]["keep"]})
    rep.extra["max_nodes"] = n


# ------------------------------------------------------------------ C->S
def corpus_items(tier: str, seed: int) -> list:
    rnd = random.Random(seed)
    n = 140 if tier == "quick" else 800
    cap = 6000 if tier == "quick" else 40000
    files = [x for x in sq.corpus_sample(n * 2, seed, templated=False) if os.path.getsize(x[0]) <= cap][:n]
    items = []
    for k, (p, d, t) in enumerate(files):
        items.append({"id": f"c{k}", "path": p, "dialect": d, "templater": t, "sql": None, "cli": True, "api": True})
    tf = [f for f in sq.templater_fixtures() if os.path.getsize(f) <= cap]
    for k, f in enumerate(tf[: (30 if tier == "quick" else len(tf))]):
        items.append({"id": f"t{k}", "path": f, "dialect": "ansi", "templater": "path", "sql": None, "cli": True, "api": False})
    nm = 40 if tier == "quick" else 200
    for k in range(nm):
        p, d, t = files[rnd.randrange(len(files))]
        items.append({"id": f"m{k}", "path": p, "dialect": d, "templater": t, "sql": treerec.mutant(sq.read(p), rnd),
                      "cli": True, "api": True})
    # quick: every file goes through the three CLI formats with the default flags and with one of the three
    # other (--code-only, --include-meta) settings in rotation; thorough: all four settings for every file
    other = [(True, False), (False, True), (True, True)]
    for k, it in enumerate(items):
        it["settings"] = [(False, False), other[k % 3]] if tier == "quick" else [(False, False)] + other
    return items


def split_groups(tr: dict) -> list:
    out = []
    for g, pred in GROUPS.items():
        evs = [e for e in tr["events"] if pred(e)]
        if not evs:
            continue
        used = sorted({e["s"] for e in evs if "s" in e})
        remap = {s: i + 1 for i, s in enumerate(used)}
        evs2 = [tr["tree_event"]] if g == "record" else []
        for e in evs:
            e2 = {k: v for k, v in e.items() if k in ("ev", "co", "im", "human")}
            if "s" in e:
                e2["s"] = remap[e["s"]]
            evs2.append(e2)
        out.append({"id": f"{tr['id']}/{g}", "tree": tr["tree"], "raws": tr["raws"] if g == "record" else [],
                    "seqs": [tr["seqs"][s - 1] for s in used], "events": evs2})
    return out


def describe(tr: dict, group: str, step: int) -> dict:
    evs = [e for e in tr["events"] if GROUPS[group](e)]
    if group == "record":
        evs = [dict(tr["tree_event"], src="tree")] + evs
    return evs[step - 1]


def first_diff(tr: dict, ev: dict) -> str:
    """Human-readable pointer to where an output departs from the tree (diagnostics only)."""
    if "s" not in ev:
        return ev.get("note", "")
    ty = tr["types"]
    seq = tr["seqs"][ev["s"] - 1]
    co, im = ev["co"], ev["im"]
    want = [n for i, n in enumerate(tr["tree"]) if i == 0 or ((n[4] == 1 and n[3] == 0) if co else (im or n[3] == 0))]
    for i in range(max(len(seq), len(want))):
        a = seq[i][:3] if i < len(seq) else None
        b = want[i][:3] if i < len(want) else None
        if a != b:
            f = lambda x: None if x is None else (x[0], ty.get(x[1], ty.get(str(x[1]))), x[2])  # noqa: E731
            return f"first difference at node {i + 1}: output {f(a)} vs tree {f(b)} (depth, type, text id)"
    return "node lists equal; meta marks differ"


def trace_validation(rep: Report, tier: str, seed: int, items: list) -> None:
    traces = pmap(treerec.record_file, items, chunksize=2)
    todo, skipped = [], 0
    for tr in traces:
        if "skip" in tr:
            skipped += 1
            continue
        rep.evaluated(len(tr["events"]))
        todo.append(tr)
    if not todo:
        raise MachineryError("C28 recorded no parse output")
    rep.extra["files_recorded"] = len(todo)
    rep.extra["files_without_tree"] = skipped
    vt = []
    for tr in todo:
        vt += split_groups(tr)
    val = validate_traces("TreeRecordTrace", vt, batch=160, timeout=1500)
    rep.validation(val, "TreeRecordTrace")
    by = {tr["id"]: tr for tr in todo}
    for r in val.rejected:
        fid, group = r["id"].split("/")
        tr = by[fid]
        ev = describe(tr, group, r["step"])
        has_unp = any(tr["types"].get(n[1], tr["types"].get(str(n[1]))) == "unparsable" for n in tr["tree"])
        sig = {"level": "file", "src": ev.get("src", "tree"), "fmt": ev.get("fmt", ""), "co": ev.get("co"), "im": ev.get("im"),
               "unparsable": has_unp, "variants": "multi" if tr.get("nvariants", 1) > 1 else "single",
               "comment_sections": ev.get("note") == "comment-sections"}
        item = next(i for i in items if i["id"] == fid)
        rep.violation(r["clause"], sig,
                      f"{ev.get('src')} {ev.get('fmt')} code_only={ev.get('co')} include_meta={ev.get('im')} of {tr['file']} "
                      f"({tr['dialect']}{', mutant' if tr['mutant'] else ''}): {first_diff(tr, ev)}",
                      {"kind": "file", "item": item})
    for tr in todo:
        if len(tr["tree"]) > 3:
            rep.nontrivial(tr["file"] + ("#m" + tr["id"] if tr["mutant"] else ""))
    t0 = todo[0]
    rep.sample({"file": t0["file"], "events": [{k: v for k, v in e.items() if k not in ("cuts",)} for e in t0["events"][:6]],
                "tree_head": t0["tree"][:6]})


def run(tier: str, seed: int) -> int:
    rep = Report(PROP, tier, seed, "model_checking")
    model_and_replay(rep, tier)
    items = corpus_items(tier, seed)
    trace_validation(rep, tier, seed, items)
    rep.rule = ("S->C: TLC enumerates every pre-order tree <= MaxNodes nodes over 2 types x 4 leaf kinds; non-trivial = "
                "some node has two children of the same type (dict would lose a key); distinct by tree. "
                "C->S: one trace group per (file, channel); non-trivial = file whose tree has > 3 nodes; distinct by file")
    rep.trusted_base = ["treerec.flatten (reads a record in textual order; skips the six position keys)",
                        "treerec.parse_human (line regex, indentation/4 = depth, python literal suffix = text)",
                        "treerec.walk (plain recursion over .segments; holds_code = any code leaf below)",
                        "treerec._cuts (slices the rendered SQL at the cumulative lengths of the output's leaf texts)",
                        "treerec.build_tree (dummy segment classes per (kind, type))", "text/type interning per trace"]
    return rep.finish()


def replay(path, tier, seed):
    case = json.load(open(path))["case"]
    rep = Report(PROP, tier, seed, "model_checking")
    if case["kind"] == "tree":
        judge_tree(rep, case["rec"], treerec.replay_tree(case["rec"]))
    else:
        trace_validation(rep, tier, seed, [case["item"]])
    if rep.violations:
        print(f"VIOLATION property={PROP} replay={path}")
        for v in rep.violations[:5]:
            print(f"  clause={v['clause']} {v['what'][:300]}")
        return 1
    print("replay: behaviour now satisfies the contract")
    return 0
