"""C33 — within a file every distinct violation is reported once, in source order.

Spec:  spec/Report.tla (contract NothingInvented / NoDuplicateSignature / SourceOrder / NothingLost +
       transcription of LintedFile.deduplicate_in_source_space), spec/ReportTrace.tla.
S->C:  TLC enumerates every concatenated violation list of the scope (<= MaxViols violations from <= 3
       variants, duplicate signatures, out-of-order positions).  Each list is rebuilt from real
       SQLLintError / SQLParseError objects (real PositionMarker on a real TemplatedFile, real LintFix edits;
       objects of different variants differ in their templated position only) and run through the real
       deduplicate_in_source_space.  The (input, output) pair, projected from the objects' own attributes,
       is validated by TLC against the contract (ReportTrace); a difference to the transcription's predicted
       output is DRIFT.
C->S:  templated inputs with loops / branches / several variants (linter/jinja_variants, templater fixtures,
       templated rule cases, generated {% for %}/{% if %} templates) are linted with all rules; the dedupe
       call is recorded at its function boundary and the LintedFile's violation list at the end; ReportTrace
       validates both.  Duplicates on the user-visible key (code, line, pos, description) are counted in the
       evidence (`user_key_duplicate_pairs`) and never fail the check (DESIGN §5 C33 reading).
"""
from __future__ import annotations

import glob
import json
import os
import random

from ..core import Report, expect_model_ok, h
from ..tlc import MachineryError, cfg_text, run_tlc, validate_traces
from ..par import pmap
from .. import sq

PROP = "C33"
WORKERS = os.environ.get("VF_PROCS") or "auto"
SRC = "ab\ncd\n"                     # (1,1)=0 (1,2)=1 (2,1)=3 (2,2)=4
OFFSET = {(1, 1): 0, (1, 2): 1, (2, 1): 3, (2, 2): 4}
CONSTS_TRACE = {"MaxViols": 0, "MaxVariants": 0, "Profile": "narrow"}
SMALL = os.environ.get("VF_SCOPE") == "small"     # development only: a strict subset of the quick tier


# ------------------------------------------------------------------ projection (trusted base)
def fix_projection(v):
    """What the fix edits of a violation are, read from the objects (not from source_signature())."""
    fixes = getattr(v, "fixes", None)
    if not fixes:
        return None
    raws, sfs = [], []
    for f in fixes:
        raws.append(tuple(e.raw for e in f.edit) if f.edit else None)
        for e in (f.edit or []):
            for sf in e.source_fixes:
                sfs.append((sf.edit, sf.source_slice.start, sf.source_slice.stop))
    return (tuple(raws), tuple(sfs))


class Interner:
    def __init__(self):
        self.d = {}

    def __call__(self, x):
        if x is None:
            return 0
        if x not in self.d:
            self.d[x] = len(self.d) + 1
        return self.d[x]


def row(v, fixid, descid, last):
    return [v.rule_code(), fixid(fix_projection(v)), int(v.line_no), int(v.line_pos), descid(v.desc()), last]


def project_call(inp, out, fixid=None, descid=None):
    """Rows for the input and output lists of one deduplicate_in_source_space call."""
    fixid, descid = fixid or Interner(), descid or Interner()
    rin = [row(v, fixid, descid, getattr(v, "_vf_var", 0)) for v in inp]
    rout = []
    for v in out:
        src = 0
        for i, x in enumerate(inp):
            if x is v:
                src = i + 1
                break
        rout.append(row(v, fixid, descid, src))
    return rin, rout


def user_dups(rows):
    seen, n = {}, 0
    for r in rows:
        k = (r[0], r[2], r[3], r[4])
        n += seen.get(k, 0)
        seen[k] = seen.get(k, 0) + 1
    return n


# ------------------------------------------------------------------ S->C
_OBJ = {}


def _kit():
    if _OBJ:
        return _OBJ
    from sqlfluff.core.errors import SQLLintError, SQLParseError
    from sqlfluff.core.parser import RawSegment
    from sqlfluff.core.parser.markers import PositionMarker
    from sqlfluff.core.parser.segments.base import SourceFix
    from sqlfluff.core.rules.base import BaseRule, LintFix
    from sqlfluff.core.rules.crawlers import RootOnlyCrawler
    from sqlfluff.core.rules import get_ruleset
    from sqlfluff.core.templaters.base import RawFileSlice, TemplatedFile, TemplatedFileSlice

    get_ruleset()   # plugins loaded before a rule class is defined

    class Rule_VF33(BaseRule):
        """Carrier rule for C33 objects."""

        groups = ("all",)
        crawl_behaviour = RootOnlyCrawler()

    text = SRC * 3
    tf = TemplatedFile(source_str=SRC, fname="<c33>", templated_str=text,
                       sliced_file=[TemplatedFileSlice("templated", slice(0, len(SRC)), slice(0, len(text)))],
                       raw_sliced=[RawFileSlice(SRC, "templated", 0)])
    _OBJ.update(SQLLintError=SQLLintError, SQLParseError=SQLParseError, RawSegment=RawSegment,
                PositionMarker=PositionMarker, SourceFix=SourceFix, LintFix=LintFix, tf=tf,
                rules={c: Rule_VF33(code=c, description="carrier") for c in ("A", "B")})
    return _OBJ


def build_violation(r, idx):
    """r = [code, fix, line, pos, desc, var] -> a real error object."""
    k = _kit()
    code, fix, line, pos, desc, var = r
    o = OFFSET[(line, pos)]
    t = o + len(SRC) * (var - 1)
    pm = k["PositionMarker"](slice(o, o + 1), slice(t, t + 1), k["tf"])
    seg = k["RawSegment"](SRC[o], pos_marker=pm)
    if code == "PRS":
        if idx % 2:
            v = k["SQLParseError"](description=f"desc {desc}", segment=seg)
        else:
            v = k["SQLParseError"](description=f"desc {desc}", line_no=line, line_pos=pos)
    else:
        fixes = []
        if fix == 1:
            fixes = [k["LintFix"]("replace", seg, [k["RawSegment"]("y")])]
        elif fix == 2:
            # same raw as fix 1, told apart only by a source fix (templated position differs per variant)
            edit = k["RawSegment"]("y", source_fixes=[k["SourceFix"]("{{ y }}", slice(o, o + 1), slice(t, t + 1))])
            fixes = [k["LintFix"]("replace", seg, [edit])]
        v = k["SQLLintError"](description=f"desc {desc}", segment=seg, rule=k["rules"][code], fixes=fixes)
    v._vf_var = var
    return v


def object_case(rec, cid):
    from sqlfluff.core.linter.linted_file import LintedFile

    inp = [build_violation(r, i) for i, r in enumerate(rec["inp"])]
    # the objects must say what the record says (else the concretiser, not the code, is wrong)
    for v, r in zip(inp, rec["inp"]):
        if (v.rule_code(), v.line_no, v.line_pos) != (r[0], r[2], r[3]):
            raise MachineryError(f"C33 concretiser built {v!r} for {r}")
    out = LintedFile.deduplicate_in_source_space(list(inp))
    rin, rout = project_call(inp, out)
    return {"id": cid, "events": [{"ev": "Dedupe", "inp": rin, "out": rout}]}


def _object_chunk(chunk):
    return [object_case(rec, cid) for cid, rec in chunk]


def sc_direction(rep: Report, consts: dict, what: str):
    m = run_tlc("Report", cfg_text(constants=consts, invariants=["AlgoMeetsContract", "AlgoFirstWins", "AlgoStable"]),
                timeout=2400, workers=WORKERS)
    expect_model_ok(m, "Report Algo => Contract")
    rep.model(m, what)
    recs = [r for r in m.records if isinstance(r, dict) and "inp" in r]
    if len(recs) != m.distinct or len({json.dumps(r, sort_keys=True) for r in recs}) != len(recs):
        raise MachineryError(f"Report emitted {len(recs)} cases for {m.distinct} states")
    recs.sort(key=lambda r: json.dumps(r["inp"]))
    tag = consts["Profile"][0]
    items = [(f"o{tag}{i}", r) for i, r in enumerate(recs)]
    chunks = [items[i:i + 2000] for i in range(0, len(items), 2000)]
    traces = [t for ch in pmap(_object_chunk, chunks, chunksize=1) for t in ch]
    rep.evaluated(len(traces))
    for t, (_, r) in zip(traces, items):
        ev = t["events"][0]
        if [x[5] for x in ev["out"]] != r["algo"]:
            rep.drift.append(f"dedupe returned input indices {[x[5] for x in ev['out']]}, transcription {r['algo']} for {r['inp']}")
        sigs = [tuple(x[:5]) for x in ev["inp"]]
        if len(set(sigs)) < len(sigs) or sorted(sigs, key=lambda s: (s[2], s[3])) != sigs:
            rep.nontrivial(json.dumps(r["inp"]))
    rep.sample({"S->C case": traces[len(traces) // 2]})
    return traces, {t["id"]: r for t, (_, r) in zip(traces, items)}


# ------------------------------------------------------------------ C->S
FOR_HEADS = ["{% for c in ['a', 'b', 'c'] %}", "{% for c in cols %}", "{%- for c in ['x', 'y'] %}",
             "{% for c in ['a', 'b'] %}{% for d in [1, 2] %}"]
BODIES = ["    {{ c }}  AS {{ c }}_v,", "    sum({{ c }}) as {{ c }}_sum ,", "    T.{{ c }},t.{{ c }} as B,",
          "    1 as  one, {{ c }},", "    CASE WHEN {{ c }} IS NULL THEN 1 else 0 END as {{ c }}_n,",
          "    {{c}} + 1 AS x,"]
IFS = ["{% if flag %}WHERE a = 1{% else %}where  b=2{% endif %}", "{% if flag %}\nWHERE a=1\n{% endif %}",
       "{% if not flag %}where t.a  = 1 and T.b = 2{% else %}WHERE a = 1{% endif %}",
       "{% if flag %}order by 1{% elif other %}ORDER BY  2{% else %}order BY 3 {% endif %}", ""]
TAILS = ["    1 as z\nfrom tbl as t\n", "    2 AS z\nFROM tbl t\n", "    3 as Z\nfrom  tbl T\n"]


def gen_template(rnd: random.Random) -> str:
    head = rnd.choice(FOR_HEADS)
    nbody = rnd.choice([1, 1, 2])
    body = "\n".join(rnd.choice(BODIES) for _ in range(nbody))
    if "{% for d" in head:
        body = body.replace("{{ c }}_", "{{ c }}{{ d }}_")
        end = "{% endfor %}{% endfor %}"
    else:
        end = rnd.choice(["{% endfor %}", "{%- endfor %}"])
    sel = rnd.choice(["SELECT", "select", "SELECT DISTINCT"])
    pre = rnd.choice(["", "{% set cols = ['p', 'q'] %}\n", "{% set flag = true %}\n", "{% set cols = ['p'] %}{% set flag = false %}\n"])
    if "cols" in head and "set cols" not in pre:
        pre = "{% set cols = ['p', 'q', 'r'] %}\n" + pre
    inner_if = rnd.choice(["", "", "{% if loop.first %}    0 as first_col,\n{% endif %}"])
    out = f"{pre}{sel}\n{head}\n{inner_if}{body}\n{end}\n{rnd.choice(TAILS)}{rnd.choice(IFS)}\n"
    if rnd.random() < 0.3:
        out += "UNION ALL\n" + f"{sel}\n{head}\n{body}\n{end}\n{rnd.choice(TAILS)}"
    return out


def cs_inputs(tier: str, seed: int):
    rnd = random.Random(seed)
    items = []
    for f in sorted(glob.glob(os.path.join(sq.FIX, "linter", "jinja_variants", "*.sql"))):
        items.append({"id": "jv:" + os.path.basename(f), "text": sq.read(f), "dialect": "ansi", "templater": "jinja",
                      "fname": f, "configs": None})
    tfx = list(sq.templater_fixtures())
    if tier == "quick":
        tfx = sq.stratified(tfx, lambda p: os.path.basename(os.path.dirname(p)), 20 if SMALL else 60, seed)
    for f in sorted(tfx):
        items.append({"id": "tf:" + os.path.relpath(f, sq.FIX), "text": sq.read(f), "dialect": "ansi",
                      "templater": "path", "fname": f, "configs": None})
    cases = [c for c in sq.rule_cases() if ("{%" in c["sql"] or "{{" in c["sql"]) and not c.get("skip")]
    if tier == "quick":
        cases = sq.stratified(cases, lambda c: c["rule"], 30 if SMALL else 120, seed)
    for c in sorted(cases, key=lambda c: c["id"]):
        items.append({"id": "rc:" + c["id"], "text": c["sql"], "dialect": "ansi", "templater": "jinja",
                      "fname": "<string>", "configs": c["configs"]})
    for k in range((30 if SMALL else 150) if tier == "quick" else 2000):
        items.append({"id": f"gen:{k}", "text": gen_template(rnd), "dialect": "ansi", "templater": "jinja",
                      "fname": "<string>", "configs": None})
    return items


def record_lint(item: dict):
    """Lint one input with all rules; record the dedupe call and the reported list."""
    import logging
    from sqlfluff.core.linter.linted_file import LintedFile

    logging.getLogger("sqlfluff").setLevel(logging.CRITICAL + 1)   # rule crashes are C05's business
    calls = []
    orig = LintedFile.deduplicate_in_source_space

    def wrapper(violations):
        inp = list(violations)
        out = orig(violations)
        calls.append((inp, list(out)))
        return out

    LintedFile.deduplicate_in_source_space = staticmethod(wrapper)
    try:
        try:
            if item["templater"] == "path":
                cfg = sq.cfg_for(item["dialect"], "path", item["fname"])
            else:
                cfg = sq.config(item["dialect"], item["templater"], configs=item["configs"])
            lin = sq.linter(cfg)
            parsed = lin.parse_string(item["text"], fname=item["fname"])
            nvar = len(parsed.parsed_variants)
            lf = lin.lint_parsed(parsed, lin.get_rulepack(config=cfg))   # = lint_string
        except Exception as e:  # not this property's business (C04); the input is skipped and counted
            return {"id": item["id"], "skipped": f"{type(e).__name__}: {str(e)[:80]}"}
    finally:
        LintedFile.deduplicate_in_source_space = staticmethod(orig)
    events, removed, reordered, udup = [], 0, False, 0
    fixid, descid = Interner(), Interner()     # one interning per trace: Report rows comparable with the call's
    for inp, out in calls:
        rin, rout = project_call(inp, out, fixid, descid)
        events.append({"ev": "Dedupe", "inp": rin, "out": rout})
        removed += len(rin) - len(rout)
        srcs = [r[5] for r in rout]
        reordered = reordered or srcs != sorted(srcs)
    rows = [row(v, fixid, descid, 0) for v in lf.violations]
    events.append({"ev": "Report", "out": rows})
    udup = user_dups(rows)
    return {"id": item["id"], "events": events, "variants": nvar, "removed": removed, "reordered": reordered,
            "user_dups": udup, "ncalls": len(calls)}


def cs_direction(rep: Report, tier: str, seed: int):
    items = cs_inputs(tier, seed)
    res = pmap(record_lint, items, chunksize=4)
    by_item = {it["id"]: it for it in items}
    traces = [r for r in res if "events" in r]
    skipped = [r for r in res if "skipped" in r]
    rep.evaluated(len(traces))
    if not traces or any(t["ncalls"] != 1 for t in traces):
        raise MachineryError("C33 recorder: expected exactly one deduplicate_in_source_space call per lint "
                             f"({[t['id'] for t in traces if t['ncalls'] != 1][:3]})")
    for t in traces:
        if t["removed"] > 0 or t["reordered"]:
            rep.nontrivial(h(by_item[t["id"]]["text"]))
    rep.extra["c2s"] = {
        "inputs": len(items), "skipped_inputs": len(skipped), "skip_reasons": sorted({s["skipped"][:60] for s in skipped})[:8],
        "inputs_with_several_variants": sum(1 for t in traces if t["variants"] > 1),
        "inputs_where_dedupe_removed": sum(1 for t in traces if t["removed"] > 0),
        "violations_removed_as_duplicates": sum(t["removed"] for t in traces),
        "inputs_where_sort_reordered": sum(1 for t in traces if t["reordered"]),
        "user_key_duplicate_pairs": sum(t["user_dups"] for t in traces),
        "inputs_with_user_key_duplicates": sorted(t["id"] for t in traces if t["user_dups"])[:20],
    }
    ex = next((t for t in traces if t["removed"] > 0 and t["variants"] > 1), traces[0])
    rep.sample({"C->S input": by_item[ex["id"]]["text"][:300], "variants": ex["variants"], "removed": ex["removed"],
                "report": ex["events"][-1]["out"][:8]})
    return traces, by_item


def judge(rep: Report, obj_traces, obj_recs, lint_traces, by_item):
    """One oracle for both directions: every recorded behaviour goes through ReportTrace."""
    allt = [{"id": t["id"], "events": t["events"]} for t in obj_traces + lint_traces]
    val = validate_traces("ReportTrace", allt, constants=CONSTS_TRACE, batch=60000, timeout=2400)
    rep.validation(val, "ReportTrace")
    lint_by = {t["id"]: t for t in lint_traces}
    obj_by = {t["id"]: t for t in obj_traces}
    for rj in val.rejected:
        if rj["id"] in obj_by:
            t, r = obj_by[rj["id"]], obj_recs[rj["id"]]
            ev = t["events"][0]
            rep.violation(rj["clause"], {"level": "object", "codes": ",".join(sorted({x[0] for x in ev["inp"]}))},
                          f"deduplicate_in_source_space on the enumerated list (code, fix kind, line, pos, desc, variant) "
                          f"{r['inp']}: objects projected as {ev['inp']} (fix / description ids interned in order of "
                          f"appearance), returned {ev['out']} (last field = input index)", {"kind": "object", "rec": r})
        else:
            t = lint_by[rj["id"]]
            it = by_item[t["id"]]
            ev = t["events"][rj["step"] - 1]
            rep.violation(rj["clause"], {"level": "lint", "event": ev["ev"], "source": t["id"].split(":")[0]},
                          f"lint of {t['id']} ({it['text'][:200]!r}): event {ev['ev']} rejected; "
                          f"reported rows (code, fix id, line, pos, desc id, src) {ev['out'][:12]}",
                          {"kind": "lint", "item": it, "verdict": rj})


def run(tier: str, seed: int) -> int:
    rep = Report(PROP, tier, seed, "model_checking")
    nmax = 3 if SMALL else 4
    suites = [({"MaxViols": nmax, "MaxVariants": 3, "Profile": "narrow"},
               f"every list of <= {nmax} violations over 3 positions x {{A, A+fix, PRS}} from <= 3 variants"),
              ({"MaxViols": 3, "MaxVariants": 3, "Profile": "srcfix"},
               "every list of <= 3 violations over 3 positions x {A+fix, A+fix+source fix, B} from <= 3 variants")]
    if tier == "thorough":
        suites.append(({"MaxViols": 3, "MaxVariants": 3, "Profile": "wide"},
                       "every list of <= 3 violations over 4 positions x 5 kinds x 2 descriptions from <= 3 variants"))
    obj_traces, obj_recs = [], {}
    for consts, what in suites:
        ts, rs = sc_direction(rep, consts, what)
        obj_traces += ts
        obj_recs.update(rs)
    n = len(obj_traces)
    rep.exhaustive = True
    lint_traces, by_item = cs_direction(rep, tier, seed)
    judge(rep, obj_traces, obj_recs, lint_traces, by_item)
    rep.rule = ("S->C: TLC enumerates every violation list of the scope; non-trivial = the list has a duplicate "
                "signature or is out of (line, pos) order; distinct by list.  C->S: one trace per linted input; "
                "non-trivial = dedupe removed at least one violation or the sort changed the order; distinct by text")
    rep.trusted_base = ["projection of an error object to (code, fix-edit id, line, pos, description id) from its own "
                        "attributes", "identity scan mapping returned objects to input indices",
                        "object builders (PositionMarker/RawSegment/LintFix/SourceFix) for the enumerated rows",
                        "wrapper around LintedFile.deduplicate_in_source_space"]
    rep.extra["s2c_cases"] = n
    return rep.finish()


def replay(path, tier, seed):
    case = json.load(open(path))["case"]
    if case["kind"] == "object":
        t = object_case(case["rec"], "replay")
    else:
        t = record_lint(case["item"])
        if "events" not in t:
            print("replay: input no longer lints: " + t.get("skipped", ""))
            return 0
    val = validate_traces("ReportTrace", [{"id": t["id"], "events": t["events"]}], constants=CONSTS_TRACE)
    if val.rejected:
        print(f"VIOLATION property={PROP} replay={path}")
        print(f"  clause={val.rejected[0]['clause']}")
        return 1
    print("replay: behaviour now satisfies the contract")
    return 0
