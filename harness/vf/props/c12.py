"""C12 — fixes are lexically stable (they never merge or split tokens).

Spec:  spec/FixContract.tla clause RelexStable, decided by spec/FixTrace.tla (Prop = C12): the sequence of
       (text, lexical class) of the non-empty non-meta leaves of the fixed tree equals the token sequence
       obtained by lexing the fixed tree's text with the same dialect.
C->S:  recorded fix runs (vf/fixrec.py): dialect fixtures under {all, format, layout} rule sets, the
       operator/keyword adjacency inputs in several dialects (`a - -b`, `a/ *b`, `a||b`, `SELECT(a)FROM`, sign after
       operator ...), seeded corpus mutants (sign inserted after an operator, squeezed / widened whitespace) and
       rule yaml fail cases under their own configs.  Only inputs that were clean are decided (C18).
"""
from __future__ import annotations

from .. import fixsuite as fs
from ..core import Report

PROP = "C12"
PARTS = ["corpus_all", "corpus_format", "corpus_layout", "adjacency", "mutants", "cases_own"]


def describe(t: dict, r: dict):
    case = t["case"]
    how, kinds = fs.lex_signature(t)
    rule = fs.glue_culprit(t) or fs.culprit_by_single_rule(t, lambda x: x["clean0"] and fs.relex_diff(x) is not None)
    d = fs.relex_diff(t)
    sig = {"rule": rule, "how": how, "kinds": kinds}
    det = f"leaves {[x[0] for x in d[1]]} re-lex as {[x[0] for x in d[2]]}" if d else ""
    what = (f"fixed tree is not lexically stable ({how} {kinds}): {det} [rules={case['rules']}, dialect={case['dialect']}, "
            f"culprit {rule}]: {case['sql'][:300]!r} -> {(t.get('fixed') or '')[:300]!r}")
    return sig, what


def run(tier: str, seed: int) -> int:
    rep = Report(PROP, tier, seed, "exploration")
    traces = fs.load_case_traces(PARTS, tier, seed, rep)
    fs.decide(rep, PROP, traces, describe, lambda t: t["clean0"] and len(fs.adoptions(t)) >= 1)
    rep.rule = ("one trace per (input, rule set); non-trivial = clean input whose fix run adopted at least one fix batch; "
                "distinct by (part, input, rule set)")
    rep.trusted_base = ["vf/fixrec.py: projection of leaves / lexed tokens to (text id, class ws|nl|cm|code), meta segments skipped",
                        "Lexer(config).lex(tree.raw) as the re-lex"]
    return rep.finish()


def replay(path: str, tier: str, seed: int) -> int:
    return fs.replay_case(path, PROP)
