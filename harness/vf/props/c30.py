"""C30 — edits are applied to disjoint source ranges exactly once.

Spec:  spec/Patches.tla (contract AppliedDisjointOnce / IsolatedApplied under precondition P30 + transcription of
       generate_source_patches' filter, _patches_conflict, merge_source_patches,
       _slice_source_file_using_patches, _build_up_fixed_source_string), spec/PatchesTrace.tla
S->C:  TLC enumerates every raw-slice layout x every candidate patch set of the scope, checks
       Algo => Contract and emits each case with the set of outputs the contract allows; every case is
       rebuilt as real FixPatch lists / RawFileSlices and pushed through the real functions.
C->S:  real `fix` runs (rule yaml cases with fix_str incl. the templated ones, generated Jinja templates with
       fixable violations next to tags) are recorded at generate_source_patches / merge_source_patches /
       slice / build and validated by PatchesTrace (P30 and the filter obligations on every Patches event,
       the contract on every Rebuild event).
"""
from __future__ import annotations

import json
import logging
import os
import random
import tempfile

from ..core import Report, expect_model_ok, h
from ..tlc import MachineryError, cfg_text, run_tlc, validate_traces
from .. import par, sq
from .. import patches as P

PROP = "C30"
CLAUSES = ("AppliedDisjointOnce", "IsolatedApplied")          # TemplateCellsPreserved belongs to C10
TRACE_CLAUSES = ("PatchSpanWellFormed", "P30", "BufferSortedByStart", "MergedFromBuffers", "MergedDeduplicated",
                 "AppliedDisjointOnce", "IsolatedApplied")

BASE = {"SOKinds": 1, "NParts": 1, "Part": 0}
QUICK = [
    ({"L": 3, "MaxP": 3, "MaxSO": 1, "NBuf": 1, "NTexts": 2, **BASE}, "3 cells, <=3 patches, <=1 source-only slice, one variant"),
    ({"L": 3, "MaxP": 2, "MaxSO": 1, "NBuf": 2, "NTexts": 2, **BASE}, "3 cells, <=2 patches over two variant buffers, <=1 source-only slice"),
]
THOROUGH = [
    ({"L": 3, "MaxP": 3, "MaxSO": 2, "NBuf": 1, "NTexts": 2, "SOKinds": 2, "NParts": 4}, "3 cells (4 types), <=3 patches, <=2 source-only slices, one variant"),
    # NB kSubset (FiniteSetsExt) needs a base set of <= 62 elements: keep |Dom| below that
    ({"L": 3, "MaxP": 2, "MaxSO": 2, "NBuf": 2, "NTexts": 2, "SOKinds": 2, "NParts": 2}, "3 cells (4 types), <=2 patches over two variant buffers, <=2 source-only slices"),
    ({"L": 2, "MaxP": 2, "MaxSO": 2, "NBuf": 2, "NTexts": 3, "SOKinds": 2, "NParts": 1}, "2 cells (4 types), <=2 patches over two variant buffers, three texts"),
    ({"L": 4, "MaxP": 2, "MaxSO": 2, "NBuf": 1, "NTexts": 2, "SOKinds": 1, "NParts": 2}, "4 cells, <=2 patches, <=2 source-only slices, one variant"),
]
COHERENCE = {"L": 2, "MaxP": 3, "MaxSO": 2, "NBuf": 1, "NTexts": 2, "SOKinds": 1, "NParts": 1, "Part": 0, "EmitOn": False}


def quiet():
    logging.getLogger("sqlfluff.linter").setLevel(logging.ERROR)
    logging.getLogger("sqlfluff").setLevel(logging.ERROR)


# ------------------------------------------------------------------ S->C
def model_scope(tier):
    for consts, what in (QUICK if tier == "quick" else THOROUGH):
        n = consts.get("NParts", 1)
        for part in range(n):
            yield dict(consts, NParts=n, Part=part), what + (f" [part {part + 1}/{n}]" if n > 1 else "")


def replay_records(rep: Report, records, clauses, scope: str, offset: int = 0) -> int:
    quiet()
    n = 0
    for k, rec in enumerate(records):
        try:
            got = P.replay_case(rec, offset + k)
        except Exception as e:
            rep.violation("AppliedDisjointOnce", {"level": "model", "exception": type(e).__name__},
                          f"real pipeline raised {type(e).__name__}: {e} on case {json.dumps(rec)[:600]}",
                          {"kind": "model", "rec": rec, "k": offset + k})
            continue
        rep.evaluated()
        n += 1
        clause, drift = P.judge_case(rec, got)
        if clause in clauses:
            rep.violation(clause, {"level": "model", "kinds": P.case_sig(rec), "nbuf": len(rec["bufs"])},
                          f"layout {rec['lay']} candidates {rec['bufs']}: real output {got['out_str']!r} (source {got['src']!r}, "
                          f"merged {got['merged']}, slices {got['slices']}) is not among the outputs the contract allows "
                          f"{[''.join(P.CELL[x] if x < 10 else P.SYM[x] for x in o) for o in rec['okall']]}",
                          {"kind": "model", "rec": rec, "k": offset + k})
        elif clause is None and drift:
            rep.drift.append(drift[0] + f" on layout {rec['lay']} candidates {rec['bufs']}")
        ncand = sum(len(b) for b in rec["bufs"])
        if ncand >= 2 and (len(rec["merged"]) < ncand or any(r["ty"] != "literal" for r in rec["lay"])):
            rep.nontrivial(h([rec["lay"], rec["bufs"]]))
    return n


def sampled_cases(n: int, rnd: random.Random, L: int = 6, maxp: int = 5):
    """Random cases of a scope too large to enumerate (thorough tier); TLC still computes contract and transcription."""
    out = []
    for _ in range(n):
        cuts = sorted(rnd.sample(range(1, L), rnd.randint(0, 3)))
        bounds = [0] + cuts + [L]
        lay, nso = [], 0
        for a, b in zip(bounds, bounds[1:]):
            ty = rnd.choice(["literal", "literal", "templated", "block", "comment"])
            if ty in ("block", "comment"):
                nso += 1
            lay.append({"a": a, "b": b, "ty": ty})
        cands, seen = [], set()
        for _ in range(rnd.randint(2, maxp)):
            if rnd.random() < 0.25 and any(r["ty"] != "literal" for r in lay):
                r = rnd.choice([r for r in lay if r["ty"] != "literal"])
                s, cat = [r["a"], r["b"]], "source"
            else:
                a = rnd.randint(0, L)
                b = a if rnd.random() < 0.35 else rnd.randint(a, min(L, a + 3))
                s, cat = [a, b], "lit"
            c = {"s": s, "t": rnd.choice(["", "x", "y"]), "cat": cat, "buf": rnd.randint(1, 2)}
            key = json.dumps(c, sort_keys=True)
            if key not in seen:
                seen.add(key)
                cands.append(c)
        out.append({"lay": lay, "cands": cands, "flip": rnd.random() < 0.5})
    # distinct (lay, cands, flip) only: TLC explores a *set* of initial states
    uniq = {}
    for c in out:
        uniq[json.dumps([c["lay"], sorted(json.dumps(x, sort_keys=True) for x in c["cands"]), c["flip"]])] = c
    return list(uniq.values())


def run_sampled(rep: Report, seed: int, n: int, clauses) -> None:
    rnd = random.Random(seed * 7919 + 30)
    cases = sampled_cases(n, rnd)
    d = tempfile.mkdtemp(prefix="c30cases-")
    try:
        fn = os.path.join(d, "cases.json")
        with open(fn, "w") as fh:
            json.dump(cases, fh)
        consts = {"L": 6, "MaxP": 5, "MaxSO": 6, "NBuf": 2, "NTexts": 3, "SOKinds": 2, "EmitOn": True, "NParts": 0, "Part": 0}
        m = run_tlc("Patches", cfg_text(constants=consts, invariants=P.INVARIANTS), env={"VF_CASES": fn},
                    workers=P.tlc_workers(), timeout=1500)
    finally:
        import shutil
        shutil.rmtree(d, ignore_errors=True)
    expect_model_ok(m, "Patches Algo => Contract on sampled 6-cell cases")
    rep.model(m, f"{len(cases)} sampled cases: 6 cells, 2..5 patches, two buffers (not exhaustive)")
    if len(m.records) != len(cases):
        raise MachineryError(f"Patches emitted {len(m.records)} of {len(cases)} sampled cases")
    rep.extra["sampled_cases_beyond_exhaustive_scope"] = len(cases)
    replay_records(rep, m.records, clauses, "sampled", offset=10_000_000)


def s_to_c(rep: Report, tier: str, seed: int, clauses) -> None:
    co = P.enumerate_cases(COHERENCE, timeout=900, extra_inv=["ContractCoherent"])
    expect_model_ok(co, "output-level clauses agree with the applied-set form (ContractCoherent)")
    rep.model(co, "ContractCoherent: OnlyPatchedRangesDiffer / TemplateCellsPreserved on outputs <=> conditions on the applied set")
    offset = 0
    for consts, what in model_scope(tier):
        m = P.enumerate_cases(consts, timeout=2400)
        expect_model_ok(m, "Patches Algo => Contract: " + what)
        rep.model(m, what + (" [model run restored from cache]" if getattr(m, "cached", False) else ""))
        if m.distinct != 2 * len(m.records) or not m.records:
            raise MachineryError(f"Patches ({what}): {m.distinct} states but {len(m.records)} emitted cases")
        replay_records(rep, m.records, clauses, what, offset)
        offset += len(m.records)
        if len(rep.samples) < 2:
            rep.sample(m.records[len(m.records) // 2])
    rep.exhaustive = True
    if tier == "thorough":
        run_sampled(rep, seed, 40000, clauses)


# ------------------------------------------------------------------ C->S
_CFG = {}


def case_config(rules: str, configs):
    """FluffConfig as the rule-case test helper builds it (utils/testing/rules._setup_config)."""
    from sqlfluff.core import FluffConfig
    import copy

    key = json.dumps([rules, configs], sort_keys=True, default=str)
    if key not in _CFG:
        ov = {"rules": rules}
        core = (configs or {}).get("core", {}) if configs else {}
        if not isinstance(core, dict) or "dialect" not in core:
            ov["dialect"] = "ansi"
        _CFG[key] = FluffConfig(configs=copy.deepcopy(configs) if configs else None, overrides=ov)
    return _CFG[key]


def is_templated_case(c) -> bool:
    t = ((c["configs"] or {}).get("core") or {}).get("templater")
    s = c["sql"]
    return "{{" in s or "{%" in s or "{#" in s or t in ("placeholder", "python")


def _fix_worker(item):
    quiet()
    tid, sql, rules, configs, with_tags, meta = item
    try:
        cfg = case_config(rules, configs)
    except Exception as e:
        return {"id": tid, "skip": f"config: {type(e).__name__}: {e}", "sql": sql, "meta": meta}
    return P.record_fix(sql, cfg, tid, with_tags=with_tags, meta=meta)


def fix_inputs(tier: str, seed: int):
    """(tid, sql, rules, configs, with_tags, meta)"""
    rnd = random.Random(seed)
    cases = [c for c in sq.rule_cases() if not c.get("skip")]
    fixable = [c for c in cases if c["fix_str"] is not None]
    templ = [c for c in cases if is_templated_case(c)]
    items = []
    chosen = fixable if tier == "thorough" else \
        sq.stratified([c for c in fixable if not is_templated_case(c)], lambda c: c["rule"], 260, seed) + \
        [c for c in fixable if is_templated_case(c)]
    for c in chosen:
        items.append((c["id"], c["sql"], c["rule"], c["configs"], False, {"src": "rule-case", "rule": c["rule"],
                                                                          "templated": is_templated_case(c)}))
    # the templated cases again under rule sets that make several rules (and variants) edit the same file
    for c in templ if tier == "thorough" else sq.stratified(templ, lambda c: c["rule"], 60, seed):
        cfgs = c["configs"]
        if ((cfgs or {}).get("core") or {}).get("templater") in ("placeholder", "python") and tier == "quick":
            continue
        items.append((c["id"] + "@core", c["sql"], "core", cfgs, False, {"src": "rule-case", "rule": "core", "templated": True}))
    ngen = 120 if tier == "quick" else 600
    for name, t in P.jinja_templates(ngen, rnd):
        rules = ["all", "layout", "LT01,LT02,CP01,JJ01", "core"][(len(items) + len(items) // 11) % 4]
        items.append((name, t, rules, {"core": {"dialect": "ansi"}, "templater": {"jinja": {"context": P.JINJA_CTX}}}, False,
                      {"src": "generated", "rule": rules, "templated": True}))
    return items


def c_to_s(rep: Report, tier: str, seed: int, items, clauses, with_tags=False):
    traces = par.pmap(_fix_worker, items, chunksize=4)
    good = [t for t in traces if t and "events" in t]
    skipped = [t for t in traces if t and "skip" in t]
    rep.extra["fix_runs"] = len(traces)
    rep.extra["fix_runs_without_tree"] = len(skipped)
    rep.evaluated(len(traces))
    if not good:
        raise MachineryError("no fix run produced a trace")
    val = validate_traces("PatchesTrace", [P.wire(t) for t in good], batch=1500, timeout=1800,
                          constants={"L": 1, "MaxP": 0, "MaxSO": 0, "NBuf": 1, "NTexts": 3, "SOKinds": 2, "EmitOn": False,
                                     "NParts": 1, "Part": 0})
    rep.validation(val, "PatchesTrace")
    by = {t["id"]: t for t in good}
    for t in good:
        if t["npatch"] >= 1:
            rep.nontrivial(h(t["sql"]) + t["meta"].get("rule", ""))
    return good, val, by


def describe_patch_defect(t, ev) -> dict:
    """Signature attributes for a rejected Patches event (classification for known-finding matching only)."""
    n = len(t["src"])
    nonlit = [(a, b, ty) for a, b, ty in t["lay"] if ty != "literal"]
    for s0, s1, _txt, cat in ev.get("patches", []):
        if s0 > s1:
            return {"defect": "start>stop", "cat": cat}
        if s0 < 0 or s1 > n:
            return {"defect": "out-of-range", "cat": cat}
        for a, b, ty in nonlit:
            if max(s0, a) < min(s1, b) and (s0, s1) != (a, b):
                return {"defect": "partial-tag-overlap", "cat": cat, "tag": ty, "at_file_start": s0 == 0,
                        "overrun": min(s1, b) - max(s0, a)}
            if s0 == s1 and a < s0 < b:
                return {"defect": "insert-inside-tag", "cat": cat, "tag": ty}
    return {}


def report_rejections(rep: Report, val, by, clauses):
    for r in val.rejected:
        t = by[r["id"]]
        if r["clause"] not in clauses:
            rep.extra.setdefault("rejected_for_other_property", []).append([r["id"], r["clause"]])
            continue
        ev = t["events"][r["step"] - 1]
        desc = {k: v for k, v in ev.items() if k not in ("out",)}
        if "patches" in desc:
            desc["patches"] = [[p[0], p[1], "".join(map(chr, p[2])), p[3]] for p in desc["patches"]]
        if "merged" in desc:
            desc["merged"] = [[p[0], p[1], "".join(map(chr, p[2])), p[3]] for p in desc["merged"]]
        sig = {"level": "trace", "source": t["meta"].get("src"), "rule": t["meta"].get("rule"),
               "templated": bool(t["meta"].get("templated")), "event": ev["ev"]}
        if ev["ev"] == "Patches":
            sig.update(describe_patch_defect(t, ev))
        rep.violation(r["clause"], sig,
                      f"fix of {t['sql']!r} (rules={t['meta'].get('rule')}) rejected at event {r['step']} {ev['ev']}: "
                      f"{json.dumps(desc)[:700]} layout={t['lay']} fixed={t.get('fixed')!r}",
                      {"kind": "trace", "item": [t["id"], t["sql"], t["meta"].get("rule"), t["meta"].get("configs"), False, t["meta"]],
                       "verdict": r})


def run(tier: str, seed: int) -> int:
    rep = Report(PROP, tier, seed, "model_checking")
    s_to_c(rep, tier, seed, CLAUSES)
    items = fix_inputs(tier, seed)
    items = [(a, b, c, d, e, dict(f, configs=d)) for a, b, c, d, e, f in items]
    good, val, by = c_to_s(rep, tier, seed, items, TRACE_CLAUSES)
    report_rejections(rep, val, by, TRACE_CLAUSES)
    multi = [t for t in good if t["nvariants"] > 1 and t["npatch"] > 0]
    rep.extra["traces_with_several_variants"] = len(multi)
    rep.extra["patches_events"] = sum(t["nvariants"] for t in good)
    if good:
        t = max(good, key=lambda t: (t["nvariants"] > 1, min(t["npatch"], 6)))
        rep.sample({"sql": t["sql"], "fixed": t["fixed"], "layout": t["lay"],
                    "events": [{k: (v if k != "out" else "...") for k, v in e.items()} for e in t["events"]][:6]})
    rep.rule = ("S->C: TLC enumerates every raw-slice layout (literal/templated/block[/comment]) x every set of candidate "
                "patches (all spans incl. zero-length, texts {'', x[, y]}, category lit/source, variant buffer) of the scope; "
                "non-trivial = >= 2 candidates and (the code dropped one or the layout has template code); distinct by "
                "(layout, candidates). C->S: one trace per real fix run; non-trivial = >= 1 patch generated; distinct by "
                "(source text, rule set)")
    rep.trusted_base = ["concretiser: cells -> 'abc..', texts -> 'X'/'Y', block -> block_start/mid/end, lit -> "
                        "literal/mid_point/end_point; stub of _iter_templated_patches yielding the enumerated candidates",
                        "recorder wrappers at generate_source_patches / merge_source_patches / "
                        "_slice_source_file_using_patches / _build_up_fixed_source_string",
                        "projection: code points, raw-slice layout with block_* -> block, other non-literal -> templated",
                        "membership of the real output in the allowed-output sets printed by TLC"]
    rep.assumptions = ["explicit source fixes replace one whole raw slice (checked on real runs by clause P30 / "
                       "FilterKeepsOnlySafe of PatchesTrace)"]
    return rep.finish()


def replay(path, tier, seed):
    case = json.load(open(path))["case"]
    rep = Report(PROP, tier, seed, "model_checking")
    if case["kind"] == "model":
        replay_records(rep, [case["rec"]], CLAUSES, "replay", case.get("k", 0))
    else:
        t = _fix_worker(tuple(case["item"][:4]) + (False, case["item"][5]))
        if t and "events" in t:
            val = validate_traces("PatchesTrace", [P.wire(t)],
                                  constants={"L": 1, "MaxP": 0, "MaxSO": 0, "NBuf": 1, "NTexts": 3, "SOKinds": 2,
                                             "EmitOn": False, "NParts": 1, "Part": 0})
            report_rejections(rep, val, {t["id"]: t}, TRACE_CLAUSES)
    if rep.violations:
        print(f"VIOLATION property={PROP} replay={path}")
        print("  " + rep.violations[0]["what"][:1500])
        return 1
    print("replay: behaviour now satisfies the contract")
    return 0
