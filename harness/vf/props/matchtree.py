"""C02, spec -> code: spec/MatchTree.tla cases replayed into the real MatchResult.apply."""
from __future__ import annotations

from typing import Any, Dict

from ..core import Report, expect_model_ok
from ..tlc import MachineryError, cfg_text, run_tlc

META = -1


def _build(desc: Dict[str, Any]):
    from sqlfluff.core.parser.match_result import MatchResult
    from sqlfluff.core.parser.segments import BaseSegment, Indent

    class Node(BaseSegment):
        type = "node"

    inserts = tuple((idx, Indent) for idx in desc["inserts"])
    # `inserts` is a set in the model: several metas at one index are separate entries in ninserts
    inserts = tuple((p, Indent) for p, n in enumerate(desc["ninserts"]) for _ in range(n))
    kids = tuple(_build(k) for k in desc["kids"])
    return MatchResult(matched_slice=slice(desc["lo"], desc["hi"]), matched_class=Node if desc["classed"] else None,
                       insert_segments=inserts, child_matches=kids)


def case(rep: Report, rec: Dict[str, Any]) -> None:
    from sqlfluff.core.parser.markers import PositionMarker
    from sqlfluff.core.parser.segments import CodeSegment
    from sqlfluff.core.templaters.base import TemplatedFile

    n = rec["match"]["hi"]
    text = "".join(chr(ord("a") + k) for k in range(n))
    tf = TemplatedFile.from_string(text)
    toks = tuple(CodeSegment(raw=text[k], pos_marker=PositionMarker(slice(k, k + 1), slice(k, k + 1), tf)) for k in range(n))
    rep.evaluated()
    try:
        out = _build(rec["match"]).apply(toks)
    except Exception as e:
        rep.violation("ApplyNeverRaisesOnWellFormedMatch", {"fn": "MatchResult.apply", "exc": type(e).__name__},
                      f"MatchResult.apply raised {type(e).__name__}: {e} on well-formed match {rec['match']}",
                      {"kind": "matchtree", "rec": rec})
        return
    leaves = []
    for seg in out:
        for r in seg.raw_segments:
            leaves.append(META if r.is_meta else text.index(r.raw) if r.raw in text and len(r.raw) == 1 else -2)
    toks_only = [x for x in leaves if x != META]
    if toks_only != rec["expected_tokens"]:
        rep.violation("Lossless", {"fn": "MatchResult.apply"},
                      f"MatchResult.apply leaves {leaves}, contract requires tokens {rec['expected_tokens']} in order for match {rec['match']}",
                      {"kind": "matchtree", "rec": rec})
    elif leaves != rec["leaves"]:
        rep.drift.append(f"MatchResult.apply leaves {leaves}, transcription predicts {rec['leaves']}")
    if rec["match"]["kids"]:
        rep.nontrivial(str(rec["match"]))


def run_into(rep: Report, tier: str) -> None:
    consts = {"NTok": 3, "MaxSpans": 4, "MaxInserts": 2, "Emit": True} if tier == "quick" else \
             {"NTok": 4, "MaxSpans": 4, "MaxInserts": 2, "Emit": True}
    m = run_tlc("MatchTree", cfg_text(constants=consts, invariants=["Lossless", "AllInsertsPresent"]), timeout=3000, heap="10g")
    expect_model_ok(m, "MatchTree Algo => Contract")
    rep.model(m, f"MatchResult.apply transcription: every well-formed match over {consts['NTok']} tokens, <= {consts['MaxSpans']} spans, <= 2 inserts")
    if not m.records:
        raise MachineryError("MatchTree emitted nothing")
    for rec in m.records:
        case(rep, rec)
    rep.sample({"matchtree_case": m.records[len(m.records) // 2]})


def replay(case_: Dict[str, Any], path: str) -> int:
    rep = Report("C02", "quick", 0, "model_checking")
    rep.findings = []
    case(rep, case_["rec"])
    if rep.violations:
        print(f"VIOLATION property=C02 replay={path}")
        return 1
    print("replay: behaviour now satisfies the contract")
    return 0
