"""C21 — rule selection is exact; rules are independent.

Spec:  spec/RuleSelect.tla (contract RefMap / Glob / Expand / Selected / OnlySelected / Independent +
       transcription of rule_reference_map, _expand_rule_refs, get_rulepack), spec/RuleSelectTrace.tla.
S->C:  (a) the synthetic registry defined in the spec (collisions between codes, names, groups, aliases;
       plugin code; nameless rule) is rebuilt as a real RuleSet of BaseRule subclasses; (b) the live registry
       is extracted from get_ruleset() at check time and handed to TLC.  For both, TLC enumerates every
       (allow, deny) pair of selector sets in the scope and emits it with the contract's `Selected`; each pair
       is turned into a real config (overrides string with varying spacing/order/duplicates, .sqlfluff text,
       from_kwargs) and run through the real get_rulepack; the codes of the pack are compared with `Selected`
       as carried in the record.  The real rule_reference_map() is compared with the contract's RefMap.
C->S:  corpus inputs (dialect fixtures, rule yaml cases) are linted in lint mode with a selection given by
       selector strings and then with every selected rule alone; the packs, the reported codes and the
       per-rule violation lists are validated by RuleSelectTrace (PackIsSelected, OnlySelected, Independent,
       EveryRuleAlone) with `Selected` evaluated by TLC on the live registry.
"""
from __future__ import annotations

import json
import logging
import os
import random
import shutil

from ..core import Report, expect_model_ok, h
from ..tlc import MachineryError, cfg_text, run_tlc, scratch, validate_traces
from ..par import pmap
from .. import sq

PROP = "C21"
WORKERS = os.environ.get("VF_PROCS") or "auto"
ALPHABET = set("!*-.0123456789?ABCDEFGHIJKLMNOPQRSTUVWXYZ[]_abcdefghijklmnopqrstuvwxyz")
SPECIAL = {"TMP", "LXR", "PRS"}
SMALL = os.environ.get("VF_SCOPE") == "small"     # development only: a strict subset of the quick tier

# selector pool for the live registry: codes, names, groups, aliases, globs, unknowns
LIVE_POOL = [
    "LT01", "CP01", "AL05", "ST08", "JJ01",
    "layout.spacing", "capitalisation.keywords", "aliasing.unique.table",
    "all", "core", "layout", "aliasing.unique", "tsql",
    "L001", "L003", "L010", "layout.end-of-file",
    "L*", "LT0?", "LT1[0-5]", "[AC]*01", "*.spacing", "layout.*", "aliasing.unique*", "L00[1-5]",
    "L0[!0-5]?", "??0[12]", "*", "[!A-Z]*", "*_*", "*-*", "capitalisation.[k-l]*", "RF0[1-3]", "?V1*",
    "ZZ99", "lt01", "Layout.spacing", "L*x", "[LT01", "core*x",
]

# selections used by the lint differential (selector strings; not limited to the pool)
SELECTIONS = [
    ([], []), (["all"], []), (["core"], []), (["core"], ["layout"]), (["L*"], []), (["*"], ["core"]),
    (["layout", "capitalisation"], ["LT0[1-5]"]), (["aliasing.*", "RF0?", "structure"], ["L02*"]),
    (["L0[0-3]?"], []), (["[!A-Z]*"], ["*.spacing", "structure"]), (["CP01", "LT01", "references.*"], ["RF03"]),
    (["??0[1-4]"], ["aliasing"]), ([], ["L*", "convention"]), (["ambiguous", "convention.*", "LT*"], ["layout.indent", "L016"]),
]


def _quiet():
    logging.getLogger("sqlfluff").setLevel(logging.CRITICAL + 1)


# ------------------------------------------------------------------ registries
def live_registry():
    from sqlfluff.core.rules import get_ruleset

    rs = get_ruleset()
    rules = [{"code": m.code, "name": m.name or "", "groups": list(m.groups), "aliases": list(m.aliases)}
             for m in rs._register.values()]
    for r in rules:
        for s in [r["code"], r["name"], *r["groups"], *r["aliases"]]:
            if not set(s) <= ALPHABET:
                raise MachineryError(f"live registry reference {s!r} uses a character outside the spec's alphabet")
    return rules


def build_ruleset(reg):
    """A real RuleSet with one dummy BaseRule subclass per registry entry, in registration order."""
    from sqlfluff.core.rules import get_ruleset
    from sqlfluff.core.rules.base import BaseRule, RuleMetaclass, RuleSet
    from sqlfluff.core.rules.crawlers import RootOnlyCrawler

    get_ruleset()          # loads the plugins first (a rule class defined earlier triggers a warning)
    rs = RuleSet(name="vf-synthetic", config_info={})
    for r in reg:
        attrs = {"__doc__": f"Synthetic rule {r['code']}.", "groups": tuple(r["groups"]), "aliases": tuple(r["aliases"]),
                 "crawl_behaviour": RootOnlyCrawler(), "_eval": lambda self, context: None}
        valid = bool(r["name"]) and RuleMetaclass._valid_rule_name_regex.match(r["name"])
        if valid:
            attrs["name"] = r["name"]
        cls = type("Rule_" + r["code"], (BaseRule,), attrs)
        if r["name"] and not valid:
            cls.name = r["name"]       # a name the metaclass would refuse (collides with a code): set afterwards
        if cls.code != r["code"]:
            raise MachineryError(f"synthetic rule class got code {cls.code!r}, wanted {r['code']!r}")
        rs.register(cls)
    return rs


# ------------------------------------------------------------------ S->C
_W = {}     # per-process: {"synthetic": RuleSet, "live": RuleSet, "pool": {...}}


def make_config(allow, deny, k):
    """(allow, deny) selector lists -> a real FluffConfig, through one of the real configuration routes."""
    from sqlfluff.core import FluffConfig

    rnd = random.Random(k)
    a, d = list(allow), list(deny)
    rnd.shuffle(a), rnd.shuffle(d)
    if k % 5 == 0 and a:
        a.append(a[0])
    if k % 5 == 1 and d:
        d.insert(0, d[-1])
    sep = [",", ", ", " ,  ", ",,"][k % 4]
    route = k % 7
    if route == 3:
        text = "[sqlfluff]\n"
        if a or k % 2:
            text += f"rules = {sep.join(a) if a else 'None'}\n"
        if d:
            text += f"exclude_rules = {sep.join(d)}\n"
        if k % 77 == 3:            # the public constructor (expands a dialect: ~7 ms, hence only now and then)
            return FluffConfig.from_string(text, overrides={"dialect": "ansi"}), "from_string"
        from sqlfluff.core.config.loader import load_config_string
        return FluffConfig(configs=load_config_string(text), require_dialect=False), "config_string"
    if route == 5:
        return FluffConfig.from_kwargs(rules=a or None, exclude_rules=d or None, require_dialect=False), "from_kwargs"
    ov = {}
    if a:
        ov["rules"] = sep.join(a) + ("," if k % 3 == 0 else "")
    elif k % 2:
        ov["rules"] = ""              # empty allowlist -> `or list(valid_codes)`;  otherwise the default `all`
    if d:
        ov["exclude_rules"] = " " + sep.join(d)
    return FluffConfig(overrides=ov, require_dialect=False), "overrides"


def select_case(item):
    """item = (registry, k, allow selectors, deny selectors) -> sorted codes of the real rule pack."""
    which, k, allow, deny = item
    cfg, route = make_config(allow, deny, k)
    if which == "live" and k % 11 == 0:
        from sqlfluff.core import Linter

        pack = Linter(config=cfg).get_rulepack()
        route += "+Linter"
    else:
        pack = _W[which].get_rulepack(cfg)
    codes = [r.code for r in pack.rules]
    return sorted(codes), route, codes == sorted(codes) and len(set(codes)) == len(codes)


def _select_chunk(chunk):
    _quiet()
    return [select_case(it) for it in chunk]


def kind_of(sel, refmap_kinds):
    if sel in refmap_kinds:
        return refmap_kinds[sel]
    return "glob" if any(c in sel for c in "*?[") else "unknown"


def selection_suite(rep: Report, which: str, consts: dict, registry=None, pool=None):
    env, d = {}, None
    try:
        if which == "live":
            d = scratch("reg")
            fn = os.path.join(d, "registry.json")
            with open(fn, "w") as fh:
                json.dump({"rules": registry, "pool": pool}, fh)
            env = {"VF_REGISTRY": fn}
        m = run_tlc("RuleSelect", cfg_text(constants=dict(Source=which, **consts),
                                           invariants=["RefMapPrecedence", "SelectedMatches", "SelectedAreRules",
                                                       "DenyWins", "AllowCovers", "ExactlyAllowLessDeny"]),
                    env=env, timeout=3000 if consts["MaxTotal"] < 4 or which == "synthetic" else 14400, workers=WORKERS, heap="8g")
    finally:
        if d:
            shutil.rmtree(d, ignore_errors=True)
    expect_model_ok(m, f"RuleSelect Algo => Contract ({which})")
    rep.model(m, f"{which} registry: every allow/deny pair with |allow| <= {consts['MaxAllow']}, |deny| <= {consts['MaxDeny']}, "
                 f"sum <= {consts['MaxTotal']}")
    head = [r for r in m.records if isinstance(r, dict) and "registry" in r]
    recs = [r for r in m.records if isinstance(r, dict) and "sel" in r]
    if len(head) != 1 or len(recs) != m.distinct or len({(tuple(r["a"]), tuple(r["d"])) for r in recs}) != len(recs):
        raise MachineryError(f"RuleSelect({which}) printed {len(head)} registry records and {len(recs)} cases for {m.distinct} states")
    reg, pl, refmap = head[0]["registry"], head[0]["pool"], head[0]["refmap"]
    for r in recs:
        r["sel"] = [reg[i - 1]["code"] for i in r["sel"]]       # rule indices -> codes
    if which == "live" and (reg != registry or pl != pool):
        raise MachineryError("TLC did not read back the registry that was written")
    # the real reference map against the contract's RefMap
    _quiet()
    if which == "synthetic":
        _W[which] = build_ruleset(reg)
    else:
        from sqlfluff.core.rules import get_ruleset
        _W[which] = get_ruleset()
    real_map = {k: sorted(v) for k, v in _W[which].rule_reference_map().items()}
    want_map = {k: sorted(v) for k, v in (refmap.items() if isinstance(refmap, dict) else [])}
    rep.evaluated()
    if real_map != want_map:
        diff = sorted(k for k in set(real_map) | set(want_map) if real_map.get(k) != want_map.get(k))
        rep.violation("RefMapPrecedence", {"level": "refmap", "registry": which},
                      f"rule_reference_map() differs from the contract on keys {diff[:8]}: "
                      f"code {[real_map.get(k) for k in diff[:8]]}, contract {[want_map.get(k) for k in diff[:8]]}",
                      {"kind": "refmap", "registry": which})
    codes = {r["code"] for r in reg}
    names = {r["name"] for r in reg} - {""}
    groups = {g for r in reg for g in r["groups"]}
    kinds = {k: ("code" if k in codes else "name" if k in names else "group" if k in groups else "alias") for k in want_map}
    recs.sort(key=lambda r: (r["a"], r["d"]))
    items = [(which, i, [pl[j - 1] for j in r["a"]], [pl[j - 1] for j in r["d"]]) for i, r in enumerate(recs)]
    chunks = [items[i:i + 500] for i in range(0, len(items), 500)]
    got = [x for ch in pmap(_select_chunk, chunks, chunksize=1) for x in ch]
    rep.evaluated(len(got))
    routes = {}
    for (w, i, allow, deny), r, (have, route, ordered) in zip(items, recs, got):
        routes[route] = routes.get(route, 0) + 1
        ks = sorted({kind_of(s, kinds) for s in allow + deny})
        if have != sorted(r["sel"]) or not ordered:
            extra, missing = sorted(set(have) - set(r["sel"])), sorted(set(r["sel"]) - set(have))
            rep.violation("SelectedExact", {"level": "select", "registry": which, "kinds": ",".join(ks), "route": route.split("+")[0],
                                            "extra": bool(extra), "missing": bool(missing)},
                          f"{which} registry, rules={allow} exclude_rules={deny} via {route}: get_rulepack runs "
                          f"{'+' + str(extra) if extra else ''} {'-' + str(missing) if missing else ''} relative to the contract's "
                          f"Selected ({len(r['sel'])} rules){'' if ordered else '; pack not sorted/unique'}",
                          {"kind": "select", "registry": which, "k": i, "allow": allow, "deny": deny, "sel": r["sel"]})
        if not r["algo_same"]:
            rep.drift.append(f"transcription differs from contract for {allow} / {deny}")
        if set(ks) - {"code", "unknown"} and 0 < len(r["sel"]) < len(reg) and allow and deny:
            rep.nontrivial(f"{which}|{allow}|{deny}")
    rep.extra.setdefault("routes", {})[which] = routes
    rep.sample({"registry": which, "rules": items[len(items) // 2][2], "exclude_rules": items[len(items) // 2][3],
                "Selected": recs[len(items) // 2]["sel"]})
    return len(recs)


# ------------------------------------------------------------------ C->S
def vio_rows(violations, descid):
    out = []
    for v in violations:
        d = v.desc()
        if d not in descid:
            descid[d] = len(descid) + 1
        out.append([int(v.line_no), int(v.line_pos), descid[d]])
    return out


def fix_sig(v):
    fixes = getattr(v, "fixes", None) or []
    return tuple((f.edit_type, tuple(e.raw for e in f.edit) if f.edit else None) for f in fixes)


def record_diff(item: dict):
    """One trace: lint with the selection, then with every selected rule alone (same parse)."""
    _quiet()
    allow, deny = item["allow"], item["deny"]
    try:
        ov = {}
        if allow:
            ov["rules"] = ",".join(allow)
        if deny:
            ov["exclude_rules"] = ",".join(deny)
        cfg = sq.config(item["dialect"], "jinja", configs=item["configs"], **ov)
        base = sq.config(item["dialect"], "jinja", configs=item["configs"])
        lin = sq.linter(cfg)
        pack = lin.get_rulepack(config=cfg)
        parsed = lin.parse_string(item["text"], fname=item["fname"], config=cfg)
        lf = lin.lint_parsed(parsed, pack)             # = Linter.lint_string
    except Exception as e:
        return {"id": item["id"], "skipped": f"{type(e).__name__}: {str(e)[:80]}"}
    events = [{"ev": "Pack", "codes": [r.code for r in pack.rules]},
              {"ev": "Lint", "reported": sorted({v.rule_code() for v in lf.violations})}]
    descid, nviol, fixdiff = {}, 0, 0
    for rule in pack.rules:
        code = rule.code
        cfg_r = base.copy()
        cfg_r.process_raw_file_for_config(f"-- sqlfluff:rules:{code}\n", item["fname"])   # the inline-config route
        pack_r = lin.get_rulepack(config=cfg_r)
        lf_r = lin.lint_parsed(parsed, pack_r)
        inset = [v for v in lf.violations if v.rule_code() == code]
        alone = [v for v in lf_r.violations if v.rule_code() == code]
        nviol += len(inset)
        if [fix_sig(v) for v in inset] != [fix_sig(v) for v in alone]:
            fixdiff += 1
        events.append({"ev": "Alone", "rule": code, "pack": [r.code for r in pack_r.rules],
                       "codes": sorted({v.rule_code() for v in lf_r.violations}),
                       "inset": vio_rows(inset, descid), "alone": vio_rows(alone, descid)})
    return {"id": item["id"], "allow": allow, "deny": deny, "complete": True, "events": events,
            "nrules": len(pack.rules), "nviol": nviol, "fixdiff": fixdiff}


def diff_inputs(tier: str, seed: int):
    items = []
    nfiles, ncases = (20, 60) if SMALL else (120, 330) if tier == "quick" else (700, 2400)
    for path, dialect, _t in sq.corpus_sample(nfiles, seed):
        items.append({"id": "fx:" + os.path.relpath(path, sq.FIX), "text": sq.read(path), "dialect": dialect,
                      "fname": path, "configs": None})
    cases = [c for c in sq.rule_cases() if not c.get("skip")]
    for c in sq.stratified(cases, lambda c: c["rule"], ncases, seed):
        items.append({"id": "rc:" + c["id"], "text": c["sql"], "dialect": "ansi", "fname": "<string>",
                      "configs": c["configs"], "rule": c["rule"]})
    items.sort(key=lambda it: it["id"])
    for it in items:
        r = random.Random(f"{seed}:{it['id']}")     # per input, so that a smaller sample is a subset of a larger one
        i = r.randrange(6)
        a, d = SELECTIONS[r.randrange(len(SELECTIONS))] if i % 3 else SELECTIONS[1]
        a, d = list(a), list(d)
        if it.get("rule") and a and i % 2 and "," not in it["rule"]:
            a.append(it["rule"])        # make sure the case's own rule is in play
        it["allow"], it["deny"] = a, d
    return items


def differential(rep: Report, tier: str, seed: int, registry):
    items = diff_inputs(tier, seed)
    res = pmap(record_diff, items, chunksize=4)
    by_item = {it["id"]: it for it in items}
    traces = [r for r in res if "events" in r]
    skipped = [r for r in res if "skipped" in r]
    if len(traces) < len(items) * 0.8:
        raise MachineryError(f"C21 differential: {len(skipped)} of {len(items)} inputs could not be linted: "
                             f"{sorted({s['skipped'] for s in skipped})[:4]}")
    rep.evaluated(sum(1 + t["nrules"] for t in traces))
    d = scratch("reg")
    try:
        fn = os.path.join(d, "registry.json")
        with open(fn, "w") as fh:
            json.dump({"rules": registry, "pool": []}, fh)
        val = validate_traces("RuleSelectTrace",
                              [{k: t[k] for k in ("id", "allow", "deny", "complete", "events")} for t in traces],
                              constants={"Source": "live", "MaxAllow": 0, "MaxDeny": 0, "MaxTotal": 0},
                              batch=1000, timeout=2400, extra_env={"VF_REGISTRY": fn})
    finally:
        shutil.rmtree(d, ignore_errors=True)
    rep.validation(val, "RuleSelectTrace")
    by = {t["id"]: t for t in traces}
    for rj in val.rejected:
        t = by[rj["id"]]
        it = by_item[t["id"]]
        ev = t["events"][min(rj["step"], len(t["events"])) - 1]
        rule = ev.get("rule", "")
        detail = {k: ev[k] for k in ev if k not in ("inset", "alone")}
        if rj["clause"] == "Independent":
            detail["with_selection"], detail["alone"] = ev["inset"][:6], ev["alone"][:6]
        rep.violation(rj["clause"], {"level": "lint", "rule": rule, "dialect": it["dialect"]},
                      f"{t['id']} rules={t['allow']} exclude_rules={t['deny']} dialect={it['dialect']}: {detail} "
                      f"(rows = line, pos, description id); input {it['text'][:160]!r}",
                      {"kind": "lint", "item": it, "verdict": rj})
    for t in traces:
        if t["nrules"] >= 2 and t["nviol"] >= 1:
            rep.nontrivial("diff|" + h([by_item[t["id"]]["text"], t["allow"], t["deny"]]))
    rep.extra["differential"] = {
        "inputs": len(items), "skipped_inputs": len(skipped), "single_rule_lints": sum(t["nrules"] for t in traces),
        "violations_compared": sum(t["nviol"] for t in traces),
        "rules_whose_fix_edits_differ_alone_vs_selection (informational)": sum(t["fixdiff"] for t in traces),
        "skip_reasons": sorted({s["skipped"][:60] for s in skipped})[:6],
    }
    ex = max(traces, key=lambda t: (min(t["nviol"], 5), t["id"]))
    rep.sample({"C->S input": by_item[ex["id"]]["text"][:200], "rules": ex["allow"], "exclude_rules": ex["deny"],
                "events": [e for e in ex["events"] if e["ev"] != "Alone" or e["inset"]][:5]})


def run(tier: str, seed: int) -> int:
    rep = Report(PROP, tier, seed, "model_checking")
    n = selection_suite(rep, "synthetic", {"MaxAllow": 2, "MaxDeny": 2, "MaxTotal": 2 if SMALL else 4})
    registry = live_registry()
    for s in LIVE_POOL + [x for a, d in SELECTIONS for x in a + d]:
        if not set(s) <= ALPHABET:
            raise MachineryError(f"selector {s!r} outside the spec's alphabet")
    n += selection_suite(rep, "live", {"MaxAllow": 2, "MaxDeny": 2, "MaxTotal": 2 if SMALL else 3 if tier == "quick" else 4},
                         registry, LIVE_POOL)
    rep.exhaustive = True
    differential(rep, tier, seed, registry)
    rep.rule = ("S->C: TLC enumerates every (allow, deny) pair of selector sets of the scope on the synthetic and the live "
                "registry; non-trivial = both lists non-empty, at least one selector is a name/group/alias/glob and a proper "
                "non-empty subset is selected; distinct by (registry, allow, deny).  C->S: one trace per (input, selection); "
                "non-trivial = at least two rules selected and at least one lint violation compared; distinct by "
                "(text, selection)")
    rep.trusted_base = ["extraction of (code, name, groups, aliases) from RuleSet._register", "dummy BaseRule classes for the "
                        "synthetic registry", "config builders (overrides / .sqlfluff text / from_kwargs / inline)",
                        "projection of a violation to (line, pos, description id)", "fnmatch = the spec's Glob on the "
                        "alphabet used (cross-checked by every pair that contains a glob)"]
    rep.assumptions = ["rule names are unique in the registry (ASSUME NamesUnique in RuleSelect)"]
    rep.extra["s2c_pairs"] = n
    return rep.finish()


def replay(path, tier, seed):
    case = json.load(open(path))["case"]
    _quiet()
    if case["kind"] in ("select", "refmap"):
        # the contract's verdict is recomputed by TLC for exactly this pair
        rep = Report(PROP, tier, seed, "model_checking")
        which = case["registry"]
        if case["kind"] == "refmap":
            selection_suite(rep, which, {"MaxAllow": 0, "MaxDeny": 0, "MaxTotal": 0},
                            live_registry() if which == "live" else None, LIVE_POOL if which == "live" else None)
        else:
            reg = live_registry() if which == "live" else None
            d = scratch("reg")
            try:
                fn = os.path.join(d, "registry.json")
                if which == "synthetic":
                    m0 = run_tlc("RuleSelect", cfg_text(constants=dict(Source="synthetic", MaxAllow=0, MaxDeny=0, MaxTotal=0)))
                    head = [r for r in m0.records if isinstance(r, dict) and "registry" in r][0]
                    reg = head["registry"]
                    _W[which] = build_ruleset(reg)
                else:
                    from sqlfluff.core.rules import get_ruleset
                    _W[which] = get_ruleset()
                with open(fn, "w") as fh:
                    json.dump({"rules": reg, "pool": case["allow"] + case["deny"]}, fh)
                na, nd = len(case["allow"]), len(case["deny"])
                m = run_tlc("RuleSelect", cfg_text(constants=dict(Source="live", MaxAllow=na, MaxDeny=nd, MaxTotal=na + nd)),
                            env={"VF_REGISTRY": fn})
            finally:
                shutil.rmtree(d, ignore_errors=True)
            want = [r for r in m.records if isinstance(r, dict) and "sel" in r
                    and r["a"] == list(range(1, na + 1)) and r["d"] == list(range(na + 1, na + nd + 1))]
            if len(want) != 1:
                raise MachineryError("replay: TLC did not emit the pair")
            have, route, ordered = select_case((which, case["k"], case["allow"], case["deny"]))
            if have != sorted(reg[i - 1]["code"] for i in want[0]["sel"]) or not ordered:
                rep.violation("SelectedExact", {}, "again", case)
        bad = bool(rep.violations)
    else:
        t = record_diff(case["item"])
        if "events" not in t:
            print("replay: input no longer lints: " + t.get("skipped", ""))
            return 0
        d = scratch("reg")
        try:
            fn = os.path.join(d, "registry.json")
            with open(fn, "w") as fh:
                json.dump({"rules": live_registry(), "pool": []}, fh)
            val = validate_traces("RuleSelectTrace", [{k: t[k] for k in ("id", "allow", "deny", "complete", "events")}],
                                  constants={"Source": "live", "MaxAllow": 0, "MaxDeny": 0, "MaxTotal": 0},
                                  extra_env={"VF_REGISTRY": fn})
        finally:
            shutil.rmtree(d, ignore_errors=True)
        bad = bool(val.rejected)
    if bad:
        print(f"VIOLATION property={PROP} replay={path}")
        return 1
    print("replay: behaviour now satisfies the contract")
    return 0
