"""C14 — layout fixes change only whitespace.

Spec:  spec/FixContract.tla clauses LayoutStepCode / LayoutStepComments (every adopted fix batch) and
       LayoutRenderedCode / LayoutRenderedComments (tokens of the rendered SQL before vs. tokens of the
       re-rendered fixed source), decided by spec/FixTrace.tla (Prop = C14) on traces recorded with
       rules = layout: the text sequence of tokens that are not whitespace / newline / comment / meta is
       unchanged and the multiset of comments (modulo trailing blanks) is unchanged.
C->S:  dialect fixtures x layout group, the same with layout config variations (comma position, operator
       position, indent unit, max_line_length 40/120, implicit indents, whitespace-perturbed text), every LT rule
       yaml fail case and every templated rule case under the whole layout group with the case's own config.
"""
from __future__ import annotations

from .. import fixsuite as fs
from ..core import Report

PROP = "C14"
PARTS = ["corpus_layout", "layoutcfg", "cases_layout"]


def _code(t, toks):
    return [x for x in fs.tok_view(t, toks) if x[1] == "code"]


def _comments(t, toks):
    return sorted(x[0].rstrip() for x in fs.tok_view(t, toks) if x[1] == "cm")


def _rendered_pair(t: dict):
    b = [e for e in t["events"] if e["ev"] == "Begin" and e["variant"] == 0]
    first = next((e for e in b if not e["second"]), None)
    second = next((e for e in b if e["second"]), None)
    return (first["toks"], second["toks"]) if first and second else None


def _bad_rendered(t: dict) -> bool:
    p = _rendered_pair(t)
    return bool(p) and t["clean0"] and ([x[0] for x in _code(t, p[0])] != [x[0] for x in _code(t, p[1])]
                                         or _comments(t, p[0]) != _comments(t, p[1]))


def describe(t: dict, r: dict):
    case = t["case"]
    clause = r["clause"]
    if clause.startswith("LayoutStep"):
        ap = fs.step_apply(t, r)
        rule = ap["rule"] if ap else "?"
        # tokens of the tree the batch was applied to: the last adopted/initial projection before it
        evs = t["events"]
        idx = evs.index(ap) if ap else 0
        before = next((e["toks"] for e in reversed(evs[:idx]) if (e["ev"] == "Begin") or (e["ev"] == "Apply" and e["has"] and e["to"] == ap["from"])), None)
        pair = (before, ap["toks"]) if ap and before else None
    else:
        rule = fs.culprit_by_single_rule(t, _bad_rendered)
        pair = _rendered_pair(t)
    detail, kind = "", "?"
    if pair:
        if clause.endswith("Code"):
            a, b = _code(t, pair[0]), _code(t, pair[1])
            i = fs.first_diff([x[0] for x in a], [x[0] for x in b])
            kind = a[i][2] if i < len(a) else (b[i][2] if i < len(b) else "?")
            detail = f"code tokens differ at #{i}: {[x[0] for x in a[i:i + 3]]} -> {[x[0] for x in b[i:i + 3]]}"
        else:
            a, b = _comments(t, pair[0]), _comments(t, pair[1])
            kind = "comment"
            detail = f"comments {[c for c in a if c not in b][:2]} -> {[c for c in b if c not in a][:2]} ({len(a)} -> {len(b)})"
    sig = {"rule": rule, "kind": kind, "template": fs.template_kind(case)}
    what = (f"{clause}: {detail} [rules=layout, dialect={case['dialect']}, configs={case.get('configs')}, culprit {rule}, {t['id']}]: "
            f"{case['sql'][:300]!r} -> {(t.get('fixed') or '')[:300]!r}")
    return sig, what


def run(tier: str, seed: int) -> int:
    rep = Report(PROP, tier, seed, "exploration")
    traces = fs.load_case_traces(PARTS, tier, seed, rep)
    fs.decide(rep, PROP, traces, describe, lambda t: t["clean0"] and t["mode"] == "layout" and len(fs.adoptions(t)) >= 1)
    rep.rule = ("one trace per (input, layout configuration) fixed with rules=layout; non-trivial = clean input with at least one "
                "adopted layout fix batch; distinct by (part, input, configuration)")
    rep.trusted_base = ["vf/fixrec.py: projection of leaves to (text id, class), rst[] = id of text.rstrip(); meta segments skipped",
                        "rendered SQL before = leaves of the tree given to lint_fix_parsed; after = leaves of the parse of the fixed source"]
    return rep.finish()


def replay(path: str, tier: str, seed: int) -> int:
    return fs.replay_case(path, PROP)
