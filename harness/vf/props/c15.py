"""C15 — capitalisation fixes change only letter case.

Spec:  spec/FixContract.tla clauses CapStep{TokenCount,OnlyCase,Kind} (every adopted batch) and
       CapRendered{...} (rendered SQL before vs. re-rendered fixed source), decided by spec/FixTrace.tla
       (Prop = C15) on traces recorded with only CP01..CP05 selected: same number of tokens; every token text
       identical or casefold-equal; a case change only on unquoted keyword / identifier / function / type /
       boolean-null-literal tokens (CaseKinds in the spec).
C->S:  hand-written inputs with quoted identifiers, strings, comments, non-ASCII identifiers in nine dialects,
       dialect fixtures and seeded case mutants of them x every policy of every CP rule (+ all five together).
"""
from __future__ import annotations

from .. import fixsuite as fs
from ..core import Report

PROP = "C15"
PARTS = ["cap"]


def _case_kinds():
    """CaseKinds as written in spec/FixContract.tla (read from the spec so that messages name the token TLC rejected)."""
    import os
    import re

    from ..tlc import SPEC_DIR
    with open(os.path.join(SPEC_DIR, "FixContract.tla")) as fh:
        body = fh.read().split("CaseKinds ==", 1)[1].split("}", 1)[0]
    return set(re.findall(r'"([a-z_]+)"', body))


def describe(t: dict, r: dict):
    case = t["case"]
    clause = r["clause"]
    _, code, pol, _name = t["id"].split(":", 3)
    evs = t["events"]
    if clause.startswith("CapStep"):
        ap = fs.step_apply(t, r)
        rule = ap["rule"] if ap else "?"
        idx = evs.index(ap) if ap else 0
        before = next((e["toks"] for e in reversed(evs[:idx]) if e["ev"] == "Begin" or (e["ev"] == "Apply" and e["has"] and e["to"] == ap["from"])), None)
        after = ap["toks"] if ap else None
    else:
        rule = code
        b = [e for e in evs if e["ev"] == "Begin" and e["variant"] == 0]
        before = next((e["toks"] for e in b if not e["second"]), None)
        after = next((e["toks"] for e in b if e["second"]), None)
    kind, diff, detail = "?", "?", ""
    if before and after:
        a, b2 = fs.tok_view(t, before), fs.tok_view(t, after)
        if clause.endswith("TokenCount"):
            diff, detail = "count", f"{len(a)} tokens -> {len(b2)}"
        else:
            for x, y in zip(a, b2):
                if x[0] == y[0]:
                    continue
                folded = x[0].casefold() == y[0].casefold()
                if clause.endswith("OnlyCase") and not folded:
                    kind = x[2]
                    if x[0].replace("_", "").casefold() == y[0].replace("_", "").casefold():
                        diff = "underscore_insertion" if len(y[0]) > len(x[0]) else "underscore_removal"
                    else:
                        diff = "other"
                    detail = f"{x[0]!r} -> {y[0]!r}"
                    break
                if clause.endswith("Kind") and folded and x[2] not in _case_kinds():
                    kind, diff, detail = x[2], "case", f"{x[0]!r} ({x[2]}) -> {y[0]!r}"
                    break
    sig = {"rule": rule, "policy": pol, "kind": kind, "diff": diff}
    what = (f"{clause}: {detail} [rules={code}, policy={pol}, dialect={case['dialect']}]: {case['sql'][:300]!r} -> "
            f"{(t.get('fixed') or '')[:300]!r}")
    return sig, what


def run(tier: str, seed: int) -> int:
    rep = Report(PROP, tier, seed, "exploration")
    traces = fs.load_case_traces(PARTS, tier, seed, rep)
    fs.decide(rep, PROP, traces, describe, lambda t: t["clean0"] and len(fs.adoptions(t)) >= 1)
    rep.rule = ("one trace per (input, CP rule selection, policy); non-trivial = clean input with at least one adopted "
                "capitalisation fix batch; distinct by (input, rule, policy)")
    rep.trusted_base = ["vf/fixrec.py: projection of leaves to (text id, segment type), fold[] = id of text.casefold()",
                        "CaseKinds (spec/FixContract.tla): sqlfluff segment types read as 'unquoted keyword/identifier/function/type/literal'"]
    return rep.finish()


def replay(path: str, tier: str, seed: int) -> int:
    return fs.replay_case(path, PROP)
