"""C11 — fixing preserves all untouched text byte-for-byte.

Spec:  spec/Patches.tla contract clause OnlyPatchedRangesDiffer (TLC: transcribed slice/rebuild refines it), and
       spec/PatchesTrace.tla events Load / Patches / Merge / Rebuild / Write: the bytes of the file before and
       after are projected to decoding units (bytes, characters, decodable) of the codec the code chose; the
       contract requires, after CR LF | CR -> LF on both sides, that every input unit outside the applied
       patch ranges reappears at the shifted position with the same characters and bytes (modulo byte order for
       the `utf-16` / `utf-32` codec names), that undecodable bytes reappear as the same bytes, that the BOM is
       kept, that the written text is the fixed text, and that a file without an effective fix keeps inode,
       mtime_ns and bytes.
C->S:  generated files x encodings (ascii, utf-8, utf-8-sig, utf-16 LE/BE with BOM, latin-1 via config) x
       LF/CRLF/CR/mixed newlines x undecodable bytes in comments and strings (encoding = utf-8 / ascii) x
       trailing-newline variants x {fixable, clean, unfixable-only, fixes blocked by a templating error}, through Linter.lint_paths(fix=True,
       apply_fixes=True) and through the CLI (`sqlfluff fix`, click CliRunner) in a temp dir.
"""
from __future__ import annotations

import codecs
import json
import os
import random
import shutil
import tempfile

from ..core import Report, expect_model_ok, h
from ..tlc import MachineryError, cfg_text, run_tlc, validate_traces
from .. import par
from .. import patches as P
from . import c30

PROP = "C11"
TRACE_CLAUSES = ("LoadedTextIsNormalisedFile", "NotRewrittenWhenNoFix", "WrittenTextIsFixedText", "BomKept",
                 "OnlyPatchedRangesDiffer", "OnlyFixedRangesDiffer", "UntouchedBytesPreserved", "UndecodableBytesPreserved")
TCONST = {"L": 1, "MaxP": 0, "MaxSO": 0, "NBuf": 1, "NTexts": 3, "SOKinds": 2, "EmitOn": False, "NParts": 1, "Part": 0}
# the unit / character operators of PatchesTrace recurse once per character: templated files are a few hundred long
XSS = {"JAVA_TOOL_OPTIONS": "-Xss512m"}
MODEL = {"L": 3, "MaxP": 2, "MaxSO": 1, "NBuf": 1, "NTexts": 2, "SOKinds": 1, "NParts": 1, "Part": 0, "EmitOn": False}

# ------------------------------------------------------------------ generated files
BODIES = {
    "fixable": ["SELECT a  ,b{C}{NL}from tbl{S}{NL}", "select  a,{NL}  b {C}{NL}FROM t where  x = {Q}{NL}",
                "SELECT{NL}    a,{NL}    b{NL}from t  {C}{NL}where c = {Q}   and d=1{NL}",
                "{C}{NL}SELECT a from t{NL}{NL}SELECT  b FROM u{C}{NL}"],
    "clean": ["SELECT a, b {C}{NL}FROM tbl{NL}", "SELECT a{NL}FROM t{NL}WHERE x = {Q} {C}{NL}"],
    "unfixable": ["SELECT a, b {C}{NL}FROM tbl{NL}JOIN u USING (a){NL}"],      # only ST07-like / none fixable under our rules
    # fixable violations are reported but the fixes are not applied (undefined template variable -> TMP error):
    # persist_tree reaches fix_string, which reports "no change"
    "blocked": ["SELECT a  ,b {C}{NL}from {{ undefined_tbl }}{NL}", "select  a from {{ undefined_tbl }} where x = {Q}{NL}"],
}
NEWLINES = {"lf": "\n", "crlf": "\r\n", "cr": "\r", "mixed": None}
TAILS = {"one": "", "none": "<strip>", "two": "{NL}", "spaces": "  ", "crlf_extra": "\r\n"}

ENCODINGS = [
    # (label, config value or None for autodetect, python codec used to write the file, bom, extra text)
    ("ascii", None, "ascii", b"", ""),
    ("utf-8", None, "utf-8", b"", "é€ 😀"),
    ("utf-8-cfg", "utf-8", "utf-8", b"", "é€ 😀"),
    ("utf-8-sig", None, "utf-8", codecs.BOM_UTF8, "é€"),
    ("utf-16-le", None, "utf-16-le", codecs.BOM_UTF16_LE, "é€ 😀"),
    ("utf-16-be", None, "utf-16-be", codecs.BOM_UTF16_BE, "é€"),
    ("latin-1", "latin-1", "latin-1", b"", "é£½"),
]
BADBYTES = [b"\xff", b"\xfe\xff", b"\xc3\x28", b"\x80", b"\xe2\x82", b"\xf0\x9f"]


def make_file(k: int, rnd: random.Random):
    """-> dict(name, data, cfg_encoding, kind, attrs)"""
    kind = ["fixable", "fixable", "fixable", "clean", "unfixable", "blocked"][k % 6]
    enc = ENCODINGS[(k // 5) % len(ENCODINGS)]
    nlk = list(NEWLINES)[(k // 3) % 4]
    tailk = list(TAILS)[(k // 7) % len(TAILS)]
    bad = None
    label, cfg_enc, codec, bom, extra = enc
    if k % 4 == 1:      # undecodable bytes: only meaningful with a configured strict codec
        label, cfg_enc, codec, bom, extra = ("utf-8-cfg-bad", "utf-8", "utf-8", b"", "é") if k % 8 == 1 else ("ascii-cfg-bad", "ascii", "ascii", b"", "")
        bad = BADBYTES[(k // 4) % len(BADBYTES)]
    body = rnd.choice(BODIES[kind])

    def nl():
        return NEWLINES[nlk] if NEWLINES[nlk] is not None else rnd.choice(["\n", "\r\n", "\r"])
    comment = f"-- note {extra} \x00BAD\x00 end" if bad and k % 8 < 4 else f"-- note {extra}"
    quoted = f"'v{extra}\x00BAD\x00'" if bad and k % 8 >= 4 else f"'v{extra}'"
    text = body.replace("{C}", comment).replace("{Q}", quoted).replace("{S}", rnd.choice(["", " ", "  "]))
    tail = TAILS[tailk]
    if tail == "<strip>":
        text = text[:-len("{NL}")] if text.endswith("{NL}") else text
    else:
        text += tail
    while "{NL}" in text:
        text = text.replace("{NL}", nl(), 1)
    parts = text.split("\x00BAD\x00")
    data = bom + (bad or b"").join(p.encode(codec) for p in parts)
    return {"name": f"f{k}_{label}_{nlk}_{tailk}_{kind}.sql", "data": data, "cfg_encoding": cfg_enc, "kind": kind,
            "attrs": {"enc": label, "nl": nlk, "tail": tailk, "kind": kind, "bad": bad.hex() if bad else None}}


# ------------------------------------------------------------------ templated files
JCTX = "[sqlfluff:templater:jinja:context]\ncol = colx\ntbl = tblx\ncond = True\nitems = 123\nempty =\nsuffix =\n"
TRULES = ["LT01", "LT02", "LT12", "CP01", "all", "LT01,LT02,LT12,CP01", "LT02,LT09", "layout"]


def empty_expr_templates(n: int, rnd: random.Random):
    """Jinja sources with expressions that render to '' inside / next to tokens, on lines whose indent, spacing
    or case a rule will change."""
    E = ["{{ empty }}", "{{suffix}}", "{{- empty }}", "{{ empty -}}", "{{ '' }}"]
    out = []
    for k in range(n):
        e = rnd.choice(E)
        shape = k % 8
        if shape == 0:      # quoted token with an empty expression inside, line not indented (LT02 inserts the indent)
            t = f"SELECT\n'abc{e}def' AS c\nFROM tbl\n"
        elif shape == 1:    # same, identifier
            t = f"SELECT\n    a,\nco{e}l AS d\nFROM tbl\n"
        elif shape == 2:    # wrong indent to be resized
            t = f"SELECT\n        'x{e}y' AS c,\n  b\nFROM tbl\n"
        elif shape == 3:    # spacing violations around the token
            t = f"SELECT  'abc{e}def'  ,b from  tbl{e}\n"
        elif shape == 4:    # empty expression at the start / end of a token and of a line
            t = f"SELECT\n{e}a,\nb{e}\nfrom tbl\n"
        elif shape == 5:    # inside a loop / conditional body
            t = f"SELECT\n    a\n{{% for x in [1, 2] %}}\n,'v{e}{{{{ x }}}}' AS c{{{{ x }}}}\n{{% endfor %}}\nFROM tbl\n"
        elif shape == 6:    # keyword case + trailing newline variants
            t = f"select 'abc{e}def' as c from tbl where d = 'x{e}'" + rnd.choice(["", "\n\n", "  \n"])
        else:               # several empty expressions in one token, whitespace-control neighbours
            t = f"SELECT\n'a{e}b{rnd.choice(E)}c' AS c\n{{%- if cond %}}\n,d\n{{%- endif %}}\nFROM tbl\n"
        out.append((f"emp{k}_s{shape}", t))
    return out


def make_templated(k: int, rnd: random.Random, pool):
    """One templated file on disk: source from `pool`, rule set, and some of the encoding / newline variants."""
    name, templater, text, cfg_extra = pool[k % len(pool)]
    rules = TRULES[(k + k // len(TRULES)) % len(TRULES)]
    var = k % 7
    label, cfg_enc, codec, bom, extra = ("utf-8", None, "utf-8", b"", "")
    if var == 3:
        label, cfg_enc, codec, bom, extra = ("utf-8-cfg", "utf-8", "utf-8", b"", "é€")
    elif var == 4:
        label, cfg_enc, codec, bom, extra = ("utf-16-le", None, "utf-16-le", codecs.BOM_UTF16_LE, "é")
    elif var == 5:
        label, cfg_enc, codec, bom, extra = ("utf-8-sig", None, "utf-8", codecs.BOM_UTF8, "é")
    if extra and "\n" in text and templater == "jinja":
        i = text.index("\n")
        text = text[:i] + " -- " + extra + text[i:]
    nlk = "crlf" if var == 6 else ("cr" if (var == 2 and k % 3 == 0) else "lf")
    if nlk != "lf":
        text = text.replace("\n", NEWLINES[nlk])
    core = "" if templater == "jinja" else f"templater = {templater}\n"
    return {"name": f"t{k}_{name}_{label}_{nlk}.sql".replace("/", "_"), "data": bom + text.encode(codec), "cfg_encoding": cfg_enc,
            "kind": "templated", "rules": rules, "cfg_extra": core + cfg_extra,
            "attrs": {"enc": label, "nl": nlk, "tail": "-", "kind": "templated", "bad": None, "templater": templater,
                      "rules": rules, "shape": name.split("_")[-1]}}


def templated_pool(n: int, rnd: random.Random):
    pool = []
    for name, t in empty_expr_templates(max(8, n // 3), rnd):
        pool.append((name, "jinja", t, JCTX))
    for name, t in P.jinja_templates(max(11, n // 2), rnd):
        pool.append((name, "jinja", t, JCTX))
    for name, templater, sqlt, tcfg in P.other_templates(max(4, n // 8), rnd):
        sec = tcfg["templater"][templater]
        if templater == "python":
            extra = "[sqlfluff:templater:python:context]\n" + "".join(f"{a} = {b}\n" for a, b in sec["context"].items())
        else:
            extra = "[sqlfluff:templater:placeholder]\n" + "".join(f"{a} = {b}\n" for a, b in sec.items())
        pool.append((name, templater, sqlt, extra))
    rnd.shuffle(pool)
    return pool


# ------------------------------------------------------------------ recording
def _run_one(spec: dict, entry: str, tid: str) -> dict:
    from sqlfluff.core import FluffConfig, Linter

    c30.quiet()
    d = tempfile.mkdtemp(prefix="c11-")
    try:
        path = os.path.join(d, spec["name"])
        with open(path, "wb") as fh:
            fh.write(spec["data"])
        os.utime(path, ns=(1_500_000_000_000_000_000, 1_500_000_000_000_000_000))
        with open(os.path.join(d, ".sqlfluff"), "w") as fh:
            fh.write(f"[sqlfluff]\ndialect = ansi\nrules = {spec.get('rules') or 'LT01,LT12,CP01,CP02'}\n")
            if spec["cfg_encoding"]:
                fh.write(f"encoding = {spec['cfg_encoding']}\n")
            fh.write(spec.get("cfg_extra") or "")
        st0 = os.stat(path)
        loads = []
        orig_load = Linter.load_raw_file_and_config

        def load(fname, root_config):
            out = orig_load(fname, root_config)
            loads.append((fname, out[2], out[0]))
            return out

        from sqlfluff.core.rules.base import BaseRule
        orig_crawl = BaseRule.crawl
        ranges = []

        def crawl(self, *a, **kw):
            out = orig_crawl(self, *a, **kw)
            for fx in out[2]:
                pm = fx.anchor.pos_marker
                if pm is not None:
                    s0, s1 = int(pm.source_slice.start), int(pm.source_slice.stop)
                    if fx.edit_type == "create_before":
                        s1 = s0
                    elif fx.edit_type == "create_after":
                        s0 = s1
                    ranges.append([min(s0, s1), max(s0, s1)])
                for seg in fx.edit or []:
                    for sf in getattr(seg, "source_fixes", None) or []:
                        ranges.append([int(sf.source_slice.start), int(sf.source_slice.stop)])
            return out

        rec = P.Recorder()
        BaseRule.crawl = crawl
        Linter.load_raw_file_and_config = staticmethod(load)
        crash = None
        cwd = os.getcwd()
        try:
            with rec.installed():
                os.chdir(d)
                try:
                    if entry == "api":
                        cfg = FluffConfig.from_path(d)
                        Linter(config=cfg).lint_paths((path,), fix=True, apply_fixes=True)
                    else:
                        from click.testing import CliRunner
                        from sqlfluff.cli.commands import fix as fix_cmd
                        res = CliRunner().invoke(fix_cmd, [path, "--disable-progress-bar"])
                        if res.exception and not isinstance(res.exception, SystemExit):
                            crash = f"{type(res.exception).__name__}: {res.exception}"
                except Exception as e:
                    crash = f"{type(e).__name__}: {e}"
        finally:
            os.chdir(cwd)
            Linter.load_raw_file_and_config = orig_load
            BaseRule.crawl = orig_crawl
        st1 = os.stat(path)
        with open(path, "rb") as fh:
            after = fh.read()
    finally:
        shutil.rmtree(d, ignore_errors=True)
    if crash or not loads:
        return {"id": tid, "skip": crash or "file never loaded", "attrs": spec["attrs"], "entry": entry}
    enc = loads[0][1]
    src = rec.tfs[0].source_str if rec.tfs else None
    uin, bin_ = P.decoding_units(spec["data"], enc)
    uout, bout = P.decoding_units(after, enc)
    rewritten = (st0.st_ino != st1.st_ino) or (st0.st_mtime_ns != st1.st_mtime_ns) or (after != spec["data"])
    uniq = sorted({(a, b) for a, b in ranges})
    rebuilt = [e for e in rec.events if e["ev"] == "Rebuild"]
    merged = [e for e in rec.events if e["ev"] == "Merge"]
    # the patch pipeline itself is judged by C30 / C10; here only its result and the merged patch ranges are kept
    fixed = [{"ev": "Fixed", "out": rebuilt[-1]["out"],
              "pranges": [[p[0], p[1]] for p in (merged[-1]["merged"] if merged else [])]}] if rebuilt else []
    events = [{"ev": "Load", "units": uin, "bom": bin_}, {"ev": "Fixes", "ranges": [list(r) for r in uniq]}] + fixed + \
             [{"ev": "Write", "units": uout, "bom": bout, "rewritten": rewritten}]
    return {"id": tid, "src": P.cps(src) if src is not None else [], "lay": [[0, len(src or ""), "literal"]], "jj01": False,
            "enc": enc.lower(), "events": events, "attrs": spec["attrs"], "entry": entry, "name": spec["name"],
            "data_hex": spec["data"].hex(), "after_hex": after.hex(), "cfg_encoding": spec["cfg_encoding"],
            "rewritten": rewritten, "changed": bool(rebuilt) and rebuilt[-1]["out"] != P.cps(src or ""),
            "inode_changed": st0.st_ino != st1.st_ino, "rules": spec.get("rules"), "cfg_extra": spec.get("cfg_extra"),
            "src_text": src, "fix_ranges": [list(r) for r in uniq],
            "merged_patches": [[p[0], p[1], "".join(map(chr, p[2])), p[3]] for p in (merged[-1]["merged"] if merged else [])],
            "raw_slices": P.layout_of(rec.tfs[0]) if rec.tfs else []}


def _worker(item):
    spec, entry, tid = item
    spec = dict(spec, data=bytes.fromhex(spec["data"])) if isinstance(spec["data"], str) else spec
    return _run_one(spec, entry, tid)


def classify(t, r) -> dict:
    a = t["attrs"]
    sig = {"level": "bytes", "entry": t["entry"], "enc": a["enc"], "kind": a["kind"], "undecodable_input": a["bad"] is not None}
    if a["kind"] == "templated":
        # classification for known-finding matching only: which kind of patch carried the change outside the fix ranges
        sig = {"level": "bytes", "kind": "templated", "templater": a.get("templater")}
        sig.update(describe_templated(t))
    if r["clause"] == "UndecodableBytesPreserved":
        after = bytes.fromhex(t["after_hex"])
        bad = bytes.fromhex(a["bad"]) if a["bad"] else b""
        esc = "".join("\\x%02x" % b for b in bad).encode()
        sig["written_as"] = "escape-text" if esc[:4] in after else ("same-bytes" if bad in after else "other")
    return sig


def describe_templated(t) -> dict:
    """Attributes of the merged patches that lie (partly) outside every fix range (signature only)."""
    n = len(t["src_text"] or "")
    fr = t["fix_ranges"]
    nonlit = [(a, b, ty) for a, b, ty in t["raw_slices"] if ty != "literal"]
    for s0, s1, txt, cat in t["merged_patches"]:
        if s0 > s1:
            return {"patch_defect": "start>stop", "patch_cat": cat}
        if s1 > n:
            return {"patch_defect": "out-of-range", "patch_cat": cat}
    for s0, s1, txt, cat in t["merged_patches"]:
        # a patch no fix range overlaps, contains or abuts carries a change the fixes did not ask for
        related = any(max(a, s0) < min(b, s1) or (s0 == s1 and a <= s0 <= b) or (a == b and s0 < a < s1) for a, b in fr)
        if not related:
            if s0 == s1:
                in_tag = any(a < s0 < b for a, b, _ in nonlit)
                at_tag = any(s0 in (a, b) for a, b, _ in nonlit)
                return {"patch_defect": "insert-outside-fix-ranges", "patch_cat": cat,
                        "where": "inside-tag" if in_tag else ("tag-boundary" if at_tag else "literal")}
            touches = sorted({ty for a, b, ty in nonlit if max(a, s0) < min(b, s1)})
            return {"patch_defect": "edit-outside-fix-ranges", "patch_cat": cat, "touches": ",".join(touches),
                    "deletion": txt == ""}
    return {"patch_defect": None}


def run(tier: str, seed: int) -> int:
    rep = Report(PROP, tier, seed, "exploration")
    # the transcribed slicer / rebuild copies every cell outside the applied ranges exactly once (small scope)
    m = P.enumerate_cases(MODEL, timeout=1500, extra_inv=["ContractCoherent"])
    expect_model_ok(m, "Patches Algo => OnlyPatchedRangesDiffer")
    rep.model(m, "transcribed merge/slice/rebuild refines OnlyPatchedRangesDiffer: 3 cells, <=2 patches (S->C replay of this scope is C30's)"
              + (" [model run restored from cache]" if getattr(m, "cached", False) else ""))
    rnd = random.Random(seed + 11)
    nfiles = 140 if tier == "quick" else 1400
    items = []
    for k in range(nfiles):
        spec = make_file(k, rnd)
        entry = "api" if (k // 2) % 3 else "cli"
        items.append((dict(spec, data=spec["data"].hex()), entry, f"b{k}_{entry}"))
        if tier == "thorough" and k % 5 == 0:
            items.append((dict(spec, data=spec["data"].hex()), "cli" if entry == "api" else "api", f"b{k}_x"))
    # templated files: the same byte / character contract against the ranges the fixes edit
    ntempl = 160 if tier == "quick" else 1600
    pool = templated_pool(ntempl, rnd)
    for k in range(ntempl):
        spec = make_templated(k, rnd, pool)
        entry = "api" if k % 4 else "cli"
        items.append((dict(spec, data=spec["data"].hex()), entry, f"t{k}_{entry}"))
    traces = par.pmap(_worker, items, chunksize=4)
    good = [t for t in traces if "events" in t]
    rep.evaluated(len(traces))
    rep.extra["runs"] = len(traces)
    rep.extra["runs_crashed_or_skipped"] = [(t["id"], t["skip"][:160], t["attrs"]) for t in traces if "skip" in t][:8]
    if len(good) < 0.8 * len(traces):
        raise MachineryError(f"only {len(good)} of {len(traces)} byte-level runs completed: {rep.extra['runs_crashed_or_skipped'][:3]}")
    val = validate_traces("PatchesTrace", [P.wire(t) for t in good], batch=1000, timeout=1800, constants=TCONST, extra_env=XSS)
    rep.validation(val, "PatchesTrace")
    by = {t["id"]: t for t in good}
    cover = {}
    for t in good:
        a = t["attrs"]
        if t["rewritten"] and t["changed"]:
            rep.nontrivial(h([t["data_hex"], t["entry"]]))
        key = f"{a['enc']}|{'rewritten' if t['rewritten'] else 'kept'}"
        cover[key] = cover.get(key, 0) + 1
    rep.extra["runs_by_encoding_and_outcome"] = dict(sorted(cover.items()))
    rep.extra["not_rewritten_same_inode"] = sum(1 for t in good if not t["rewritten"])
    for r in val.rejected:
        t = by[r["id"]]
        if r["clause"] not in TRACE_CLAUSES:
            rep.extra.setdefault("rejected_for_other_property", []).append([r["id"], r["clause"]])
            continue
        rep.violation(r["clause"], classify(t, r),
                      f"{t['entry']} fix of {t['name']} (rules={t.get('rules') or 'LT01,LT12,CP01,CP02'}, encoding={t['cfg_encoding'] or 'autodetect'} -> {t['enc']}, "
                      f"fix ranges {t['fix_ranges']}, merged patches {t['merged_patches']}): bytes before "
                      f"{bytes.fromhex(t['data_hex'])!r} after {bytes.fromhex(t['after_hex'])!r} rejected at event {r['step']} "
                      f"({t['events'][r['step'] - 1]['ev']}): {r['clause']}",
                      {"kind": "bytes", "spec": {"name": t["name"], "data": t["data_hex"], "cfg_encoding": t["cfg_encoding"],
                                                 "kind": t["attrs"]["kind"], "attrs": t["attrs"], "rules": t.get("rules"),
                                                 "cfg_extra": t.get("cfg_extra")}, "entry": t["entry"], "verdict": r})
    if good:
        t = next((t for t in good if t["attrs"]["enc"].startswith("utf-16") and t["rewritten"]), good[0])
        rep.sample({"name": t["name"], "entry": t["entry"], "enc": t["enc"], "before": repr(bytes.fromhex(t["data_hex"])),
                    "after": repr(bytes.fromhex(t["after_hex"])), "events": [e["ev"] for e in t["events"]]})
    rep.rule = ("one trace per (generated file, entry point); non-trivial = the run changed the text and rewrote the file; "
                "distinct by (file bytes, entry point)")
    rep.trusted_base = ["decoding_units: incremental decode (errors=backslashreplace, the handler of load_raw_file_and_config) of "
                        "the bytes before and after with the codec name returned by load_raw_file_and_config; BOM split off",
                        "os.stat inode / mtime_ns and byte comparison before/after", "recorder wrappers (see C30)",
                        "file generator"]
    rep.assumptions = ["line endings are compared after CR LF | CR -> LF on both sides (statement: 'after line endings are normalised')",
                       "a utf-16 BE+BOM file rewritten as LE+BOM is the codec's freedom, not flagged"]
    return rep.finish()


def replay(path, tier, seed):
    case = json.load(open(path))["case"]
    rep = Report(PROP, tier, seed, "exploration")
    t = _worker((case["spec"], case["entry"], "replay"))
    if "events" in t:
        val = validate_traces("PatchesTrace", [P.wire(t)], constants=TCONST, extra_env=XSS)
        for r in val.rejected:
            if r["clause"] in TRACE_CLAUSES:
                rep.violation(r["clause"], {}, f"{t['name']}: after {bytes.fromhex(t['after_hex'])!r}: {r['clause']}", case)
    if rep.violations:
        print(f"VIOLATION property={PROP} replay={path}")
        print("  " + rep.violations[0]["what"][:1500])
        return 1
    print("replay: behaviour now satisfies the contract")
    return 0
