"""C02 — parsing is lossless: tree leaves are exactly the lexed tokens.   (see treesuite.py)"""
from . import treesuite


def run(tier, seed):
    return treesuite.run("C02", tier, seed)


def replay(path, tier, seed):
    return treesuite.replay("C02", path, tier, seed)
