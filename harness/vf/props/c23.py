"""C23 — reported violation positions are accurate.

Spec:  spec/PosTrace.tla (contract; the offset <-> line/col relation is the one of spec/LineCol.tla, shown equivalent
       to the definition by spec/LineColEquiv.tla)
C->S:  lint runs (lint mode, all rules) over dialect fixtures of every dialect, seeded mutants, templater fixtures,
       templated rule cases and variant-producing templates are recorded: for every reported violation its
       line/col, its serialised dict (offsets), the serialised fix edits and the facts about its anchor segment;
       for a sample of files the CLI is run in every machine-readable format (json, yaml, github-annotation,
       github-annotation-native, sarif) and the printed rows are compared with the API's.
The "identify that code's first character" clause is checked in lint mode only and only for anchors that are
non-meta, have text and a literal, non-empty source span (DESIGN.md C23 reading).
"""
from __future__ import annotations

import json
import os
import random
import re
import shutil
from typing import Any, Dict, List

from ..core import Report
from ..tlc import MachineryError, cfg_text, run_tlc, scratch, validate_traces
from .. import cache, mutate, sq
from ..par import pmap
from . import c07

PROP = "C23"


def violation_event(v, src: str) -> Dict[str, Any]:
    d = v.to_dict()
    hasoff = "start_file_pos" in d and "end_file_pos" in d
    ev = {"ev": "V", "code": v.rule_code(), "line": int(v.line_no), "col": int(v.line_pos), "hasoff": bool(hasoff),
          "sline": int(d.get("start_line_no", 0)), "scol": int(d.get("start_line_pos", 0)), "sfp": int(d.get("start_file_pos", 0)),
          "eline": int(d.get("end_line_no", 0)), "ecol": int(d.get("end_line_pos", 0)), "efp": int(d.get("end_file_pos", 0)),
          "fixes": [], "anchor": False, "as0": 0, "texteq": True}
    for f in d.get("fixes", []) or []:
        if "start_file_pos" in f and "end_file_pos" in f:
            ev["fixes"].append([int(f["start_line_no"]), int(f["start_line_pos"]), int(f["start_file_pos"]),
                                int(f["end_line_no"]), int(f["end_line_pos"]), int(f["end_file_pos"])])
    seg = getattr(v, "segment", None)
    if seg is not None and seg.pos_marker is not None:
        pm = seg.pos_marker
        s0, s1 = pm.source_slice.start, pm.source_slice.stop
        first = next((r for r in seg.raw_segments if not r.is_meta and r.raw), None)
        # "code that exists in the source": literal, non-empty, and as long as its source span (a token glued
        # together from two loop iterations or around a tag that renders nothing is not in the source as such)
        if (first is not None and not seg.is_meta and seg.raw and pm.is_literal() and s0 < s1
                and first.pos_marker.is_literal() and len(seg.raw) == s1 - s0):
            ev["anchor"] = True
            ev["as0"] = int(s0)
            ev["texteq"] = bool(src[s0:s1] == seg.raw)
    return ev


def lint_trace(item):
    text, dialect, templater, fname, tid, overrides = item
    try:
        cfg = sq.cfg_for(dialect, templater, fname, **(overrides or {}))
        lf = sq.linter(cfg).lint_string(text, fname=fname)
    except Exception as e:
        return {"id": tid, "input": {"text": text, "dialect": dialect, "templater": templater, "fname": fname, "overrides": overrides},
                "lens": [0], "events": [], "crash": type(e).__name__}
    src = lf.templated_file.source_str if lf.templated_file else re.sub(r"\r\n|\r", "\n", text)
    events = [violation_event(v, src) for v in lf.get_violations(filter_warning=False)]
    return {"id": tid, "input": {"text": text, "dialect": dialect, "templater": templater, "fname": fname, "overrides": overrides},
            "lens": [len(x) for x in src.split("\n")], "events": events}


def format_rows(paths: List[str], dialect: str) -> Dict[str, Any]:
    """Run the CLI in every machine-readable format on real files; rows (file, code, line, col, eline, ecol) per format."""
    import yaml
    from click.testing import CliRunner
    from sqlfluff.cli.commands import lint

    out: Dict[str, Dict[str, list]] = {}

    def add(fmt, fp, code, l, c, el, ec):
        out.setdefault(os.path.basename(fp), {}).setdefault(fmt, []).append([code, int(l), int(c), int(el), int(ec)])

    for fmt in ("json", "yaml", "github-annotation", "github-annotation-native", "sarif"):
        res = CliRunner().invoke(lint, ["--dialect", dialect, "--format", fmt, "--nofail", "--disable-progress-bar", *paths])
        txt = res.output
        if fmt in ("json", "yaml"):
            recs = json.loads(txt) if fmt == "json" else yaml.safe_load(txt)
            for r in recs:
                for v in r["violations"]:
                    add(fmt, r["filepath"], v["code"], v["start_line_no"], v["start_line_pos"],
                        v.get("end_line_no", v["start_line_no"]), v.get("end_line_pos", v["start_line_pos"]))
                if fmt == "json":
                    for v in r["violations"]:
                        add("api", r["filepath"], v["code"], v["start_line_no"], v["start_line_pos"],
                            v.get("end_line_no", v["start_line_no"]), v.get("end_line_pos", v["start_line_pos"]))
        elif fmt == "github-annotation":
            for a in json.loads(txt):
                add(fmt, a["file"], a["message"].split(":")[0], a["start_line"], a["start_column"], a["end_line"], a["end_column"])
        elif fmt == "github-annotation-native":
            for line in txt.splitlines():
                m = re.match(r"::(?:error|notice|warning) title=SQLFluff,file=(.*?),line=(\d+),col=(\d+)(?:,endLine=(\d+))?(?:,endColumn=(\d+))?::(\w+):", line)
                if m:
                    add(fmt, m.group(1), m.group(6), m.group(2), m.group(3), m.group(4) or m.group(2), m.group(5) or m.group(3))
        else:
            doc = json.loads(txt)
            for r in doc["runs"][0]["results"]:
                reg = r["locations"][0]["physicalLocation"]["region"]
                add(fmt, r["locations"][0]["physicalLocation"]["artifactLocation"]["uri"], r["ruleId"], reg["startLine"], reg["startColumn"],
                    reg.get("endLine", reg["startLine"]), reg.get("endColumn", reg["startColumn"]))
    return out


def format_traces(files: List[tuple], k0: int) -> List[dict]:
    d = scratch("c23fmt")
    try:
        by_dialect: Dict[str, list] = {}
        for i, (text, dialect, name) in enumerate(files):
            p = os.path.join(d, f"f{i}.sql")
            with open(p, "w", encoding="utf-8", newline="") as fh:
                fh.write(text)
            by_dialect.setdefault(dialect, []).append(p)
        traces = []
        cwd = os.getcwd()
        os.chdir(d)
        try:
            for dialect, paths in sorted(by_dialect.items()):
                rows = format_rows([os.path.basename(p) for p in paths], dialect)
                for fn, per in sorted(rows.items()):
                    api = per.pop("api", [])
                    traces.append({"id": f"fmt{k0}.{dialect}.{fn}", "lens": [0], "input": {"fname": fn, "dialect": dialect, "text": ""},
                                   "events": [{"ev": "Formats", "api": api, "rows": per}]})
        finally:
            os.chdir(cwd)
        return traces
    finally:
        shutil.rmtree(d, ignore_errors=True)


def build_items(tier: str, seed: int):
    rnd = random.Random(seed)
    quick = tier == "quick"
    corpus = list(sq.dialect_corpus())
    items = [(sq.read(p), d, "jinja", p, f"c{i}", None) for i, (p, d) in enumerate(sq.stratified(corpus, lambda x: x[1], 140 if quick else 1500, seed))]
    for i, (p, d) in enumerate(sq.stratified(corpus, lambda x: x[1], 84 if quick else 1000, seed + 2)):
        for j, mt in enumerate(mutate.mutants(sq.read(p), 1, rnd)):
            items.append((mt, d, "jinja", f"<mutant of {p}>", f"x{i}.{j}", None))
    items += [(sq.read(p), "ansi", "path", p, f"t{i}", None) for i, p in enumerate(sq.templater_fixtures())]
    for i, rc in enumerate(sq.rule_cases()):
        if "{" in rc["sql"] and (not quick or i % 2 == seed % 2):
            core = (rc["configs"] or {}).get("core", {}) or {}
            tmpl = core.get("templater", "jinja")
            if tmpl not in ("jinja", "python", "placeholder", "raw"):
                continue
            cfgs = {k: v for k, v in (rc["configs"] or {}).items() if k in ("templater",)}
            items.append((rc["sql"], core.get("dialect", "ansi"), tmpl, f"<rule {rc['id']}>", f"r{i}", {"configs": cfgs} if cfgs else None))
    vctx = c07.VCTX
    for i, text in enumerate(c07.gen_variant_templates(rnd, 60 if quick else 800)):
        items.append((text, "ansi", "jinja", f"<gen {i}>", f"g{i}", {"configs": vctx}))
    return items


def run(tier: str, seed: int) -> int:
    rep = Report(PROP, tier, seed, "exploration")
    quick = tier == "quick"
    eq = run_tlc("LineColEquiv", cfg_text(constants={"MaxLen": 6, "Emit": False}, invariants=["RelEquivContract"]), timeout=900)
    if not eq.ok:
        raise MachineryError("LineColEquiv failed")
    rep.model(eq, "the relational offset<->line/col contract used by PosTrace equals the definition (all strings <= 6)")
    items = build_items(tier, seed)
    for i, f in enumerate(rep.findings):
        w = f.get("witness")
        if w and "text" in w:
            items.append((w["text"], w.get("dialect", "ansi"), w.get("templater", "jinja"), f"<witness {f['key']}>", f"w{i}", None))
    traces = cache.cached("c23-lint", [tier, seed, len(items)], lambda: pmap(lint_trace, items, chunksize=4))
    rep.evaluated(len(traces))
    corpus = list(sq.dialect_corpus())
    fmt_files = [(sq.read(p), d, p) for p, d in sq.stratified(corpus, lambda x: x[1], 28 if quick else 280, seed + 7)]
    ftraces = format_traces(fmt_files, seed)
    rep.evaluated(len(ftraces) * 5)
    allt = [t for t in traces if "crash" not in t] + ftraces
    val = validate_traces("PosTrace", [{"id": t["id"], "lens": t["lens"], "events": t["events"]} for t in allt], timeout=1800, batch=2500)
    rep.validation(val, "PosTrace")
    by = {t["id"]: t for t in allt}
    for r in val.rejected:
        t = by[r["id"]]
        inp = t["input"]
        ev = t["events"][r["step"] - 1]
        sig = {"clause": r["clause"], "code": ev.get("code"), "templater": inp.get("templater"),
               "templated": inp.get("templater") != "raw" and "{" in inp.get("text", ""),
               "col_zero": ev.get("col") == 0, "line_in_file": 1 <= ev.get("line", 0) <= len(t["lens"])}
        rep.violation(r["clause"], sig,
                      f"{inp.get('fname')} dialect={inp.get('dialect')}: violation {ev if ev.get('ev') == 'V' else 'formats'} fails {r['clause']}; "
                      f"input={inp.get('text', '')[:150]!r}", {"kind": "pos", "input": inp, "verdict": r, "event": ev})
    nanch = 0
    for t in traces:
        evs = t.get("events", [])
        if any(e.get("anchor") for e in evs):
            rep.nontrivial(t["id"])
        nanch += sum(1 for e in evs if e.get("anchor"))
    rep.extra["violations_with_source_anchor_checked"] = nanch
    rep.extra["violations_checked"] = sum(len(t.get("events", [])) for t in traces)
    rep.extra["format_files"] = len(ftraces)
    ex = next((t for t in traces if t.get("events")), traces[0])
    rep.sample({"file": ex["input"]["fname"], "first_violation": ex["events"][:1]})
    if ftraces:
        rep.sample({"formats_event": ftraces[0]["events"][0]})
    rep.rule = ("lint (all rules) of dialect fixtures, mutants, templated fixtures / rule cases / generated variant templates; CLI formats on a "
                "sample of files; non-trivial = the file has at least one violation anchored on code that exists in the source; distinct by input")
    rep.trusted_base = ["recorder projection of SQLBaseError.to_dict / anchor facts", "parsers of the CLI output formats"]
    return rep.finish()


def replay(path, tier, seed):
    case = json.load(open(path))["case"]
    inp = case["input"]
    if not inp.get("text"):
        print("format cases are replayed by re-running the check")
        return 0
    t = lint_trace((inp["text"], inp["dialect"], inp["templater"], inp["fname"], "replay", inp.get("overrides")))
    val = validate_traces("PosTrace", [{"id": t["id"], "lens": t["lens"], "events": t["events"]}])
    if val.rejected:
        print(val.rejected)
        print(f"VIOLATION property={PROP} replay={path}")
        return 1
    print("replay: behaviour now satisfies the contract")
    return 0
