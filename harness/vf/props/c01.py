"""C01 — lexing is lossless, ordered and total.

Spec:  spec/LexLoop.tla   (Algo of the matcher loop + small-scope string enumerator)
       spec/SliceMap.tla  (Algo of _iter_segments: source-slice assignment, split / stash logic)
       spec/SourceMap.tla + spec/LexTrace.tla (the contract, one TLC state per token)
       spec/Skeleton.tla  (small-scope Jinja skeleton enumerator)
S->C:  (i) every string <= n over a 32-character alphabet, enumerated by TLC, lexed in every bundled dialect;
       (ii) every slice layout of SliceMap fed to the real PyLexer.elements_to_segments as a hand-built
            TemplatedFile + element list; the real output is judged by LexTrace, and compared with the
            transcription's prediction (DRIFT only);
       (iii) every balanced Jinja skeleton <= k fragments templated and lexed for real.
C->S:  corpus files x their dialect, templater fixtures, templated rule cases, python/placeholder inputs and
       seeded mutants are templated + lexed under the recorder and validated by LexTrace.
"""
from __future__ import annotations

import json
import random
from typing import Any, Dict, List

from ..core import Report, expect_model_ok
from ..tlc import MachineryError, cfg_text, run_tlc, validate_traces
from .. import lexrec, mutate, sq

PROP = "C01"

# symbols 1..32 of LexLoop: 1,2,3 are tab, newline, space
ALPHABET = ["\t", "\n", " ", "a", "Z", "_", "0", "9", "'", '"', "`", "-", "/", "*", "#", "(", ")", ";", ",", ".",
            "$", "@", "\\", "\r", "\x00", "\x0b", "\xa0", " ", "﻿", "\U0001F600", "é", "{"]

FRAG = {"w": "a", "sp": " ", "spw": " b", "comma": ",", "nl": "\n", "et": "{{ t }}", "ee": "{{ e }}", "es": "{{ w }}",
        "ift": "{% if true %}", "iff": "{% if false %}", "else": "{% else %}", "endif": "{% endif %}",
        "for": "{% for i in r %}", "endfor": "{% endfor %}", "cmt": "{# c #}", "ifws": "{%- if true -%}"}
SKEL_CTX = {"templater": {"jinja": {"context": {"t": "x", "e": "", "w": " ", "r": [1, 2]}}}}


def skeleton_sql(frags: List[str]) -> str:
    return "SELECT " + "".join(FRAG[f] for f in frags) + " FROM t\n"


def sig_of(trace: Dict[str, Any], r: Dict[str, Any], source: str) -> Dict[str, Any]:
    """Signature of a rejected trace: clause + the kind of token and slice types involved."""
    sig = {"clause": r["clause"], "source": source}
    evs = trace["events"]
    if r["step"] <= len(evs):
        ev = evs[r["step"] - 1]
        if ev.get("ev") == "Lex" and 1 <= r.get("tok", 0) <= len(ev["toks"]):
            tok = ev["toks"][r["tok"] - 1]
            sig["token_kind"] = tok[5]
            tpl = evs[0]
            a, b = tok[0], tok[1]
            over = [f for f in tpl["tfs"] if (f[3] < b and a < f[4]) or (a == b and f[3] <= a <= f[4])]
            sig["slice_types"] = "+".join(sorted({f[0] for f in over}))
            sig["templater"] = trace["input"]["templater"]
        elif ev.get("ev") == "Crash":
            sig["exc"] = ev.get("exc")
            sig["stage"] = ev.get("stage")
            sig["templater"] = trace["input"]["templater"]
    return sig


def validate_and_report(rep: Report, traces: List[Dict[str, Any]], source: str) -> None:
    if not traces:
        return
    val = validate_traces("LexTrace", [lexrec.strip_for_tlc(t) for t in traces], timeout=1800, batch=6000)
    rep.validation(val, f"LexTrace[{source}]")
    by = {t["id"]: t for t in traces}
    for r in val.rejected:
        t = by[r["id"]]
        inp = t["input"]
        rep.violation(r["clause"], sig_of(t, r, source),
                      f"{source}: {inp.get('fname')} dialect={inp.get('dialect')} templater={inp.get('templater')} "
                      f"token #{r.get('tok')} fails {r['clause']}; input={inp.get('text', '')[:160]!r}",
                      {"kind": "lex", "input": inp, "verdict": r})
    for t in traces:
        ev = t["events"][0]
        if ev.get("ev") == "Template" and not ev["untemplated"]:
            rep.nontrivial(lexrec.digest(t["input"]))
        elif len(t["events"]) > 1 and t["events"][1].get("ev") == "Lex" and any(k[5] == "unlexable" for k in t["events"][1]["toks"]):
            rep.nontrivial(lexrec.digest(t["input"]))


# ------------------------------------------------------------------ SliceMap spec -> code replay
def slicemap_case(rec: Dict[str, Any], k: int):
    """Build the layout as a real TemplatedFile + TemplateElements and run the real segment mapper."""
    from sqlfluff.core.parser.lexer import PyLexer, RegexLexer, TemplateElement
    from sqlfluff.core.parser.segments import CodeSegment, WhitespaceSegment
    from sqlfluff.core.templaters.base import RawFileSlice, TemplatedFile, TemplatedFileSlice

    src, tmpl, raw_sliced, sliced = "", "", [], []
    rlen = rec["tfs"][-1]["t1"]
    # rendered characters: whitespace where an element says so
    chars = ["x"] * rlen
    for e in rec["elems"]:
        for p in range(e["t0"], e["t1"]):
            chars[p] = " " if e["ws"] else "x"
    for f in rec["tfs"]:
        n_s, n_t = f["s1"] - f["s0"], f["t1"] - f["t0"]
        rendered = "".join(chars[f["t0"]:f["t1"]])
        if f["type"] == "lit":
            stext, stype, ttype = rendered, "literal", "literal"
        elif f["type"] == "tmp":
            stext, stype, ttype = ("{" * n_s)[:n_s - 1] + "}", "templated", "templated"
        else:
            stext, stype, ttype = "{%"[:n_s], "block_start", "block_start"
        raw_sliced.append(RawFileSlice(stext, stype, len(src)))
        sliced.append(TemplatedFileSlice(ttype, slice(f["s0"], f["s1"]), slice(f["t0"], f["t1"])))
        src += stext
        tmpl += rendered
    tf = TemplatedFile(source_str=src, fname=f"<slicemap {k}>", templated_str=tmpl, sliced_file=sliced, raw_sliced=raw_sliced)
    ws = RegexLexer("whitespace", r"[^\S\r\n]+", WhitespaceSegment)
    word = RegexLexer("word", r"[0-9a-zA-Z_]+", CodeSegment)
    elements = [TemplateElement(tmpl[e["t0"]:e["t1"]], slice(e["t0"], e["t1"]), ws if e["ws"] else word) for e in rec["elems"]]
    cfg = sq.config("ansi", "raw", template_blocks_indent=False)
    trace = {"id": f"m{k}", "input": {"text": src, "rendered": tmpl, "dialect": "ansi", "templater": "slicemap",
                                      "fname": f"<slicemap {k}>", "layout": rec["tfs"], "elems": rec["elems"]}}
    events = [dict(lexrec.template_event(tf), ev="Template", variant=0, tmp=0)]
    try:
        segs = PyLexer(config=cfg).elements_to_segments(elements, tf)
        events.append({"ev": "Lex", "toks": lexrec.token_rows(tf, segs), "lxr": []})
        status = "done"
    except NotImplementedError as e:
        events.append({"ev": "Crash", "stage": "lex", "exc": "NotImplementedError", "msg": str(e)[:100]})
        status = "notimplemented"
    trace["events"] = events
    # projection of the real output comparable with the model's `out`
    real = None
    if status == "done":
        real = [[r[2], r[3], r[0], r[1], r[4]] for r in events[1]["toks"] if r[5] not in ("eof", "indent", "dedent")]
    pred = [[o["s0"], o["s1"], o["t0"], o["t1"], o["rawlen"]] for o in rec["out"]]
    drift = None
    if rec["status"] != status and not (rec["status"] == "dropped" and status == "done"):
        drift = f"status model={rec['status']} code={status}"
    elif status == "done" and rec["status"] == "done" and real != pred:
        drift = f"tokens model={pred} code={real}"
    return trace, drift


def run(tier: str, seed: int) -> int:
    rep = Report(PROP, tier, seed, "model_checking")
    rnd = random.Random(seed)
    quick = tier == "quick"

    # ---- 1. LexLoop: Algo => (Lossless, NoFatal under A2), and the string enumerator ---------------
    ml = 2 if quick else 3
    m = run_tlc("LexLoop", cfg_text(constants={"NChars": len(ALPHABET), "MaxLen": ml, "A2": True, "Emit": True},
                                    invariants=["Lossless", "NoFatal", "NoEmpty"], properties=["Progress"]),
                timeout=3000, heap="10g")
    expect_model_ok(m, "LexLoop: matcher loop is lossless and total under A2")
    rep.model(m, f"matcher loop over all strings <= {ml} of {len(ALPHABET)} abstract characters, nondeterministic matchers")
    strings = sorted({tuple(r["s"]) for r in m.records})
    if len(strings) != sum(len(ALPHABET) ** i for i in range(ml + 1)):
        raise MachineryError(f"LexLoop emitted {len(strings)} distinct strings")
    # every dialect sees every string up to length ml-1; a seed-rotated subset of dialects sees length ml too
    alld = list(sq.dialects())
    rot = [alld[(seed + j * 7) % len(alld)] for j in range(4 if quick else 3)]
    items = []
    for d in alld:
        for si, s in enumerate(strings):
            if len(s) == ml and d not in rot:
                continue
            text = "".join(ALPHABET[c - 1] for c in s)
            items.append((text, d, "raw", f"<str {si}>", f"s{d}.{si}", None))
    rep.extra["small_strings"] = {"max_len_all_dialects": ml - 1, "max_len_rotated": ml, "rotated_dialects": sorted(set(rot))}
    traces = lexrec.record_many(items)
    rep.evaluated(len(items))
    validate_and_report(rep, traces, "small-strings")
    rep.sample({"small_string": items[len(items) // 3][0], "dialect": items[len(items) // 3][1]})

    # ---- 2. SliceMap: emit every layout, replay into the real mapper --------------------------------
    fixed = _lexer_is_repaired()
    sm = run_tlc("SliceMap", cfg_text(constants={"MaxSlices": 3, "MaxT": 4 if quick else 5, "Emit": True, "Fixed": fixed}),
                 timeout=3000, heap="10g")
    expect_model_ok(sm, "SliceMap enumeration")
    rep.model(sm, f"_iter_segments transcription ({'repaired' if fixed else 'unrepaired'} branches): all layouts <= 3 slices, rendered length <= {4 if quick else 5}")
    straces = []
    for k, rec in enumerate(sm.records):
        t, drift = slicemap_case(rec, k)
        straces.append(t)
        if drift:
            rep.drift.append(f"SliceMap layout {rec['tfs']} elems {rec['elems']}: {drift}")
    rep.evaluated(len(straces))
    validate_and_report(rep, straces, "slicemap")
    rep.extra["slicemap_layouts"] = len(straces)
    rep.extra["slicemap_drift"] = len(rep.drift)
    if straces:
        rep.sample({"slicemap_layout": sm.records[len(sm.records) // 2]["tfs"], "elems": sm.records[len(sm.records) // 2]["elems"]})

    # ---- 3. Jinja skeletons (TLC enumerated) ---------------------------------------------------------
    nfr = 4 if quick else 5
    sk = run_tlc("Skeleton", cfg_text(constants={"MaxFrags": nfr, "Emit": True}, invariants=["Balanced", "WithinBudget"]),
                 timeout=3000, heap="10g")
    expect_model_ok(sk, "Skeleton enumeration")
    rep.model(sk, f"all balanced Jinja skeletons <= {nfr} fragments over 16 fragment kinds")
    items = [(skeleton_sql(fr), "ansi", "jinja", f"<skel {'.'.join(fr)}>", f"k{i}", {"configs": SKEL_CTX})
             for i, fr in enumerate(sk.records)]
    ktraces = lexrec.record_many(items)
    rep.evaluated(len(items))
    validate_and_report(rep, ktraces, "skeletons")
    rep.sample({"skeleton": items[len(items) // 2][0]})
    rep.exhaustive = True

    # ---- 4. corpus, fixtures, templated rule cases, other templaters, mutants -------------------------
    corpus = list(sq.dialect_corpus())
    chosen = sq.stratified(corpus, lambda x: x[1], 700, seed) if quick else corpus
    items = [(sq.read(p), d, "jinja", p, f"c{i}", None) for i, (p, d) in enumerate(chosen)]
    items += [(sq.read(p), "ansi", "path", p, f"t{i}", None) for i, p in enumerate(sq.templater_fixtures())]
    for i, rc in enumerate(sq.rule_cases()):
        if "{" in rc["sql"]:
            d = ((rc["configs"] or {}).get("core", {}) or {}).get("dialect", "ansi")
            cfgs = {k: v for k, v in (rc["configs"] or {}).items() if k in ("templater",)}
            tmpl = ((rc["configs"] or {}).get("core", {}) or {}).get("templater", "jinja")
            if tmpl not in ("jinja", "python", "placeholder", "raw"):
                continue
            items.append((rc["sql"], d, tmpl, f"<rule {rc['id']}>", f"r{i}", {"configs": cfgs} if cfgs else None))
    items += other_templater_items(rnd, 60 if quick else 600)
    from . import c07
    vctx = c07.VCTX
    for i, text in enumerate(c07.gen_variant_templates(rnd, 120 if quick else 2000)):
        items.append((text, "ansi", "jinja", f"<gen {i}>", f"g{i}", {"configs": vctx}))
    for i, f in enumerate(rep.findings):      # the listed findings' own witnesses are always part of the run
        w = f.get("witness")
        if w:
            items.append((w["text"], w.get("dialect", "ansi"), w["templater"], f"<witness {f['key']}>", f"w{i}",
                          {"configs": {"templater": {w["templater"]: {"context": w.get("context", {})}}}}))
    nmut = 300 if quick else 5000
    picks = sq.stratified(corpus, lambda x: x[1], nmut // 2, seed)
    for i, (p, d) in enumerate(picks):
        for j, mtext in enumerate(mutate.mutants(sq.read(p), 2, rnd)):
            items.append((mtext, d, "jinja", f"<mutant of {p}>", f"x{i}.{j}", None))
    ctraces = lexrec.record_many(items)
    rep.evaluated(len(items))
    validate_and_report(rep, ctraces, "corpus")
    rep.rule = ("inputs: TLC-enumerated strings x 28 dialects, TLC-enumerated slice layouts, TLC-enumerated Jinja skeletons, "
                "2249 dialect fixtures, templater fixtures, templated rule cases, python/placeholder inputs, seeded mutants; "
                "non-trivial = the file is templated (source != rendered or several slices) or contains an unlexable token; "
                "distinct by input hash")
    rep.trusted_base = ["harness/vf/lexrec.py projections (offsets, kinds, equality bits)", "SliceMap concretiser (hand-built TemplatedFile)",
                        "character concretisation of the LexLoop alphabet"]
    return rep.finish()


def other_templater_items(rnd: random.Random, n: int):
    """python-format and placeholder inputs (slices of those templaters go through the same contract)."""
    out = []
    py_ctx = {"templater": {"python": {"context": {"a": "x", "b": "tbl", "n": 3, "sqlfluff": {"c.d": "col"}}}}}
    py_parts = ["SELECT ", "{a}", " , ", "{b}", "{c.d}", " FROM ", "{{", "}}", "'{{'", "{n:>4}", "{a!r}", "\n", "  ", "t", ";"]
    for i in range(n):
        text = "".join(rnd.choice(py_parts) for _ in range(rnd.randint(2, 8)))
        out.append((text, "ansi", "python", f"<py {i}>", f"py{i}", {"configs": py_ctx}))
    styles = {"colon": [":a", ":b_1"], "colon_nospaces": [":a", ":b"], "question_mark": ["?"], "numeric_colon": [":1", ":2"],
              "pyformat": ["%(a)s"], "dollar": ["$a", "${b}"], "numeric_dollar": ["$1", "$2"], "percent": ["%s"],
              "ampersand": ["&a", "&{b}"], "flyway_var": ["${a}"],
              "colon_optional_quotes": [":a", ":'a'", ':"b"'], "dollar_surround": ["$a$"]}
    sql_parts = ["SELECT ", " a ", ", ", " FROM t ", " WHERE x = ", "\n", "'s'", " -- c\n", "  "]
    for i in range(n):
        style = rnd.choice(sorted(styles))
        parts = sql_parts + styles[style] * 3
        text = "".join(rnd.choice(parts) for _ in range(rnd.randint(2, 9)))
        ctx = {"templater": {"placeholder": {"param_style": style, "a": "va", "1": "v1"}}}
        out.append((text, "ansi", "placeholder", f"<ph {style} {i}>", f"ph{i}", {"configs": ctx}))
    return out


def _lexer_is_repaired() -> bool:
    """Which transcription of the split/stash branches applies to the tree under test (drift-free choice)."""
    import inspect
    from sqlfluff.core.parser import lexer

    return "Found literal whitespace with stashed idx" not in inspect.getsource(lexer._iter_segments)


def replay(path, tier, seed):
    case = json.load(open(path))["case"]
    rep = Report(PROP, tier, seed, "model_checking")
    inp = case["input"]
    if inp.get("templater") == "slicemap":
        t, _ = slicemap_case({"tfs": inp["layout"], "elems": inp["elems"], "out": [], "status": "done"}, 0)
        traces = [t]
    else:
        traces = lexrec.record_lex(inp["text"], inp["dialect"], inp["templater"], fname=inp["fname"], tid="replay",
                                   overrides=inp.get("overrides"))
    validate_and_report(rep, traces, "replay")
    if rep.violations:
        for v in rep.violations:
            print(f"  {v['clause']}: {v['what'][:300]}")
        print(f"VIOLATION property={PROP} replay={path}")
        return 1
    print("replay: behaviour now satisfies the contract")
    return 0
