"""C17 — fix and format are idempotent.

Spec:  spec/FixLoop.tla: IdempotentIfAcyclic (engine part: if no limit is hit, the graph of valid rule
       proposals is acyclic and every proposing rule is fix-compatible, a second run adopts nothing) and the
       expected NON-invariants obtained by dropping one hypothesis each (rule oscillation, non-fix-compatible
       rule, documented phase behaviour) — which is why idempotence is a property of the rules;
       spec/FixContract.tla clause SecondRunNoChange decided by FixTrace.
S->C:  every emitted behaviour replayed into the real lint_fix_parsed (shared with C13); where the contract
       requires idempotence (idem_required computed by TLC) the real second run must adopt nothing.
C->S:  dialect fixtures under {format rule set, layout group, all rules}, corpus mutants and rule yaml fail cases
       are fixed, and the fixed source is fixed again: the text must not change (Prop = C17).
"""
from __future__ import annotations

from .. import fixloop_replay as flr
from .. import fixsuite as fs
from ..core import Report

PROP = "C17"
PARTS = ["corpus_all", "corpus_format", "corpus_layout", "mutants", "cases_own"]


def _bad(t: dict) -> bool:
    return t["clean0"] and any(e["ev"] == "Second" and not e["same"] for e in t["events"])


def describe(t: dict, r: dict):
    case = t["case"]
    second = fs.rules_of(fs.adoptions(t, second=True))
    first = fs.rules_of(fs.adoptions(t))
    single = fs.culprit_by_single_rule(t, _bad)
    ruleset = t["id"].split(":")[0]
    cycle = "?"
    if t.get("fixed2"):
        try:      # diagnosis only: does a third fix come back to the first result (two rules undoing each other)?
            t3 = fs.fixrec.record_case(dict(case, sql=t["fixed2"]))
            cycle = "period2" if t3.get("fixed") == t.get("fixed") else "drifting"
        except Exception:
            pass
    sig = {"rules2": second or "none", "alone": single if "+" not in single else "no", "cycle": cycle,
           "dialect": case["dialect"] if not case.get("configs") else "case", "template": fs.template_kind(case)}
    what = (f"second fix changes the text again (rule set {ruleset}, dialect {case['dialect']}; first run adopted {first or 'nothing'}, "
            f"second run adopted {second or 'nothing'}): {case['sql']!r} -> {t.get('fixed')!r} -> {t.get('fixed2')!r}")
    return sig, what


def run(tier: str, seed: int) -> int:
    rep = Report(PROP, tier, seed, "model_checking")
    records = flr.run_models(rep, tier)
    rep.exhaustive = True
    if flr.dev_mod() == 1:
        rep.extra["expected_non_invariants"] = flr.expected_non_invariants(rep, tier)
    nonidem = [r for r in records if r["pred"]["res"][0] != r["pred"]["res"][1]]
    rep.extra["model_non_idempotent_behaviours"] = {
        "count": len(nonidem), "of": len(records),
        "cyclic": sum(1 for r in nonidem if not r["contract"]["acyclic"]),
        "example": next(({"rules": r["rules"], "limit": r["limit"], "res": r["pred"]["res"]} for r in nonidem
                         if not r["contract"]["acyclic"] and len(r["pred"]["hist"][0]) <= 4), None)}
    if any(r["contract"]["idem_required"] and r["pred"]["res"][0] != r["pred"]["res"][1] for r in records):
        raise flr.MachineryError("FixLoop emitted a behaviour that contradicts IdempotentIfAcyclic")
    flr.replay_and_decide(rep, records, tier, seed)
    traces = fs.load_case_traces(PARTS, tier, seed, rep)
    fs.decide(rep, PROP, traces, describe, lambda t: t["clean0"] and len(fs.adoptions(t)) >= 1)
    rep.rule = ("engine: every behaviour of lint_fix_parsed in the rule-table scope, run twice (non-trivial = first run adopts a fix); "
                "pipeline: one trace per (input, rule set), fix applied twice; non-trivial = clean input with at least one adopted "
                "fix batch in the first run")
    rep.trusted_base = ["vf/fixrec.py wrappers and second-run driver (lint_string(fix=True) on LintedFile.fix_string() output)",
                        "synthetic rule concretisation (vf/fixloop_replay.py)"]
    return rep.finish()


def replay(path: str, tier: str, seed: int) -> int:
    import json

    case = json.load(open(path))["case"]
    if case.get("kind") == "engine":
        rej = flr.replay_engine_case(case["rec"])
        if rej:
            print(f"VIOLATION property={PROP} replay={path}\n  clause={rej[0]['clause']}")
            return 1
        print("replay: behaviour now satisfies the contract")
        return 0
    return fs.replay_case(path, PROP)
