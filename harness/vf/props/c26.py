"""C26 — writing fixed files is atomic and faithful.

Spec:  spec/AtomicWriteOps.tla (contract ObsClause, op order), spec/AtomicWrite.tla (model of
       lint_paths/persist_changes -> persist_tree -> _safe_create_replace_file incl. shutil.move's copy
       fallback; every op may succeed, raise or the process may die), spec/AtomicWriteObs.tla and
       spec/AtomicWriteTrace.tla (validators).
S->C:  every plan (sequence of deviations from success) TLC enumerates is replayed by fault injection on the
       real _safe_create_replace_file, on lint + LintingResult.persist_changes (persist_tree) and on
       lint_paths(fix=True, apply_fixes=True) in a forked child (exceptions = patched os/tempfile/shutil
       functions raising OSError, KeyboardInterrupt or SystemExit, death = os._exit); the directory is projected afterwards (names, body
       classes, modes) and the observation is validated by TLC against the contract (AtomicWriteObs).
       The model's own prediction for the plan is compared too (DRIFT only).
C->S:  `strace -f -e trace=file,desc` of real `python -m sqlfluff fix` subprocesses (with and without
       --fixed-suffix; a UTF-8-BOM file with mode 0640 and a plain file with mode 0604); the system calls
       on the temp files and targets are validated by AtomicWriteTrace against the model's op order.
"""
from __future__ import annotations

import json
import os
import re
import shutil
import subprocess
import sys

from ..core import Report, expect_model_ok
from ..tlc import MachineryError, cfg_text, run_tlc, scratch, validate_traces
from ..par import pmap
from .. import faultfs, sq

PROP = "C26"
INVS = ["TypeOK", "AlwaysIntact", "ContractAtEnd", "RenameOnlyDurable"]
LEVELS = ("safe", "persist", "paths")     # _safe_create_replace_file / lint + persist_changes / lint_paths(apply_fixes)
_LINTER = None


def fs(*xs):
    return frozenset(xs)


K3 = {"os", "kbd", "exit"}      # raised exception classes: OSError, KeyboardInterrupt, SystemExit
SCOPES = {
    # (constants of the emission run, what, levels the plans are replayed on).  Every plan is replayed on
    # _safe_create_replace_file; the entry points above it (which add the persist_tree gate, the suffix, the file
    # sequence and exception propagation, and cost a lint per replay) get the scopes with one raised fault.
    "quick": [
        (dict(NFiles=1, SkipChoices={fs()}, SuffixChoices={False, True}, MaxRaise=2, AllowDie=True, ExcKinds=K3),
         "one file, up to two raised faults (OSError / KeyboardInterrupt / SystemExit), death anywhere, with and "
         "without suffix", ("safe",)),
        (dict(NFiles=1, SkipChoices={fs()}, SuffixChoices={False, True}, MaxRaise=1, AllowDie=True, ExcKinds=K3),
         "one file, one raised fault of any class, death anywhere", ("persist",)),
        (dict(NFiles=2, SkipChoices={fs(), fs(1)}, SuffixChoices={False, True}, MaxRaise=1, AllowDie=True,
              ExcKinds={"os", "kbd"}),
         "two files (second may follow a skipped first), one raised fault (OSError / KeyboardInterrupt), death anywhere",
         ("safe", "paths")),
    ],
    "thorough": [
        (dict(NFiles=1, SkipChoices={fs()}, SuffixChoices={False, True}, MaxRaise=3, AllowDie=True, ExcKinds=K3),
         "one file, up to three raised faults, death anywhere", ("safe",)),
        (dict(NFiles=1, SkipChoices={fs()}, SuffixChoices={False, True}, MaxRaise=2, AllowDie=True, ExcKinds=K3),
         "one file, up to two raised faults, death anywhere", ("persist", "paths")),
        (dict(NFiles=2, SkipChoices={fs(), fs(1), fs(2)}, SuffixChoices={False, True}, MaxRaise=2, AllowDie=True, ExcKinds=K3),
         "two files, any one skipped, two raised faults, death anywhere", ("safe",)),
        (dict(NFiles=2, SkipChoices={fs(), fs(1), fs(2)}, SuffixChoices={False, True}, MaxRaise=1, AllowDie=True, ExcKinds=K3),
         "two files, any one skipped, one raised fault, death anywhere", ("persist", "paths")),
        (dict(NFiles=3, SkipChoices={fs(), fs(2)}, SuffixChoices={False, True}, MaxRaise=1, AllowDie=True, ExcKinds=K3),
         "three files, one raised fault, death anywhere", ("safe", "paths")),
    ],
}
MODEL = dict(NFiles=2, SkipChoices={fs(), fs(1), fs(2)}, SuffixChoices={False, True}, MaxRaise=2, AllowDie=True, ExcKinds=K3)


def work_dir():
    """Scratch directory for the replays.  A tmpfs is preferred: every replay runs the real os.fsync, which costs
    ~100 ms per file on the sandbox disk and nothing on tmpfs; no verdict depends on durability (death is os._exit)."""
    import tempfile

    if os.path.isdir("/dev/shm") and os.access("/dev/shm", os.W_OK) and not os.environ.get("VF_SCRATCH"):
        return tempfile.mkdtemp(prefix="vf-c26-", dir="/dev/shm")
    return scratch("c26")


def _replay(case):
    try:
        return faultfs.replay_plan(case, os.environ["VF_C26_SCRATCH"], _LINTER)
    except Exception as e:  # a harness problem, reported by the parent
        return {"id": case["id"], "error": f"{type(e).__name__}: {e}"}


def plan_str(plan):
    return "+".join(f"{op}:{what}" for _i, op, what in plan) or "none"


def signature(clause, case, out):
    """Root-cause class: was a rename failure followed, for the same file, by a fault in shutil.move's fallback copy?"""
    plan = case["plan"]
    breaker = ""
    for k, (i, op, what) in enumerate(plan):
        if op == "rename" and what == "raise":
            nxt = [o for j, o, _w in plan[k + 1:] if j == i]
            if nxt:
                breaker = nxt[0]
    return {"clause": clause, "level": case["level"], "suffix": case["suffix"],
            "fallback": any(op == "rename" and what == "raise" for _i, op, what in plan),
            "breaker": breaker, "exc": ",".join(sorted({w.partition(":")[2] or "os" for _i, _o, w in plan if w.startswith("raise")})),
            "faults": plan_str(plan)}


def cases_from(records, nfiles, levels, tag):
    """Group the model's terminal states by scenario and plan: {case -> set of predicted observations}."""
    by = {}
    for r in records:
        o = r["obs"]
        skip = [i + 1 for i, f in enumerate(o["files"]) if f["skip"]]
        key = (o["suffix"], tuple(skip), json.dumps(r["plan"]))
        by.setdefault(key, []).append(o)
    cases = []
    for n, ((suffix, skip, plan), preds) in enumerate(sorted(by.items(), key=lambda kv: (kv[0][0], kv[0][1], kv[0][2]))):
        for level in levels:
            cases.append({"id": f"{tag}-{level}-{n}", "level": level, "nfiles": nfiles, "skip": list(skip), "suffix": suffix,
                          "plan": json.loads(plan), "pred": preds})
    return cases


def clean(o):
    return {"suffix": o["suffix"], "outcome": o["outcome"], "remove_failed": o["remove_failed"], "strays": o["strays"],
            "files": [{k: f[k] for k in ("skip", "omode", "inp", "out", "ntmp")} for f in o["files"]]}


def run_cases(rep, cases):
    outs = pmap(_replay, [{k: v for k, v in c.items() if k != "pred"} for c in cases], chunksize=4)
    traces, by_id = [], {}
    for c, o in zip(cases, outs):
        if "error" in o or str(o["obs"]["outcome"]).startswith("harness"):
            raise MachineryError(f"C26 replay of {c['id']} failed in the harness: {o.get('error') or o['obs']['outcome']} {o.get('exc')}")
        rep.evaluated()
        by_id[c["id"]] = (c, o)
        traces.append({"id": c["id"], "events": [{"obs": clean(o["obs"])}]})
        planned = [list(p) for p in c["plan"]]
        if o["fired"] == planned:
            if planned:
                rep.nontrivial(json.dumps([c["level"], c["suffix"], c["skip"], c["nfiles"], planned]))
        else:
            rep.drift.append(f"{c['id']}: planned faults {plan_str(planned)} but injected {plan_str(o['fired'])} "
                             f"(operations reached: {[op for _i, op in o['ops']]})")
        if clean(o["obs"]) not in [clean(p) for p in c["pred"]] and len(rep.drift) < 40:
            rep.drift.append(f"{c['id']} ({c['level']}, plan {plan_str(planned)}): observed {o['obs']} is not among the "
                             f"model's final states for this plan")
    return traces, by_id


def judge_obs(rep, traces, by_id, finals):
    """One TLC run evaluates the contract on every observation (replayed plans and real CLI runs)."""
    val = validate_traces("AtomicWriteObs", traces + finals)
    rep.validation(val, "AtomicWriteObs")
    fin = {f["id"]: f for f in finals}
    for r in val.rejected:
        if r["id"] in fin:
            t = fin[r["id"]]
            rep.violation(r["clause"], {"clause": r["clause"], "level": "cli-final"},
                          f"directory after a real `sqlfluff fix`: {t['events'][0]['obs']}", {"kind": "final", "trace": t})
            continue
        c, o = by_id[r["id"]]
        files = "; ".join(f"{faultfs.FILES[i + 1]['name']}.sql: in={f['inp']} out={f['out']} temp files={f['ntmp']}"
                          for i, f in enumerate(o["obs"]["files"]))
        rep.violation(r["clause"], signature(r["clause"], c, o),
                      f"{c['level']} level, {c['nfiles']} file(s), suffix={c['suffix']}, skip={c['skip']}, faults "
                      f"[{plan_str(c['plan'])}] -> outcome {o['obs']['outcome']} ({o['exc']}); directory afterwards: {files}; "
                      f"names {o['names']}",
                      {"kind": "plan", "case": {k: v for k, v in c.items() if k != "pred"}, "observed": o})


# ------------------------------------------------------------------------------------------------ C -> S
_CALL = re.compile(r"^(\d+)\s+(\w+)\((.*)\)\s+=\s+(-?\d+|\?)(.*)$")
_STR = re.compile(r'"((?:[^"\\]|\\.)*)"')


def parse_strace(text, d, pairs):
    """-> {output basename: [events]}.  `pairs`: (input basename, output basename) of each file in directory d."""
    fdmap = {}          # (pid, fd) -> abs path
    events = []         # (path, event dict)
    for line in text.splitlines():
        if "<unfinished" in line or "resumed>" in line:
            if d in line:
                raise MachineryError(f"strace line split across threads touches the scratch dir: {line}")
            continue
        m = _CALL.match(line)
        if not m:
            continue
        pid, call, args, ret = m.group(1), m.group(2), m.group(3), m.group(4)
        if ret == "?" or int(ret) < 0:
            continue
        strs = [os.path.normpath(os.path.join(d, s)) for s in _STR.findall(args)]
        if call in ("openat", "open", "creat"):
            p = strs[0]
            flags = args.split(",")[2 if call == "openat" else 1] if call != "creat" else "O_CREAT|O_WRONLY|O_TRUNC"
            fdmap[(pid, ret)] = p
            wr = any(f in flags for f in ("O_WRONLY", "O_RDWR", "O_TRUNC", "O_CREAT", "O_APPEND"))
            if wr:
                events.append((p, {"op": "open" if "O_CREAT" in flags else "openw", "excl": "O_EXCL" in flags,
                                   "same_dir": os.path.dirname(p) == d, "created": "O_CREAT" in flags}))
        elif call in ("write", "pwrite64", "writev", "sendfile", "copy_file_range"):
            fd = args.split(",")[0].strip()
            if (pid, fd) in fdmap:
                events.append((fdmap[(pid, fd)], {"op": "write", "n": int(ret)}))
        elif call in ("fsync", "fdatasync"):
            fd = args.strip()
            if (pid, fd) in fdmap:
                events.append((fdmap[(pid, fd)], {"op": "fsync"}))
        elif call in ("ftruncate",):
            fd = args.split(",")[0].strip()
            if (pid, fd) in fdmap:
                events.append((fdmap[(pid, fd)], {"op": "truncate"}))
        elif call == "close":
            fd = args.strip()
            if (pid, fd) in fdmap:
                events.append((fdmap.pop((pid, fd)), {"op": "close"}))
        elif call in ("chmod", "fchmodat"):
            mode = re.search(r"\b(0[0-7]{3,4})\b", args.split('"')[-1])
            events.append((strs[0], {"op": "chmod", "mode": "%04o" % int(mode.group(1), 8) if mode else "?"}))
        elif call == "fchmod":
            fd = args.split(",")[0].strip()
            mode = re.search(r"\b(0[0-7]{3,4})\b", args.split(",")[1])
            if (pid, fd) in fdmap:
                events.append((fdmap[(pid, fd)], {"op": "chmod", "mode": "%04o" % int(mode.group(1), 8)}))
        elif call in ("rename", "renameat", "renameat2"):
            events.append((strs[0], {"op": "rename", "dstpath": strs[1]}))
        elif call in ("unlink", "unlinkat"):
            events.append((strs[0], {"op": "unlink"}))
        elif call == "truncate":
            events.append((strs[0], {"op": "truncate"}))
        elif call in ("link", "linkat", "symlink", "symlinkat"):
            events.append((strs[-1], {"op": "openw"}))
    out = {}
    for inp, outp in pairs:
        ip, tp = os.path.join(d, inp), os.path.join(d, outp)
        role = {tp: "target"}
        if ip != tp:
            role[ip] = "input"
        # the paths that were renamed onto the output are its temp files
        temps = {p for p, e in events if e["op"] == "rename" and e["dstpath"] == tp and p not in role}
        evs = []
        for p, e in events:
            if p in temps:
                e2 = {k: v for k, v in e.items() if k not in ("dstpath", "created")}
                e2["role"] = "tmp"
                if e["op"] == "rename":
                    e2["dst"] = role.get(e["dstpath"], "other")
                evs.append(e2)
            elif p in role:
                if e["op"] in ("open", "openw", "truncate", "unlink"):
                    evs.append({"op": "openw" if e["op"] == "open" else e["op"], "role": role[p]})
                elif e["op"] == "rename":
                    evs.append({"op": "unlink", "role": role[p]})      # the path itself was moved away
        out[outp] = evs
    return out


def strace_run(rep, base, suffix: bool, k: int):
    d = os.path.join(base, f"strace{k}")
    os.makedirs(d)
    old = os.umask(0o022)
    try:
        faultfs.materialise(d, 2, [])
    finally:
        os.umask(old)
    outf = os.path.join(base, f"strace{k}.out")
    cmd = ["strace", "-f", "-e", "trace=file,desc", "-o", outf, sys.executable, "-m", "sqlfluff", "fix", "--dialect", "ansi",
           "--rules", "LT01", "--disable-progress-bar"]
    if suffix:
        cmd += ["--fixed-suffix", faultfs.SUFFIX]
    cmd.append(".")
    env = dict(os.environ, PYTHONPATH=os.pathsep.join(p for p in sys.path if p))
    p = subprocess.run(cmd, cwd=d, env=env, capture_output=True, text=True, timeout=900)
    if not os.path.exists(outf):
        raise MachineryError(f"strace produced no output: {p.stderr[-1500:]}")
    with open(outf, errors="replace") as fh:
        text = fh.read()
    pairs = [(faultfs.FILES[i]["name"] + ".sql", faultfs.FILES[i]["name"] + (faultfs.SUFFIX if suffix else "") + ".sql")
             for i in (1, 2)]
    per = parse_strace(text, d, pairs)
    proj = faultfs.project(d, 2, [], suffix)
    traces = []
    for i in (1, 2):
        n = faultfs.FILES[i]["name"] + (faultfs.SUFFIX if suffix else "") + ".sql"
        traces.append({"id": f"strace{k}-{n}", "omode": "%04o" % faultfs.FILES[i]["mode"], "size": len(faultfs.fixed_bytes(i)),
                       "suffix": suffix, "events": per.get(n, []), "cli_exit": p.returncode})
    rep.evaluated()
    # the final directory of the real CLI run is one more observation for the contract
    obs = {"suffix": suffix, "outcome": "ok", "remove_failed": False, "strays": proj["strays"], "files": proj["files"]}
    return traces, {"id": f"strace{k}-final", "events": [{"obs": obs}]}, {"cmd": " ".join(cmd[:8]) + " ...", "exit": p.returncode,
                                                                           "syscall_lines": text.count("\n")}


def run(tier: str, seed: int) -> int:
    global _LINTER
    rep = Report(PROP, tier, seed, "model_checking")
    base = work_dir()
    os.environ["VF_C26_SCRATCH"] = base
    try:
        # 1. the model: with a rename that simply fails (os.replace) the contract holds in every state
        m1 = run_tlc("AtomicWrite", cfg_text(constants=dict(MODEL, MoveFallback=False), invariants=INVS), workers=4, timeout=1500)
        expect_model_ok(m1, "AtomicWrite (rename failure = failure) => Contract")
        rep.model(m1, "write path with an atomic-or-failing move: TargetIntact/NoTemp/Faithful in every state, "
                      "2 files, <=2 raised faults, death anywhere")
        #    as written (shutil.move falls back to copy): TLC is expected to find the window
        m2 = run_tlc("AtomicWrite", cfg_text(constants=dict(MODEL, MoveFallback=True), invariants=INVS), workers=1,
                     timeout=1500, expect_violation=True)     # one worker: the state count at the violation is deterministic
        rep.model(m2, "write path as written (shutil.move copy fallback)")
        rep.extra["model_as_written_violates"] = m2.violated
        # 2. S->C: enumerate plans, replay each on the three levels
        from sqlfluff.core.config import progress_bar_configuration

        progress_bar_configuration.disable_progress_bar = True
        _LINTER = sq.linter(sq.config("ansi", "raw", rules="LT01"))
        warm = os.path.join(base, "warm")                 # children are forked: let them inherit warm caches
        os.makedirs(warm)
        faultfs.materialise(warm, 2, [])
        _LINTER.lint_paths((warm,), fix=True, apply_fixes=False)
        shutil.rmtree(warm)
        nplans, obs_traces, by_id = 0, [], {}
        only_levels = [x for x in os.environ.get("VF_C26_LEVELS", "").split(",") if x]    # development aid
        for k, (consts, what, levels) in enumerate(SCOPES[tier]):
            if only_levels:
                levels = tuple(x for x in levels if x in only_levels) or tuple(only_levels)
            e = run_tlc("AtomicWrite", cfg_text(constants=dict(consts, MoveFallback=True)), workers=4, timeout=1500)
            expect_model_ok(e, "AtomicWrite enumeration")
            rep.model(e, "plans: " + what)
            if not e.records:
                raise MachineryError("AtomicWrite emitted no plans")
            cases = cases_from(e.records, consts["NFiles"], levels, f"s{k}")
            cap = int(os.environ.get("VF_C26_CAP", "0") or 0)        # development aid: every cap-th case only
            if cap:
                cases = cases[::cap]
                rep.assumptions.append(f"VF_C26_CAP={cap}: only every {cap}-th plan replayed (development run)")
            t, b = run_cases(rep, cases)
            obs_traces += t
            by_id.update(b)
            nplans += len(cases)
            rep.sample({"scope": what, "case": {kk: v for kk, v in cases[len(cases) // 2].items() if kk != "pred"},
                        "model_final_states": cases[len(cases) // 2]["pred"][:2]})
        rep.exhaustive = not (os.environ.get("VF_C26_CAP") or only_levels)
        rep.extra["plans_replayed"] = nplans
        # 3. C->S: system calls of real `sqlfluff fix` runs
        traces, finals, info = [], [], []
        for k, suffix in enumerate((False, True)):
            t, f, i = strace_run(rep, base, suffix, k)
            traces += t
            finals.append(f)
            info.append(i)
        rep.extra["strace_runs"] = info
        val = validate_traces("AtomicWriteTrace", traces)
        rep.validation(val, "AtomicWriteTrace")
        by = {t["id"]: t for t in traces}
        for r in val.rejected:
            t = by[r["id"]]
            rep.violation(r["clause"], {"clause": r["clause"], "level": "cli-syscalls", "suffix": t["suffix"]},
                          f"system calls of `sqlfluff fix` for {t['id']} rejected at step {r['step']}: {t['events']}",
                          {"kind": "strace", "trace": t, "verdict": r})
        judge_obs(rep, obs_traces, by_id, finals)
        rep.sample({"strace_trace": traces[0]})
    finally:
        shutil.rmtree(base, ignore_errors=True)
    rep.rule = ("TLC enumerates every plan (sequence of raised faults / one death over the operations of the write "
                "path) per scenario (files, skipped files, suffix); each plan is replayed on three entry levels.  "
                "Non-trivial = every planned fault was actually injected (at least one); distinct by "
                "(level, scenario, plan)")
    rep.trusted_base = ["fault injector: wrappers around os.stat/open/fsync/chmod/rename/unlink/remove, tempfile's io.open, "
                        "shutil's open/_fastcopy_sendfile/copystat (vf/faultfs.py)",
                        "directory projection: body classes by byte comparison with the fixture's original / expected fixed "
                        "bytes (BOM kept), modes from stat",
                        "fixtures: the LT01 fix of `a  FROM` is `a FROM`", "strace output parser (vf/props/c26.py)"]
    rep.assumptions += ["process death is os._exit: the page cache survives, so a missing fsync is not observable by replay "
                       "(it is checked on the system-call order instead)",
                       "a failing os.remove in the cleanup handler excuses the leftover temp file"]
    return rep.finish()


def replay(path, tier, seed):
    global _LINTER
    data = json.load(open(path))
    case = data["case"]
    rep = Report(PROP, tier, seed, "model_checking")
    base = work_dir()
    os.environ["VF_C26_SCRATCH"] = base
    try:
        if case["kind"] == "plan":
            _LINTER = sq.linter(sq.config("ansi", "raw", rules="LT01"))
            c = dict(case["case"], pred=[])
            o = faultfs.replay_plan(c, base, _LINTER)
            val = validate_traces("AtomicWriteObs", [{"id": c["id"], "events": [{"obs": clean(o["obs"])}]}])
        elif case["kind"] == "strace":
            t, _f, _i = strace_run(rep, base, case["trace"]["suffix"], 0)
            val = validate_traces("AtomicWriteTrace", [x for x in t if x["id"].split("-", 1)[1] == case["trace"]["id"].split("-", 1)[1]])
        else:
            _t, f, _i = strace_run(rep, base, case["trace"]["events"][0]["obs"]["suffix"], 0)
            val = validate_traces("AtomicWriteObs", [f])
    finally:
        shutil.rmtree(base, ignore_errors=True)
    if val.rejected:
        print(f"VIOLATION property={PROP} replay={path}")
        print(f"  clause={val.rejected[0]['clause']}")
        return 1
    print("replay: behaviour now satisfies the contract")
    return 0
