"""C29 — dialect definitions are complete.

Spec:  spec/DialectGraph.tla over generated data (reference graph of every expanded dialect, extracted at
       check time by vf.dialect_graph, handed over as one JSON document), spec/DialectLexTrace.tla (load + lexer clauses).
Model: TLC computes reachability from each dialect's root, one Visit step per grammar element, collects every
       reachable (element, reference) that does not resolve and emits them all at the end of the behaviour.
Binding: Dialect.ref is wrapped while fixture files of each dialect are parsed; every name the real parser
       resolved must be reached by the model (else the extractor is incomplete: machinery failure).  For each
       dangling reference a witness is attempted: cheapest token path root -> element -> reference over the real
       grammar objects, joined into SQL and parsed; a RuntimeError escaping parse_string confirms it.
Lexer: every dialect lexes each character of a sample (ASCII + every Unicode general category) on its own.
"""
from __future__ import annotations

import json
import os
import random
import shutil

from ..core import Report, expect_model_ok
from ..par import pmap
from ..tlc import MachineryError, cfg_text, run_tlc, scratch, validate_traces
from .. import dialect_graph as dg
from .. import sq

PROP = "C29"


def _files(tier: str, seed: int):
    rnd = random.Random(seed)
    per = 8 if tier == "quick" else 400
    by = {}
    for f, d in sq.dialect_corpus():
        by.setdefault(d, []).append(f)
    jobs = []
    for d in sorted(by):
        fs = list(by[d])
        rnd.shuffle(fs)
        jobs.append((d, sorted(fs[:per])))
    return jobs


def explore(rep: Report, labels, observed):
    graphs, failed = [], {}
    for lb in labels:
        try:
            graphs.append(dg.extract(lb))
        except Exception as e:  # noqa: BLE001 - a dialect that does not load is judged by DialectLexTrace ("Load")
            failed[lb] = f"{type(e).__name__}: {e}"
    if not graphs:
        raise MachineryError(f"no dialect could be extracted: {failed}")
    d = scratch("c29")
    try:
        fn = os.path.join(d, "graph.json")
        with open(fn, "w") as fh:
            json.dump(dg.graph_data(graphs, observed), fh)
        m = run_tlc("DialectGraph", cfg_text(invariants=["TypeOK"]), env={"VF_GRAPH": fn}, timeout=1500, workers=4)
    finally:
        shutil.rmtree(d, ignore_errors=True)
    expect_model_ok(m, "DialectGraph reachability")
    recs = {r["dialect"]: r for r in m.records if isinstance(r, dict) and "dangling" in r}
    if set(recs) != {g["label"] for g in graphs}:
        raise MachineryError(f"DialectGraph finished {sorted(recs)} of {[g['label'] for g in graphs]}")
    rep.model(m, f"reachability from the root of {len(graphs)} extracted dialect graphs, one step per element")
    return graphs, recs, failed


def run(tier: str, seed: int) -> int:
    rep = Report(PROP, tier, seed, "model_checking")
    labels = list(sq.dialects())
    # 1. what the real parser asks Dialect.ref for
    obs = pmap(dg.observe_refs, _files(tier, seed), chunksize=1)
    observed = {o["label"]: o["observed"] for o in obs}
    rep.evaluated(sum(o["files"] for o in obs))
    rep.extra["ref_names_observed"] = sum(len(v) for v in observed.values())
    crashes = [c for o in obs for c in o["crashes"]]
    rep.extra["fixture_parse_crashes"] = crashes[:10]
    # 2. extracted graphs -> TLC
    graphs, recs, failed = explore(rep, labels, observed)
    gby = {g["label"]: g for g in graphs}
    for lb, r in sorted(recs.items()):
        if r["unexplained"]:
            g = gby[lb]
            names = [g["names"][i - 1] if i >= 1 else "<name never seen by the extractor>" for i in r["unexplained"]]
            missing = sorted(set(observed[lb]) - set(g["names"]))
            raise MachineryError(f"extractor incomplete for {lb}: the parser resolved {names} {missing} "
                                 f"which the model does not reach from the root")
        for k in range(r["reachable"]):
            rep.nontrivial(f"{lb}#{k}")
    dangling = {lb: sorted((p["from"], p["to"]) for p in r["dangling"]) for lb, r in recs.items()}
    rep.extra["dangling_pairs"] = sum(len(v) for v in dangling.values())
    rep.extra["reachable_elements"] = {lb: r["reachable"] for lb, r in sorted(recs.items())}
    # 3. witnesses
    jobs = [(lb, v) for lb, v in sorted(dangling.items()) if v]
    wit = {}
    for w in pmap(dg.witness_job, jobs, chunksize=1):
        for x in w["witnesses"]:
            wit[(w["label"], x["from"], x["to"])] = x
            if x["sql"]:
                rep.evaluated()
    outcomes = {}
    for x in wit.values():
        outcomes[x["outcome"]] = outcomes.get(x["outcome"], 0) + 1
    rep.extra["witness_outcomes"] = outcomes
    # 4. verdicts
    where = dg.definers(gby, dangling)
    for lb in sorted(dangling):
        for frm, to in dangling[lb]:
            w = wit.get((lb, frm, to), {})
            confirmed = w.get("outcome") == "RuntimeError"
            sig = {"dialect": lb, "defined_in": where[(lb, frm, to)], "ref": to}
            txt = (f"{lb}: element {frm} (reachable from the root) refers to {to!r}, which is not defined"
                   + (f" (first introduced in {where[(lb, frm, to)]})" if where[(lb, frm, to)] != lb else "")
                   + (f"; witness {w['sql']!r} raises RuntimeError out of parse_string: {w.get('message')}" if confirmed
                      else f"; no crashing witness built ({w.get('outcome')}: {w.get('sql')!r})"))
            rep.violation("ReferencesResolve", sig, txt, {"kind": "dangling", "dialect": lb, "from": frm, "to": to, "witness": w})
            if confirmed:
                rep.sample({"dialect": lb, "element": frm, "reference": to, "witness": w["sql"], "error": w.get("message")})
    # 5. loading + lexer
    traces = pmap(dg.lex_chars, labels, chunksize=1)
    rep.evaluated(sum(len(t["events"]) for t in traces))
    val = validate_traces("DialectLexTrace", traces)
    rep.validation(val, "DialectLexTrace")
    by = {t["id"]: t for t in traces}
    for r in val.rejected:
        ev = by[r["id"]]["events"][r["step"] - 1]
        rep.violation(r["clause"], {"dialect": r["id"], "cat": ev.get("cat"), "ascii": ev.get("cp", 999) < 128},
                      f"{r['id']}: {ev}", {"kind": "lex", "dialect": r["id"], "event": ev})
    for t in traces:
        for e in t["events"]:
            if e.get("nunlexable"):
                rep.nontrivial(f"{t['id']}:lex:{e['cp']}")
    rep.extra["chars_per_dialect"] = len(dg.char_sample())
    rep.exhaustive = True
    rep.rule = ("one case per (dialect, grammar element reachable from the root in the extracted graph) — every one is "
                "visited by TLC and its references tested — plus one per (dialect, sample character) that falls back "
                "to the unlexable token; counts come from TLC's `reachable` and from the lexer traces")
    rep.trusted_base = ["dialect_graph.extract (walk of __dict__ / match_grammar of every library element; bracket sets as "
                        "pseudo elements; checked against observed Dialect.ref calls)",
                        "dialect_graph.observe_refs (wrapper around Dialect.ref)",
                        "dialect_graph.lex_chars (projection of PyLexer.lex output)",
                        "witness generator (best effort; only a confirming RuntimeError is used)"]
    return rep.finish()


def replay(path, tier, seed):
    case = json.load(open(path))["case"]
    rep = Report(PROP, tier, seed, "model_checking")
    bad = False
    if case["kind"] == "dangling":
        _g, recs, failed = explore(rep, [case["dialect"]], {})
        r = recs.get(case["dialect"])
        bad = bool(failed) or any(p["from"] == case["from"] and p["to"] == case["to"] for p in r["dangling"])
    else:
        t = dg.lex_chars(case["dialect"])
        val = validate_traces("DialectLexTrace", [t])
        bad = bool(val.rejected)
    if bad:
        print(f"VIOLATION property={PROP} replay={path}")
        return 1
    print("replay: behaviour now satisfies the contract")
    return 0
