"""C09 — the python-format and placeholder templaters render faithfully.

Spec:  spec/Render.tla, parts "py" (Python format strings as a one-character-per-step state machine that
       decides validity and the rendering skeleton; dotted names live in context['sqlfluff']) and "ph"
       (what a parameter of each of the 12 KNOWN_STYLES is, the leftmost non-overlapping segmentation of
       a source and what each segment renders to).
S->C:  TLC enumerates EVERY string up to the bound over the abstract alphabets and emits each with the
       contract's verdict (valid?, first error class, skeleton / segments).  Each string is concretised
       and rendered by the real PythonTemplater.process / PlaceholderTemplater.process (and a seeded
       sample through Linter.render_string with the context coming from a FluffConfig).
         python:  valid => renders, no templater violation, text = contract's rendering;
                  invalid => SQLTemplaterError / TMP violation, never another exception.
         placeholder: text = concatenation of the contract's segment renderings; the TemplatedFile's
                  non-empty slices are the contract's segments and reproduce the rendering.
       string.Formatter().vformat (dotted lookup added) is run on every python string as a cross-check
       of the SPECIFICATION: a disagreement there is a machinery failure, not a verdict.
"""
from __future__ import annotations

import gc
import json
import os
import random
from typing import Any, Dict, List

from ..core import Report, expect_model_ok
from ..par import pmap
from ..tlc import MachineryError
from .. import render as R

PROP = "C09"


# ------------------------------------------------------------------------------------------ python
def _py_expected(rec: dict, other: str, ctx: Dict[str, Any]) -> str:
    out = []
    for g in rec["segs"]:
        t = R.py_text(g["t"], other)
        if g["k"] == "lit":
            out.append(t)
        else:
            out.append(ctx["sqlfluff"][t] if "." in t else ctx[t])
    return "".join(out)


def _skip_reason(msg: str) -> str:
    return "non-contiguous-slices" if "non-contiguous" in msg else msg[:40]


def _py_shape(rec: dict) -> str:
    return ",".join(sorted(rec["shape"])) or "plain"


def py_case(rec: dict, other: str, ctx: Dict[str, Any], via_linter: bool = False, vstyle: str = "plain") -> List[dict]:
    """Run one enumerated string; return the list of violations (dicts for Report.violation)."""
    text = R.py_text(rec["s"], other)
    ref, referr = R.ref_format(text, ctx)
    want = _py_expected(rec, other, ctx) if rec["valid"] else None
    if (ref is not None) != bool(rec["valid"]) or (rec["valid"] and ref != want):
        raise MachineryError(f"Render.tla (py) disagrees with string.Formatter on {text!r}: contract valid={rec['valid']} "
                             f"err={rec['err']} rendering={want!r}; Formatter -> {ref!r} / {referr}")
    if via_linter:
        kind, out, info = _python_via_linter(text, ctx)
    else:
        kind, out, info, _tf = R.real_python(text, ctx)
    payload = {"part": "python", "rec": rec, "other": other, "text": text, "via_linter": via_linter, "vstyle": vstyle}
    base = {"part": "python", "entry": "linter" if via_linter else "process"}
    if vstyle != "plain":
        base["values"] = vstyle       # values that start / end with characters of the literal alphabet
    vs = []
    if rec["valid"]:
        if kind == "exc":
            if info["exc"] == "SQLFluffSkipFile":
                base["reason"] = _skip_reason(info["msg"])
            vs.append(("ValidRenders", dict(base, outcome="exception", exc=info["exc"], site=info["site"], shape=_py_shape(rec)),
                       f"valid format string {text!r} (reference renders {want!r}) raises {info['exc']} in {info['site']}: {info['msg']}"))
        elif kind == "tmp":
            vs.append(("ValidRenders", dict(base, outcome="templater-error", shape=_py_shape(rec)),
                       f"valid format string {text!r} (reference renders {want!r}) gives a templater error: {info['msg']}"))
        elif out != want:
            vs.append(("RenderedEqualsFormat", dict(base, outcome="wrong-text", shape=_py_shape(rec)),
                       f"format string {text!r} renders {out!r}, str.format gives {want!r}"))
    else:
        if kind == "exc":
            vs.append(("InvalidGivesTemplaterError", dict(base, outcome="exception", exc=info["exc"], site=info["site"]),
                       f"invalid format string {text!r} ({rec['err']}) raises {info['exc']} out of {info['site']} instead of a "
                       f"templater error: {info['msg']}"))
        elif kind == "render":
            vs.append(("InvalidGivesTemplaterError", dict(base, outcome="rendered", err=rec["err"]),
                       f"invalid format string {text!r} ({rec['err']}) renders {out!r} without a templater error"))
    return [{"clause": c, "sig": s, "what": w, "payload": payload} for c, s, w in vs]


_LINTERS: Dict[str, Any] = {}


def _python_via_linter(text: str, ctx: Dict[str, Any]):
    from sqlfluff.core import FluffConfig, Linter

    if "python" not in _LINTERS:
        c = {k: v for k, v in ctx.items() if k != "sqlfluff"}
        c["sqlfluff"] = dict(ctx["sqlfluff"])
        cfg = FluffConfig(configs={"core": {"dialect": "ansi", "templater": "python"},
                                   "templater": {"python": {"context": c}}})
        _LINTERS["python"] = (Linter(config=cfg), cfg)
    lt, cfg = _LINTERS["python"]
    try:
        rf = lt.render_string(text, fname="c09.sql", config=cfg, encoding="utf-8")
    except Exception as e:  # noqa: BLE001
        return "exc", None, {"exc": type(e).__name__, "site": R.site_of(e), "msg": str(e)[:120]}
    if rf.templater_violations:
        return "tmp", None, {"msg": str(rf.templater_violations[0])[:80]}
    if not rf.templated_variants:
        return "tmp", None, {"msg": "no variant"}
    return "render", rf.templated_variants[0].templated_str, {}


def _pmap(fn, chunks):
    """pmap after gc.freeze(): the forked workers' collector does not walk (and so copy) the parent's records."""
    gc.collect()
    gc.freeze()
    try:
        return pmap(fn, chunks, chunksize=1)
    finally:
        gc.unfreeze()


def _thin(vs: List[dict], seen: Dict[str, int]) -> List[dict]:
    """Keep the replay payload for the first few violations of a signature per chunk (the rest only count)."""
    for v in vs:
        k = v["clause"] + json.dumps(v["sig"], sort_keys=True)
        seen[k] = seen.get(k, 0) + 1
        if seen[k] > 3:
            v["payload"] = None
            v["what"] = v["what"][:160]
    return vs


EDGE_OTHERS = [" ", ")", "\n", "'"]


def _py_chunk(arg):
    recs, seed, maxlen = arg
    ctxs: Dict[tuple, Dict[str, Any]] = {}

    def ctx_for(style: str, other: str):
        key = (style, other if style == "other" else "")
        if key not in ctxs:
            ctxs[key] = R.py_context(maxlen, style, other)
        return ctxs[key]

    out, n, nontriv = [], 0, []
    seen: Dict[str, int] = {}
    for idx, rec in recs:
        has_o = "O" in rec["s"]
        runs = [(" ", "plain")]
        if has_o and idx % 3 == 0:     # a third of them also with another "other" character
            runs.append((random.Random(seed * 1000003 + idx).choice(R.PY_OTHER[1:]), "plain"))
        if rec["valid"] and any(g["k"] == "fld" for g in rec["segs"]):
            # values that begin / end with a character that also occurs in the adjacent literals
            runs += [(o, "other") for o in (EDGE_OTHERS if has_o else [" "])]
            runs += [(" ", vs) for vs in ("name", "dot", "punct")]
        for o, vs in runs:
            out += _thin(py_case(rec, o, ctx_for(vs, o), vstyle=vs), seen)
            n += 1
        if any(c in ("LB", "RB") for c in rec["s"]):
            nontriv.append(idx)
    return out, n, nontriv


PY_NARROW = ["LB", "RB", "DOT", "N", "BANG"]      # second scope: fewer classes, one character longer


def py_scopes(tier: str):
    maxlen = 6 if tier == "quick" else 7
    return maxlen, [(R.PY_CLASSES, maxlen), (PY_NARROW, maxlen + 1)]


def start_models(tier: str):
    """Run the three TLC enumerations side by side (they are independent); -> finished futures."""
    from concurrent.futures import ThreadPoolExecutor

    w = max(1, int(os.environ.get("VF_PROCS", "14") or 14) // 3)
    ex = ThreadPoolExecutor(3)
    _maxlen, scopes = py_scopes(tier)
    py = [ex.submit(R.run_part, "py", n, py_alphabet=a, invariants=["PyTypeOK", "PyLossless", "PyValidIsLit"],
                    timeout=2400, heap="4g", workers=w) for a, n in scopes]
    ph = ex.submit(R.run_part, "ph", 5 if tier == "quick" else 6, styles=R.PH_STYLES, invariants=["PhTiles"],
                   timeout=2400, heap="4g", workers=w)
    ex.shutdown(wait=True)            # all three finished before any worker process is forked
    return py, ph


def run_python(rep: Report, tier: str, seed: int, futures) -> None:
    maxlen, scopes = py_scopes(tier)
    recs: Dict[tuple, dict] = {}
    for (alphabet, n), fut in zip(scopes, futures):
        m = fut.result()
        expect_model_ok(m, "Render(py): machine invariants")
        rep.model(m, f"every string <= {n} over {len(alphabet)} character classes {alphabet} scanned by the format-string machine")
        got = {tuple(r["s"]): r for r in m.records if "valid" in r}
        expected = sum(len(alphabet) ** k for k in range(1, n + 1))
        if len(got) != expected:
            raise MachineryError(f"Render(py) emitted {len(got)} distinct strings over {alphabet} <= {n}, expected {expected}")
        for k, r in got.items():
            recs.setdefault(k, r)
        m.stdout, m.records = "", []
    items = sorted(recs.values(), key=lambda r: (len(r["s"]), r["s"]))
    indexed = list(enumerate(items))
    chunks = [(indexed[i:i + 2000], seed, maxlen + 1) for i in range(0, len(indexed), 2000)]
    for vs, n, nt in _pmap(_py_chunk, chunks):
        rep.evaluated(n)
        for idx in nt:
            rep.nontrivial(idx)
        for v in vs:
            rep.violation(v["clause"], v["sig"], v["what"], v["payload"])
    # a seeded sample through the whole Linter.render_string path (context from a FluffConfig)
    rnd = random.Random(seed)
    ctx = R.py_context(maxlen + 1)
    sample = rnd.sample(items, 400 if tier == "quick" else 3000)
    for rec in sample:
        for v in py_case(rec, " ", ctx, via_linter=True):
            rep.violation(v["clause"], v["sig"], v["what"], v["payload"])
        rep.evaluated()
    nvalid = sum(1 for r in items if r["valid"])
    rep.extra["python"] = {"scopes": [[a, n] for a, n in scopes], "strings": len(items), "valid": nvalid,
                           "invalid": len(items) - nvalid}
    rep.sample(next(r for r in items if r["valid"] and len(r["segs"]) >= 3))


# ------------------------------------------------------------------------------------- placeholder
def ph_case(rec: dict, other: str) -> List[dict]:
    st = rec["style"]
    text = R.ph_text(rec["s"], other)
    exp = [(g["t"], g["a"], g["b"], "".join(R.ph_token(t, other) for t in g["out"])) for g in rec["segs"]]
    want = "".join(e[3] for e in exp)
    kind, tf, info = R.real_placeholder(text, st)
    payload = {"part": "placeholder", "rec": rec, "other": other, "text": text}
    base = {"part": "placeholder", "style": st}
    vs = []
    if kind == "exc":
        vs.append(("PlaceholderNeverRaises", dict(base, exc=info["exc"], site=info["site"]),
                   f"style {st}: {text!r} raises {info['exc']} in {info['site']}: {info['msg']}"))
    elif kind == "tmp":
        vs.append(("PlaceholderNeverRaises", dict(base, exc="templater-violation"), f"style {st}: {text!r} gives violations"))
    elif tf.templated_str != want:
        nparams = sum(1 for e in exp if e[0] == "templated")
        vs.append(("ParametersReplaced", dict(base, params=min(nparams, 2)),
                   f"style {st}: {text!r} renders {tf.templated_str!r}; contract: {want!r} (segments {exp})"))
    else:
        # the slices must reproduce the rendering: non-empty slices = the contract's segments
        got = [(x.slice_type, x.source_slice.start, x.source_slice.stop, tf.templated_str[x.templated_slice])
               for x in tf.sliced_file if x.source_slice.start != x.source_slice.stop]
        raw_ok = "".join(r.raw for r in tf.raw_sliced) == text
        if got != exp or not raw_ok:
            vs.append(("SlicesReproduceRendering", dict(base),
                       f"style {st}: {text!r} slices {got} do not match the contract's segments {exp}"))
    return [{"clause": c, "sig": s, "what": w, "payload": payload} for c, s, w in vs]


def _ph_chunk(arg):
    recs, seed = arg
    out, n, nontriv = [], 0, []
    seen: Dict[str, int] = {}
    for idx, rec in recs:
        rnd = random.Random(seed * 1000003 + idx)
        other = rnd.choice(R.PH_OTHER[rec["style"]])
        out += _thin(ph_case(rec, other), seen)
        n += 1
        if any(g["t"] == "templated" for g in rec["segs"]):
            nontriv.append(f"ph{idx}")
    return out, n, nontriv


def run_placeholder(rep: Report, tier: str, seed: int, future) -> None:
    from sqlfluff.core.templaters.placeholder import KNOWN_STYLES

    if sorted(KNOWN_STYLES) != sorted(R.PH_STYLES):
        raise MachineryError(f"KNOWN_STYLES is {sorted(KNOWN_STYLES)}; Render.tla specifies {sorted(R.PH_STYLES)} — "
                             "add the new style's contract to spec/Render.tla")
    maxlen = 5 if tier == "quick" else 6
    m = future.result()
    expect_model_ok(m, "Render(ph): segments tile the source")
    rep.model(m, f"every string <= {maxlen}(+1) over each style's alphabet, 12 styles")
    recs = {(r["style"], tuple(r["s"])): r for r in m.records if "style" in r}
    if len(recs) != m.distinct - len(R.PH_STYLES):
        raise MachineryError(f"Render(ph) emitted {len(recs)} strings for {m.distinct} states")
    m.stdout, m.records = "", []
    items = sorted(recs.values(), key=lambda r: (r["style"], len(r["s"]), r["s"]))
    indexed = list(enumerate(items))
    chunks = [(indexed[i:i + 4000], seed) for i in range(0, len(indexed), 4000)]
    for vs, n, nt in _pmap(_ph_chunk, chunks):
        rep.evaluated(n)
        for k in nt:
            rep.nontrivial(k)
        for v in vs:
            rep.violation(v["clause"], v["sig"], v["what"], v["payload"])
    by_style: Dict[str, int] = {}
    for r in items:
        by_style[r["style"]] = by_style.get(r["style"], 0) + 1
    rep.extra["placeholder"] = {"maxlen": maxlen, "strings": len(items), "per_style": by_style}
    rep.sample(next(r for r in items if sum(1 for g in r["segs"] if g["t"] == "templated") >= 2))


# ------------------------------------------------------------------ python, code -> spec (longer sources)
LONG_PLAIN = {"a": "col_a", "tbl": "T1x", "col_1": "c_one", "s": "ess"}
LONG_DOTTED = {"a.b": "dotAB", "x.y.z": "xyz_v"}
LONG_LITS = ["SELECT ", "a.b", " FROM ", "t1", ", ", "x: y", "1.5", " -- hi!\n", "WHERE c = ", "'", " ", "\n", "é", "(", ")",
             "))", "((", "  ", "\n\n", "''", "aa", ")) ", "MAX("]
LONG_AFFIX = ["", "", ")", "(", " ", "\n", "'", "a", ".", "))", "  "]      # what a value may start / end with
LONG_VALID = [("{a}", ""), ("{tbl}", ""), ("{col_1}", ""), ("{s}", ""), ("{a!s}", "conv"), ("{a:s}", "spec"),
              ("{a:}", "emptyspec"), ("{a.b}", "dotted"), ("{x.y.z}", "dotted"), ("{a.b:s}", "dotted,spec"),
              ("{a.b!s}", "conv,dotconv,dotted"), ("{a.b:}", "dotted,emptyspec"), ("{{", "esc"), ("}}", "esc")]
LONG_INVALID = ["{", "}", "{}", "{0}", "{zz}", "{a b}", "{a!x}", "{a:zz}", "{a.}", "{q.r}", "{a!s", "{a:{a}}", "{a!}", "{ a}",
                "{a!s s}", "{.a}"]
_CLS = {"{": "LB", "}": "RB", ".": "DOT", ":": "COL", "!": "BANG"}


def _cls(ch: str) -> str:
    if ch in "[]":
        raise MachineryError("the format-string machine does not model '[' / ']'")
    return _CLS.get(ch) or ("N" if (ch.isalnum() and ch.isascii()) or ch == "_" else "O")


def gen_long(seed: int, n: int):
    """Seeded longer format strings: (text, shape tags as in Render!PyShape, has an invalid part, values)."""
    rnd = random.Random(seed ^ 0xC09)
    out, seen = [], set()
    while len(out) < n:
        k = rnd.randint(2, 8)
        parts, tags = [], set()
        for _ in range(k):
            r = rnd.random()
            if r < 0.4:
                lit = rnd.choice(LONG_LITS)
                parts.append(lit)
                if "." in lit:
                    tags.add("dotlit")
            else:
                tok, tg = rnd.choice(LONG_VALID)
                parts.append(tok)
                tags.update(x for x in tg.split(",") if x)
        bad = rnd.random() < 0.3
        if bad:
            parts.insert(rnd.randrange(len(parts) + 1), rnd.choice(LONG_INVALID))
        text = "".join(parts)
        # the values: the base ones, or (half of the cases) with a prefix / suffix that also occurs in the literals
        vals = dict(LONG_PLAIN, **LONG_DOTTED)
        if rnd.random() < 0.5:
            vals = {k2: rnd.choice(LONG_AFFIX) + v + rnd.choice(LONG_AFFIX) for k2, v in sorted(vals.items())}
            # a value that is a quoted Python literal would be un-quoted by the templater's infer_type: keep one quote
            vals = {k2: (v[1:] if v.startswith("'") and v.endswith("'") else v) for k2, v in vals.items()}
        if text in seen:
            continue
        seen.add(text)
        out.append((text, ",".join(sorted(tags)) or "plain", bad, vals))
    return out


def _cps(txt: str):
    return [ord(c) for c in txt]


def _long_chunk(arg):
    out = []
    for idx, (text, shape, bad, vals) in arg:
        ctx_real = {k: v for k, v in vals.items() if "." not in k}
        ctx_real["sqlfluff"] = {k: v for k, v in vals.items() if "." in k}
        flat = [{"name": _cps(k), "val": _cps(v)} for k, v in vals.items()]
        base = {"ev": "PyFormat", "cls": [_cls(c) for c in text], "chr": _cps(text), "ctx": flat}
        kind, rendered, info, _tf = R.real_python(text, ctx_real)
        ev = dict(base, outcome={"render": "render", "tmp": "tmp", "exc": "exc"}[kind],
                  out=_cps(rendered) if kind == "render" else [])
        ref, _referr = R.ref_format(text, ctx_real)
        twin = dict(base, outcome="render" if ref is not None else "tmp", out=_cps(ref) if ref is not None else [])
        out.append(({"id": f"py{idx}", "events": [ev]}, {"id": f"fx{idx}", "events": [twin]},
                    {"text": text, "shape": shape, "kind": kind, "info": info, "rendered": rendered, "ref": ref,
                     "vals": vals, "affixed": vals != dict(LONG_PLAIN, **LONG_DOTTED)}))
    return out


def run_long(rep: Report, tier: str, seed: int) -> None:
    from ..tlc import validate_traces
    from .c08 import TRACE_CONSTS

    cases = list(enumerate(gen_long(seed, 1500 if tier == "quick" else 12000)))
    chunks = [cases[i:i + 250] for i in range(0, len(cases), 250)]
    impl, twin, meta = [], [], {}
    for part in _pmap(_long_chunk, chunks):
        for a, b, mt in part:
            impl.append(a)
            twin.append(b)
            meta[a["id"]] = mt
    rep.evaluated(len(impl))
    tv = validate_traces("RenderTrace", twin, constants=TRACE_CONSTS, batch=20000)
    if tv.rejected:
        r = tv.rejected[0]
        raise MachineryError(f"Render.tla (py) disagrees with string.Formatter on {meta['py' + r['id'][2:]]['text']!r}: {r['clause']}")
    rep.extra["python_long"] = {"cases": len(impl), "formatter_twin_traces_accepted": tv.accepted}
    val = validate_traces("RenderTrace", impl, constants=TRACE_CONSTS, batch=20000)
    rep.validation(val, "RenderTrace")
    for r in val.rejected:
        mt = meta[r["id"]]
        sig = {"part": "python", "entry": "process", "shape": mt["shape"]}
        if mt["affixed"]:
            sig["values"] = "affixed"
        if mt["kind"] == "exc":
            sig.update(outcome="exception", exc=mt["info"]["exc"], site=mt["info"]["site"])
            if mt["info"]["exc"] == "SQLFluffSkipFile":
                sig["reason"] = _skip_reason(mt["info"]["msg"])
        elif mt["kind"] == "tmp":
            sig.update(outcome="templater-error")
        else:
            sig.update(outcome="wrong-text" if r["clause"] == "RenderedEqualsFormat" else "rendered")
        if r["clause"] == "InvalidGivesTemplaterError":
            sig.pop("shape")
        rep.violation(r["clause"], sig,
                      f"generated format string {mt['text']!r}: sqlfluff -> {mt['kind']} {mt['rendered']!r} {mt['info']}; "
                      f"str.format -> {mt['ref']!r}; RenderTrace rejects with {r['clause']}",
                      {"part": "python-long", "text": mt["text"], "shape": mt["shape"], "vals": mt["vals"]})
    for a in impl:
        mt = meta[a["id"]]
        if mt["text"].count("{") - 2 * mt["text"].count("{{") >= 2:
            rep.nontrivial("L" + mt["text"])
    rep.sample({"long_case": meta[impl[0]["id"]]["text"], "event": {k: v for k, v in impl[0]["events"][0].items() if k != "ctx"}})


# ------------------------------------------------------------------------------------------- entry
def run(tier: str, seed: int) -> int:
    rep = Report(PROP, tier, seed, "model_checking")
    py, ph = start_models(tier)
    run_python(rep, tier, seed, py)
    run_placeholder(rep, tier, seed, ph)
    run_long(rep, tier, seed)
    rep.exhaustive = True
    rep.rule = ("TLC enumerates every string up to the bound (python: 7 character classes; placeholder: each style's "
                "alphabet of 4-6 classes); python non-trivial = the string contains a brace, placeholder non-trivial = the "
                "contract finds at least one parameter; distinct by (style, string)")
    rep.trusted_base = ["concretisation of character classes (vf/render.py: PY_CHAR, PH_CHAR, choice of 'other')",
                        "replay contexts py_context / PH_VALUES mirror DefinedName / DefinedNames of Render.tla",
                        "builtin format(): str values accept exactly !s and the specs '' and 's' (cross-checked on every "
                        "string against string.Formatter)",
                        "site_of(): innermost sqlfluff frame of an escaping exception"]
    return rep.finish()


def replay(path, tier, seed):
    case = json.load(open(path))["case"]
    if case["part"] == "python-long":
        from ..tlc import validate_traces
        from .c08 import TRACE_CONSTS
        a, _b, mt = _long_chunk([(0, (case["text"], case["shape"], False, case.get("vals") or dict(LONG_PLAIN, **LONG_DOTTED)))])[0]
        val = validate_traces("RenderTrace", [a], constants=TRACE_CONSTS)
        if val.rejected:
            print(f"VIOLATION property={PROP} replay={path}")
            print(f"  clause={val.rejected[0]['clause']} {mt['text']!r} -> {mt['kind']} {mt['info']}")
            return 1
        print("replay: behaviour now satisfies the contract")
        return 0
    rec = case.get("rec")
    if case["part"] == "python":
        ctx = R.py_context(max(8, len(rec["s"])), case.get("vstyle", "plain"), case["other"])
        vs = py_case(rec, case["other"], ctx, via_linter=case.get("via_linter", False), vstyle=case.get("vstyle", "plain"))
    else:
        vs = ph_case(rec, case["other"])
    if vs:
        print(f"VIOLATION property={PROP} replay={path}")
        print("  " + vs[0]["what"])
        return 1
    print("replay: behaviour now satisfies the contract")
    return 0
