"""C31 — offset -> line/column conversion is exact.

Spec:   spec/LineCol.tla (contract + three transcribed algorithms), LineColEquiv.tla, LineColP.tla (TLAPS)
S->C:   every (string <= MaxLen over {newline, other}, offset) enumerated by TLC is replayed into the real
        TemplatedFile.get_line_pos_of_char_pos (source and templated side) and
        PositionMarker.infer_next_position; expected values are computed by the TLA+ contract.
C->S:   every get_line_pos_of_char_pos call made while linting corpus files is recorded at the function
        boundary and validated by LineColTrace.
"""
from __future__ import annotations

import os
import random
import shutil
import subprocess

from ..core import Report, expect_model_ok
from ..tlc import SPEC_DIR, MachineryError, cfg_text, run_tlc, scratch, validate_traces
from .. import sq

PROP = "C31"
OTHER = ["x", " ", "\r", "\t", "é", " ", "\U0001F600", "'", "-", "\x0b", "\x0c", "\x85"]


def concretise(flags, rnd):
    return "".join("\n" if f == 1 else rnd.choice(OTHER) for f in flags)


def check_case(rep: Report, text: str, p: int, want, side: str):
    from sqlfluff.core.templaters.base import RawFileSlice, TemplatedFile, TemplatedFileSlice

    if side == "source":
        tf = TemplatedFile(source_str=text, fname="<c31>")
        got = tf.get_line_pos_of_char_pos(p, source=True)
    else:
        src = "{{ x }}"
        tf = TemplatedFile(
            source_str=src, fname="<c31>", templated_str=text,
            sliced_file=[TemplatedFileSlice("templated", slice(0, len(src)), slice(0, len(text)))],
            raw_sliced=[RawFileSlice(src, "templated", 0)],
        )
        got = tf.get_line_pos_of_char_pos(p, source=False)
    rep.evaluated()
    if tuple(got) != tuple(want):
        rep.violation("BisectMatchesContract", {"fn": "get_line_pos_of_char_pos", "side": side,
                      "nl_before": text[:p].count("\n"), "at_nl": text[p:p + 1] == "\n"},
                      f"get_line_pos_of_char_pos({p}) on {text!r} ({side}) = {tuple(got)}, contract {tuple(want)}",
                      {"kind": "linecol", "text": text, "p": p, "side": side, "got": list(got), "want": list(want)})


def check_infer(rep: Report, raw: str, want):
    from sqlfluff.core.parser.markers import PositionMarker

    got = PositionMarker.infer_next_position(raw, 2, 3)
    rep.evaluated()
    if tuple(got) != tuple(want):
        rep.violation("InferMatchesScan", {"fn": "infer_next_position", "has_nl": "\n" in raw, "empty": raw == ""},
                      f"infer_next_position({raw!r}, 2, 3) = {tuple(got)}, contract {tuple(want)}",
                      {"kind": "infer", "raw": raw, "got": list(got), "want": list(want)})


def run(tier: str, seed: int) -> int:
    rep = Report(PROP, tier, seed, "model_checking")
    rnd = random.Random(seed)
    maxlen = 9 if tier == "quick" else 13
    invs = ["ScanMatchesContract", "BisectMatchesContract", "InferMatchesScan", "InferComposes", "ColInLine"]
    # 1. Algo => Contract, exhaustively, and emit every case
    m = run_tlc("LineCol", cfg_text(constants={"MaxLen": maxlen, "Emit": True}, invariants=invs), timeout=1500)
    expect_model_ok(m, "LineCol Algo => Contract")
    rep.model(m, f"all strings <= {maxlen} over {{NL, other}}: scan, bisect and infer_next_position vs contract")
    # 2. the relational contract used by the trace validator is the same contract
    e = run_tlc("LineColEquiv", cfg_text(constants={"MaxLen": 6 if tier == "quick" else 8, "Emit": False},
                                         invariants=["RelEquivContract"]), timeout=900)
    expect_model_ok(e, "relational contract == CLine/CCol")
    rep.model(e, "LineColTrace's relational contract is equivalent to CLine/CCol")
    # 3. S->C replay
    ncases = 0
    for rec in m.records:
        flags = rec["s"]
        text = concretise(flags, rnd)
        for p, want in enumerate(rec["pos"]):
            check_case(rep, text, p, want, "source")
            check_case(rep, text, p, want, "templated")
            check_infer(rep, text[:p], rec["infer"][p])
            ncases += 1
            if "\n" in text[:p] and p < len(text):
                rep.nontrivial(("".join(map(str, flags)), p))
        rep.sample({"flags": flags, "text": text, "expected_line_col_per_offset": rec["pos"][:4]})
    if len(m.records) != 2 ** (maxlen + 1) - 1:
        raise MachineryError(f"LineCol emitted {len(m.records)} strings, expected {2 ** (maxlen + 1) - 1}")
    rep.exhaustive = True
    # 4. C->S: record real calls during lint runs and validate them against the contract
    traces = record_real_calls(tier, seed, rep)
    val = validate_traces("LineColTrace", traces)
    rep.validation(val, "LineColTrace")
    by_id = {t["id"]: t for t in traces}
    for r in val.rejected:
        t = by_id[r["id"]]
        ev = t["events"][r["step"] - 1]
        rep.violation(r["clause"], {"fn": "get_line_pos_of_char_pos", "side": t["side"], "source": "lint-run"},
                      f"recorded call {ev} on {t['file']} ({t['side']}) rejected by LineColTrace: {r['clause']}",
                      {"kind": "trace", "trace": t, "verdict": r})
    # 5. TLAPS: inductive invariant of the scanning machine over an unbounded stream
    proof = run_tlapm()
    rep.extra["tlaps"] = proof
    rep.rule = ("TLC enumerates every string over {newline, other} up to MaxLen and every offset; a case is "
                "non-trivial when at least one newline precedes the offset and the offset is inside the text; "
                "distinct = distinct (string, offset)")
    rep.trusted_base = ["bisect_left(S,p) = #{k : S[k] < p} for sorted S (library contract)",
                        "concretisation of class 'other' to sample characters (harness)",
                        "recorder wrapper around TemplatedFile.get_line_pos_of_char_pos"]
    rep.extra["maxlen"] = maxlen
    return rep.finish()


def record_real_calls(tier, seed, rep):
    """Wrap get_line_pos_of_char_pos, lint a corpus sample, return one trace per (file, side)."""
    from sqlfluff.core.templaters.base import TemplatedFile

    calls = {}
    orig = TemplatedFile.get_line_pos_of_char_pos

    def wrapper(self, char_pos, source=True):
        out = orig(self, char_pos, source)
        text = self.source_str if source else self.templated_str
        key = (self.fname, text, source)   # keyed by content: object ids are reused after collection
        ent = calls.setdefault(key, {"text": text, "events": [], "fname": self.fname})
        if len(ent["events"]) < 400:
            ent["events"].append({"p": int(char_pos), "line": int(out[0]), "col": int(out[1])})
        return out

    TemplatedFile.get_line_pos_of_char_pos = wrapper
    try:
        n = 40 if tier == "quick" else 400
        files = sq.corpus_sample(n, seed, templated=True)
        for path, dialect, templater in files:
            sq.lint_text(sq.read(path), dialect=dialect, templater=templater, fname=path)
            rep.evaluated()
    finally:
        TemplatedFile.get_line_pos_of_char_pos = orig
    traces = []
    for k, ((_, _t, source), ent) in enumerate(sorted(calls.items(), key=lambda kv: (kv[0][0], kv[0][2], kv[0][1]))):
        lens = [len(x) for x in ent["text"].split("\n")]
        traces.append({"id": f"t{k}", "file": ent["fname"], "side": "source" if source else "templated",
                       "lens": lens, "events": ent["events"]})
    if not traces:
        raise MachineryError("C31 recorder saw no get_line_pos_of_char_pos call")
    return traces


def run_tlapm():
    d = scratch("tlapm")
    try:
        shutil.copy(os.path.join(SPEC_DIR, "LineColP.tla"), d)
        try:
            p = subprocess.run(["tlapm", "--cleanfp", "LineColP.tla"], cwd=d, capture_output=True, text=True, timeout=600)
        except (FileNotFoundError, subprocess.TimeoutExpired) as e:
            return {"status": f"not run: {e}"}
        out = p.stdout + p.stderr
        import re
        m = re.search(r"All (\d+) obligations? proved", out)
        if m:
            return {"status": "proved", "obligations": int(m.group(1)), "discharged": int(m.group(1)),
                    "checker_cmd": "tlapm --cleanfp spec/LineColP.tla"}
        raise MachineryError("tlapm did not discharge LineColP:\n" + out[-2000:])
    finally:
        shutil.rmtree(d, ignore_errors=True)


def replay(path, tier, seed):
    import json
    case = json.load(open(path))["case"]
    rep = Report(PROP, tier, seed, "model_checking")
    if case["kind"] == "linecol":
        check_case(rep, case["text"], case["p"], case["want"], case["side"])
    elif case["kind"] == "infer":
        check_infer(rep, case["raw"], case["want"])
    else:
        val = validate_traces("LineColTrace", [case["trace"]])
        for r in val.rejected:
            rep.violation(r["clause"], {"fn": "get_line_pos_of_char_pos"}, "recorded trace rejected again", case)
    for v in rep.violations:
        print("VIOLATION property=C31 replay=" + path)
        return 1
    print("replay: behaviour now satisfies the contract")
    return 0
