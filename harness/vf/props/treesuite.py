"""C02 / C03 — the parse-tree contract, decided on recorded parses by spec/TreeTrace.tla.

Spec:  spec/TreeTrace.tla (contract state machine, Mode C02 or C03), spec/TokSeq.tla (small-scope token
       sequences), spec/Skeleton.tla (Jinja skeletons), spec/MatchTree.tla (Algo of MatchResult.apply, C02)
S->C:  every word sequence <= n over a 16-word SQL vocabulary (TLC-enumerated) parsed in several dialects;
       every MatchTree case replayed into the real MatchResult.apply (C02).
C->S:  dialect fixtures (stratified over all dialects; thorough: all), templater fixtures, templated rule cases,
       Jinja skeletons, seeded token-level mutants (unparsable paths) — template + lex + parse under the recorder.
The two properties share one recording (cached per source tree, tier and seed).
"""
from __future__ import annotations

import json
import random
from typing import Any, Dict, List

from ..core import Report, expect_model_ok
from ..tlc import MachineryError, cfg_text, run_tlc, validate_traces
from .. import cache, lexrec, mutate, sq
from . import c01

VOCAB = ["SELECT", "FROM", "WHERE", "a", "b", "1", "'s'", "(", ")", ",", ";", "*", "=", "AND", "JOIN", "AS"]
C02_CLAUSES = {"NeverRaises_parse", "NoTreeWithoutPRS", "TreeKeepsUnmatchedCode", "UnparsableIffPRS", "LeafNotAToken", "TokenDropped", "LeafEqualsToken"}


def build_items(tier: str, seed: int, seqs: List[List[int]], skels: List[List[str]]):
    rnd = random.Random(seed)
    quick = tier == "quick"
    corpus = list(sq.dialect_corpus())
    chosen = sq.stratified(corpus, lambda x: x[1], 1000, seed) if quick else corpus
    items = [(sq.read(p), d, "jinja", p, f"c{i}", None) for i, (p, d) in enumerate(chosen)]
    items += [(sq.read(p), "ansi", "path", p, f"t{i}", None) for i, p in enumerate(sq.templater_fixtures())]
    for i, rc in enumerate(sq.rule_cases()):
        if "{" in rc["sql"] and (quick is False or i % 3 == seed % 3):
            core = (rc["configs"] or {}).get("core", {}) or {}
            tmpl = core.get("templater", "jinja")
            if tmpl not in ("jinja", "python", "placeholder", "raw"):
                continue
            cfgs = {k: v for k, v in (rc["configs"] or {}).items() if k in ("templater",)}
            items.append((rc["sql"], core.get("dialect", "ansi"), tmpl, f"<rule {rc['id']}>", f"r{i}", {"configs": cfgs} if cfgs else None))
    picks = sq.stratified(corpus, lambda x: x[1], 150 if quick else 2500, seed + 1)
    for i, (p, d) in enumerate(picks):
        for j, mtext in enumerate(mutate.mutants(sq.read(p), 2, rnd)):
            items.append((mtext, d, "jinja", f"<mutant of {p}>", f"x{i}.{j}", None))
    alld = list(sq.dialects())
    dl = ["ansi"] + [alld[(seed + k * 5) % len(alld)] for k in range(2 if quick else 5)]
    for d in dict.fromkeys(dl):
        for si, s in enumerate(seqs):
            items.append((" ".join(VOCAB[w - 1] for w in s) + "\n", d, "raw", f"<seq {si}>", f"q{d}.{si}", None))
    for i, fr in enumerate(skels):
        items.append((c01.skeleton_sql(fr), "ansi", "jinja", f"<skel {'.'.join(fr)}>", f"k{i}", {"configs": c01.SKEL_CTX}))
    return items


def sig_of(t: Dict[str, Any], r: Dict[str, Any]) -> Dict[str, Any]:
    inp = t["input"]
    sig = {"clause": r["clause"], "dialect": inp["dialect"]}
    ev = t["events"][r["step"] - 1] if r["step"] <= len(t["events"]) else {}
    if ev.get("ev") == "Parse":
        sig["has_unparsable"] = bool(ev.get("nunparsable"))
        if not ev.get("tree"):
            sig["prs_kinds"] = ",".join(ev.get("prs_kinds", []))
        sig["templated"] = not t["events"][0].get("untemplated", True)
        if r["clause"] in ("SpanIsHull", "ChildOrder", "NoNonCodeEnds") and r.get("at"):
            sig["node_type"] = ev["nodes"][r["at"] - 1][0]
        if r["clause"] in ("IndentBalanced", "IndentNeverNegative"):
            sig.update(balance_info(ev))
        kind = inp["fname"][1:].split(" ")[0] if inp["fname"].startswith("<") else "file"
        sig["input_kind"] = kind
        if kind == "file":
            sig["file"] = "/".join(inp["fname"].split("/")[-2:])
    elif ev.get("ev") == "Crash":
        sig["exc"] = ev.get("exc")
    return sig


def balance_info(ev: Dict[str, Any]) -> Dict[str, Any]:
    """Which nodes carry the imbalance: the minimal nodes whose own leaves do not balance, and whether each of
    them contains an unparsable section (a partial match that kept its Indent) or not (a grammar that lacks a Dedent)."""
    leaves, nodes = ev["leaves"], ev["nodes"]
    pre = [0]
    for l in leaves:
        pre.append(pre[-1] + l[8])
    unb = [(k, n) for k, n in enumerate(nodes) if pre[n[2] - 1] != pre[n[1] - 1]]
    # preorder: a descendant comes later and lies within the range
    minimal = [n for k, n in unb if not any(j > k and n[1] <= m[1] and m[2] <= n[2] for j, m in unb)]
    unp = [n for n in nodes if n[0] == "unparsable"]
    inside = [any(n[1] <= u[1] and u[2] <= n[2] for u in unp) for n in minimal]
    return {"unbalanced_nodes": ",".join(sorted({n[0] for n in minimal})),
            "all_contain_unparsable": bool(minimal) and all(inside)}


def run(prop: str, tier: str, seed: int) -> int:
    rep = Report(prop, tier, seed, "model_checking")
    quick = tier == "quick"
    nseq = 3 if quick else 4
    ts = run_tlc("TokSeq", cfg_text(constants={"NWords": len(VOCAB), "MaxLen": nseq}, invariants=["Bounded"]), timeout=3000, heap="8g")
    expect_model_ok(ts, "TokSeq")
    rep.model(ts, f"all word sequences <= {nseq} over a {len(VOCAB)}-word SQL vocabulary")
    if len(ts.records) != sum(len(VOCAB) ** k for k in range(1, nseq + 1)):
        raise MachineryError(f"TokSeq emitted {len(ts.records)} sequences")
    nfr = 3 if quick else 4
    sk = run_tlc("Skeleton", cfg_text(constants={"MaxFrags": nfr, "Emit": True}, invariants=["Balanced"]), timeout=3000, heap="8g")
    expect_model_ok(sk, "Skeleton")
    rep.model(sk, f"all balanced Jinja skeletons <= {nfr} fragments")
    rep.exhaustive = True
    if prop == "C02":
        from . import matchtree
        matchtree.run_into(rep, tier)
    items = build_items(tier, seed, ts.records, sk.records)
    for i, f in enumerate(rep.findings):
        w = f.get("witness")
        if w and "text" in w:
            items.append((w["text"], w.get("dialect", "ansi"), w.get("templater", "raw"), f"<witness {f['key']}>", f"w{i}", None))
        elif w and "file" in w:
            p = sq.FIX + "/dialects/" + w["file"]
            items.append((sq.read(p), w["file"].split("/")[0], "jinja", p, f"w{i}", None))
    traces = cache.cached("treesuite", [tier, seed, [i[4] for i in items[:50]], len(items)],
                          lambda: lexrec.record_many_parse(items))
    rep.evaluated(len(items))
    val = validate_traces("TreeTrace", [lexrec.strip_for_tlc(t) for t in traces], constants={"Mode": prop},
                          timeout=3000, batch=3000)
    rep.validation(val, f"TreeTrace[{prop}]")
    by = {t["id"]: t for t in traces}
    for r in val.rejected:
        t = by[r["id"]]
        inp = t["input"]
        rep.violation(r["clause"], sig_of(t, r),
                      f"{inp['fname']} dialect={inp['dialect']} templater={inp['templater']}: {r['clause']} at {r.get('at')}; "
                      f"input={inp['text'][:160]!r}", {"kind": "parse", "input": inp, "verdict": r})
    for t in traces:
        for ev in t["events"]:
            if ev.get("ev") == "Parse" and ev.get("tree"):
                if prop == "C02" and (ev["nunparsable"] or not t["events"][0].get("untemplated", True)):
                    rep.nontrivial(lexrec.digest(t["input"]))
                if prop == "C03" and any(l[8] != 0 for l in ev["leaves"]):
                    rep.nontrivial(lexrec.digest(t["input"]))
    ex = next((t for t in traces if len(t["events"]) > 1 and t["events"][1].get("nunparsable")), traces[0])
    rep.sample({"input": ex["input"]["text"][:200], "dialect": ex["input"]["dialect"],
                "nodes": [n[:3] for n in ex["events"][-1].get("nodes", [])[:8]]})
    rep.rule = ("inputs: TLC-enumerated word sequences x dialects, TLC-enumerated Jinja skeletons, dialect fixtures (all dialects), "
                "templater fixtures, templated rule cases, seeded mutants. non-trivial for C02 = the tree has an unparsable "
                "node or the file is templated; for C03 = the tree carries indent markers; distinct by input hash")
    rep.trusted_base = ["harness/vf/lexrec.py projections (leaf rows, node rows: ranges, spans, kinds)"]
    return rep.finish()


def replay(prop: str, path: str, tier: str, seed: int) -> int:
    case = json.load(open(path))["case"]
    if case.get("kind") == "matchtree":
        from . import matchtree
        return matchtree.replay(case, path)
    inp = case["input"]
    traces = lexrec.record_parse(inp["text"], inp["dialect"], inp["templater"], fname=inp["fname"], tid="replay",
                                 overrides=inp.get("overrides"))
    val = validate_traces("TreeTrace", [lexrec.strip_for_tlc(t) for t in traces], constants={"Mode": prop})
    if val.rejected:
        for r in val.rejected:
            print(f"  {r}")
        print(f"VIOLATION property={prop} replay={path}")
        return 1
    print("replay: behaviour now satisfies the contract")
    return 0
