"""C05 — no rule fails internally on any parse tree.

Spec:  spec/Pipeline.tla: Lint(internal) is enabled only with internal = FALSE ("Unexpected exception" violations
       are not behaviours) + spec/PipelineTrace.tla
C->S:  lint and fix runs are recorded for corpus files and seeded mutants (incl. partly unparsable files) under
       (a) all rules, (b) each rule group, (c) each rule alone with non-default values of its options (taken from the
       rules' own config_info), and validated against Pipeline; BaseRule.crawl converts internal errors into
       'Unexpected exception' violations, which the recorder reads from the returned violations.
"""
from __future__ import annotations

import json
import random
from typing import Any, Dict, List

from ..core import Report, expect_model_ok
from ..tlc import cfg_text, run_tlc, validate_traces
from .. import cache, mutate, piperec, sq

PROP = "C05"


def rule_option_variants() -> List[dict]:
    """One override dict per (rule, option, non-default value) from the live rule registry."""
    from sqlfluff.core.rules import get_ruleset
    from sqlfluff.core.rules.config_info import get_config_info

    info = get_config_info()
    out = []
    for code, man in sorted(get_ruleset()._register.items()):
        cls = man.rule_class
        for kw in getattr(cls, "config_keywords", []) or []:
            vals = (info.get(kw) or {}).get("validation")
            if not vals:
                continue
            for v in list(vals)[:4]:
                out.append({"rules": code, "configs": {"rules": {cls.get_config_ref(): {kw: v}}}, "_label": f"{code}:{kw}={v}"})
    return out


def build_items(tier: str, seed: int):
    rnd = random.Random(seed)
    quick = tier == "quick"
    corpus = list(sq.dialect_corpus())
    texts = [(sq.read(p), d, p) for p, d in sq.stratified(corpus, lambda x: x[1], 84 if quick else 700, seed)]
    muts = []
    for p, d in sq.stratified(corpus, lambda x: x[1], 84 if quick else 700, seed + 11):
        for m in mutate.mutants(sq.read(p), 1, rnd):
            muts.append((m, d, f"<mutant of {p}>"))
    items = []
    groups = ["core", "aliasing", "ambiguous", "capitalisation", "convention", "jinja", "layout", "references", "structure"]
    for i, (text, d, name) in enumerate(texts + muts):
        mode = "fix" if i % 2 else "lint"
        items.append((text, d, "jinja", mode, name, f"a{i}", None))                      # all rules
        g = groups[i % len(groups)]
        items.append((text, d, "jinja", "fix" if mode == "lint" else "lint", name, f"g{i}", {"rules": g}))
    variants = rule_option_variants()
    rnd.shuffle(variants)
    pool = texts + muts
    for i, ov in enumerate(variants[: (250 if quick else len(variants))]):
        for j in range(2 if quick else 6):
            text, d, name = pool[(i * 7 + j * 13) % len(pool)]
            o = {k: v for k, v in ov.items() if k != "_label"}
            items.append((text, d, "jinja", "fix" if j % 2 else "lint", f"{name} [{ov['_label']}]", f"o{i}.{j}", o))
    return items


def _variant_batch(item):
    """One rule-option variant x every small word sequence (spec/TokSeq.tla), lint and fix alternating."""
    k, ov, texts = item
    o = {kk: v for kk, v in ov.items() if kk != "_label"}
    out = []
    for j, text in enumerate(texts):
        t = piperec.run_entry(text, "ansi", "raw", "fix" if j % 2 else "lint", fname=f"<seq {j}> [{ov['_label']}]", tid=f"v{k}.{j}", overrides=o)
        # keep the recording small: only runs in which a rule reported something are non-trivial for C05
        out.append(t)
    return out


def run(tier: str, seed: int) -> int:
    rep = Report(PROP, tier, seed, "exploration")
    piperec.check_seams()
    quick = tier == "quick"
    pm = run_tlc("Pipeline", cfg_text(spec="PSpec", invariants=["TypeOK", "NoLintInParseMode"]), timeout=600)
    expect_model_ok(pm, "Pipeline lifecycle")
    rep.model(pm, "per-file lifecycle state machine (bounded)")
    from .treesuite import VOCAB
    ts = run_tlc("TokSeq", cfg_text(constants={"NWords": len(VOCAB), "MaxLen": 2 if quick else 3}, invariants=["Bounded"]), timeout=1800)
    expect_model_ok(ts, "TokSeq")
    rep.model(ts, "small-scope word sequences for the per-option runs")
    seq_texts = [" ".join(VOCAB[w - 1] for w in s_) + "\n" for s_ in ts.records if len(s_) <= 2]
    seq_texts += ["\n".join(VOCAB[w - 1] for w in s_) + "\n" for s_ in ts.records if len(s_) == 2]      # one word per line
    if not quick:
        seq_texts += [" ".join(VOCAB[w - 1] for w in s_) + "\n" for s_ in ts.records if len(s_) == 3][seed % 7::7]
    variants = rule_option_variants() + [{"rules": "all", "_label": "all-rules"}]
    items = build_items(tier, seed)

    def record():
        out = piperec.run_many(items)
        from ..par import pmap
        for chunk in pmap(_variant_batch, [(k, ov, seq_texts) for k, ov in enumerate(variants)], chunksize=1):
            out.extend(chunk)
        return out

    traces = cache.cached("pipe-c05", [tier, seed, len(items), len(variants), len(seq_texts)], record)
    rep.evaluated(len(traces))
    val = validate_traces("PipelineTrace", [piperec.strip_for_tlc(t) for t in traces], timeout=1800, batch=5000)
    rep.validation(val, "PipelineTrace")
    by = {t["id"]: t for t in traces}
    for r in val.rejected:
        if r["clause"] != "NoInternalRuleError":
            continue                                   # crashes and stage order are C04's subject
        t = by[r["id"]]
        inp = t["input"]
        ev = t["events"][r["step"] - 1]
        rules = ",".join(ev.get("internal_rules", []))
        rep.violation(r["clause"], {"clause": r["clause"], "rules": rules, "dialect": inp["dialect"]},
                      f"{inp['mode']} of {inp['fname']} dialect={inp['dialect']} overrides={inp['overrides']}: rule(s) {rules} reported "
                      f"'Unexpected exception'; input={inp['text'][:120]!r}", {"kind": "pipe", "input": inp, "verdict": r})
    for t in traces:
        if any(e["ev"] == "Lint" and e["nviol"] for e in t["events"]):
            rep.nontrivial(t["id"])
    ex = next((t for t in traces if t["input"]["overrides"]), traces[0])
    rep.sample({"mode": ex["mode"], "overrides": ex["input"]["overrides"], "input": ex["input"]["text"][:120], "events": ex["events"][:5]})
    rep.extra["option_variants"] = len(variants)
    rep.extra["small_sequences_per_variant"] = len(seq_texts)
    rep.rule = ("lint/fix runs over corpus files and mutants x {all rules, one rule group, one rule with a non-default option value}, and every "
                "rule-option variant x every TLC-enumerated word sequence <= 2 (same line and one word per line); "
                "non-trivial = at least one rule reported a violation (its evaluation and fix code ran); distinct by run id")
    rep.trusted_base = ["harness/vf/piperec.py wrappers; 'Unexpected exception' prefix as written by BaseRule.crawl"]
    return rep.finish()


def replay(path, tier, seed):
    case = json.load(open(path))["case"]
    inp = case["input"]
    t = piperec.run_entry(inp["text"], inp["dialect"], inp["templater"], inp["mode"], fname=inp["fname"], tid="replay", overrides=inp.get("overrides"))
    val = validate_traces("PipelineTrace", [piperec.strip_for_tlc(t)])
    bad = [r for r in val.rejected if r["clause"] == "NoInternalRuleError"]
    if bad:
        print(bad)
        print(f"VIOLATION property={PROP} replay={path}")
        return 1
    print("replay: behaviour now satisfies the contract")
    return 0
