"""C16 — fixes preserve query results (SQLite as the execution oracle; exploration level).

Spec:  spec/SemContract.tla (step-wise contract: an adopted fix batch of `rule` must leave the result multiset
       unchanged unless rule is ST06 / CV05; the output is the last adopted version), spec/SemTrace.tla.
C->S:  vf.semgen generates executable SQLite queries over a fixed 3-table schema (joins incl. USING / NATURAL /
       LEFT, CTEs, UNION [ALL], subqueries, aliases with/without AS, CASE, IS NULL / = NULL, DISTINCT, GROUP BY /
       HAVING, ORDER BY / LIMIT only with a total order, implicit / explicit column references, redundant brackets,
       SELECT *, count(*) / count(1) / count(0), coalesce / ifnull, <> / !=) in varying spellings; each is fixed by
       the real linter (dialect sqlite, all rules except ST06 and CV05) with recorders around `apply_fixes` (as
       imported into core/linter/linter.py) and Linter.lint_fix_parsed; the original, every adopted version and the
       output are executed on three data sets (NULLs, duplicates) with python's sqlite3; SemTrace validates.
"""
from __future__ import annotations

import json
import re

from ..core import Report, expect_model_ok
from ..par import pmap
from ..tlc import MachineryError, cfg_text, run_tlc, validate_traces
from .. import semgen

PROP = "C16"
CONSTS = {"Rules": set(), "RowIds": set()}


FEATURES = [("using", r"\busing\b"), ("natural", r"\bnatural\b"), ("star", r"select\s+(distinct\s+)?(\w+\.)?\*"),
            ("order_by_position", r"order by\s+\d"), ("nested_case", r"else\s+case")]


def features(sql: str) -> dict:
    """Coarse construct flags of the text a fix batch was applied to (signature attributes)."""
    return {tag: bool(re.search(pat, sql.lower())) for tag, pat in FEATURES}


def norm_error(msg: str) -> str:
    """SQLite's message with names and numbers abstracted: 'no such column: t2.1' -> 'no such column: Q.N'."""
    msg = msg.split(": ", 2)[-1] if msg.startswith("error: ") else msg
    msg = re.sub(r"\b[A-Za-z_]\w*\.", "Q.", msg)
    return re.sub(r"\d+", "N", msg)


def judge(rep: Report, traces: list) -> None:
    todo = [t for t in traces if "skip" not in t]
    if not todo:
        raise MachineryError("C16 recorded no fix run")
    val = validate_traces("SemTrace", [{"id": t["id"], "events": t["events"]} for t in todo], constants=CONSTS)
    rep.validation(val, "SemTrace")
    by = {t["id"]: t for t in todo}
    for r in val.rejected:
        t = by[r["id"]]
        ev = t["events"][r["step"] - 1]
        who, text, err = t["texts"][r["step"] - 1]
        final_same = t["events"][-1]["rows"] == t["events"][0]["rows"]
        prev = t["texts"][r["step"] - 2][1] if r["step"] >= 2 else t["sql"]
        sig = {"rule": ev.get("rule", who), "output_preserved": final_same, "error": norm_error(err)}
        sig.update(features(prev))
        rep.violation(r["clause"], sig,
                      f"rule {ev.get('rule', who)}: {prev!r} -> {text!r}; result ids {t['events'][r['step'] - 2]['rows'] if r['step'] >= 2 else None}"
                      f" -> {ev['rows']} (-1 = does not execute{': ' + err if err else ''}); original query {t['sql']!r}; final output "
                      f"{'returns the original rows' if final_same else 'differs too: ' + repr(t['texts'][-1][1])}",
                      {"kind": "query", "sql": t["sql"], "id": t["id"]})
    for t in todo:
        if t["napplied"] >= 1:
            rep.nontrivial(t["sql"])


def run(tier: str, seed: int) -> int:
    rep = Report(PROP, tier, seed, "exploration")
    m = run_tlc("SemContract", cfg_text(spec="CSpec", constants={"Rules": {"ST06", "CV05", "LT01", "ST07"}, "RowIds": {1, 2}},
                                        invariants=["ResultsPreserved"]), timeout=600, workers=2)
    expect_model_ok(m, "step constraint implies ResultsPreserved")
    rep.model(m, "SemContract: per-batch constraint => results preserved unless ST06/CV05 ran")
    n = 300 if tier == "quick" else 5000
    qs = semgen.generate(seed, n)
    if len(qs) < n // 2:
        raise MachineryError(f"query generator produced only {len(qs)} executable queries of {n}")
    traces = pmap(semgen.record, [(f"q{i}", q) for i, q in enumerate(qs)], chunksize=4)
    rep.evaluated(len(traces))
    skipped = [t for t in traces if "skip" in t]
    rep.extra["queries"] = len(qs)
    rep.extra["skipped"] = len(skipped)
    rep.extra["skip_reasons"] = sorted({t["skip"][:80] for t in skipped})[:8]
    rep.extra["adopted_batches"] = sum(t.get("napplied", 0) for t in traces)
    rules = {}
    for t in traces:
        for e in t.get("events", []):
            if e["ev"] == "Apply":
                rules[e["rule"]] = rules.get(e["rule"], 0) + 1
    rep.extra["adopted_by_rule"] = dict(sorted(rules.items()))
    if len(skipped) > len(traces) // 2:
        raise MachineryError(f"{len(skipped)} of {len(traces)} generated queries were skipped: {rep.extra['skip_reasons']}")
    judge(rep, traces)
    ok = next((t for t in traces if t.get("napplied", 0) >= 2), None)
    if ok:
        rep.sample({"sql": ok["sql"], "events": ok["events"], "versions": [x[0] for x in ok["texts"]]})
    rep.rule = ("one case per generated query that executes on all three data sets and that sqlfluff parses; non-trivial = "
                "at least one fix batch was adopted; distinct by query text")
    rep.trusted_base = ["python sqlite3 as the execution oracle (3 fixed data sets with NULLs and duplicate rows)",
                        "semgen.record: adoption read off object identity between apply_fixes results and later inputs / "
                        "the tree returned by lint_fix_parsed", "result interning (repr of the sorted row list)"]
    rep.assumptions = ["column names are not part of the compared result", "queries sqlfluff cannot parse are dropped"]
    return rep.finish()


def replay(path, tier, seed):
    case = json.load(open(path))["case"]
    rep = Report(PROP, tier, seed, "exploration")
    judge(rep, [semgen.record((case["id"], case["sql"]))])
    if rep.violations:
        print(f"VIOLATION property={PROP} replay={path}")
        for v in rep.violations[:3]:
            print(f"  clause={v['clause']} {v['what'][:400]}")
        return 1
    print("replay: behaviour now satisfies the contract")
    return 0
