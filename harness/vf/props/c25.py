"""C25 — file discovery honours ignore files regardless of path spelling.

Spec:  spec/Discovery.tla (contract MustSelect/MaySelect/SpellingInvariant + transcription of paths_from_path:
       outer specs, exact-file path, os.walk with inner-spec pruning keyed on the path spelling, the
       `<subdir>/*` pruning hack).  pathspec verdicts are supplied to the model as tables.
S->C:  TLC enumerates every world (tree shape x ignore-file placement x kind x pattern set) of a suite and, per
       world, every query (cwd x target dir / exact file x extensions) with the contract's Must/May sets and
       the transcription's predicted results.  Every world is materialised in a fresh temp dir, every spelling
       of every query is run through the real paths_from_path (chdir as the query says, cwd restored), the
       normalised result is compared with the sets carried in the record, and the spellings with each other.
"""
from __future__ import annotations

import json
import os
import shutil
import tempfile

from ..core import Report, expect_model_ok
from ..tlc import MachineryError, cfg_text, run_tlc, scratch
from ..par import pmap

PROP = "C25"
NAMES = ("a", "ab")
FILES = ("x.sql", "n.txt", "U.SQL")
KINDS = (".sqlfluffignore", ".sqlfluff", "pyproject.toml")

# pattern sets (gitignore lines, relative to the directory holding the ignore file)
PATTERNS = {
    "base": ["x.sql"],                 # basename, any depth below
    "anch": ["/x.sql"],                # only in the ignore file's own directory
    "dir": ["ab/"],                    # a directory anywhere below -> pruned
    "sub": ["ab/x.sql"],               # anchored one level down
    "deep": ["a/ab/x.sql"],            # anchored two levels down
    "glob": ["a*/*.sql"],              # glob in directory and file name, one level down
    "txt": ["*.txt"],                  # interplay with the configured extensions
    "all": ["*"],                      # everything
    "keep1": ["ab/*", "!ab/x.sql"],    # "everything in ab except x.sql": ab itself is not excluded
    "neg": ["*", "!*.sql"],            # directories excluded, files re-included (May range)
}


def _spec(lines):
    import pathspec

    return pathspec.PathSpec.from_lines("gitignore", lines)   # the call discovery._load_specs_from_lines makes


def _dirs(maxdepth):
    out, level = [()], [()]
    for _ in range(maxdepth):
        level = [d + (n,) for d in level for n in NAMES]
        out += level
    return out


def match_tables(pats, maxdepth):
    """pathspec's verdicts for every (pattern set, relative path) of the scope (trusted: pathspec)."""
    tab = {"file": [], "dir": [], "star": []}
    for p in sorted(pats):
        spec = _spec(PATTERNS[p])
        for d in _dirs(maxdepth):
            for f in FILES:
                if spec.match_file("/".join(d + (f,))):
                    tab["file"].append([p, list(d) + [f]])
            if d:
                if spec.match_file("/".join(d) + "/"):
                    tab["dir"].append([p, list(d)])
                if spec.match_file("/".join(d) + "/*"):
                    tab["star"].append([p, list(d)])
    return tab


def ignore_text(kind, pat):
    lines = PATTERNS[pat]
    if kind == ".sqlfluffignore":
        return "\n".join(lines) + "\n"
    if kind == ".sqlfluff":
        return "[sqlfluff]\nignore_paths = " + ",".join(lines) + "\n"
    return "[tool.sqlfluff.core]\nignore_paths = [" + ", ".join(json.dumps(x) for x in lines) + "]\n"


def materialise(world, base):
    root = tempfile.mkdtemp(prefix="w", dir=base)
    for d in sorted(world["tree"]):
        p = os.path.join(root, d)
        os.makedirs(p, exist_ok=True)
        for f in FILES:
            with open(os.path.join(p, f), "w") as fh:
                fh.write("SELECT 1\n")
    for g in world["ign"]:
        with open(os.path.join(root, g["dir"], g["kind"]), "w") as fh:
            fh.write(ignore_text(g["kind"], g["pat"]))
    return root


def spell(sp, root, cwd, target):
    """target and cwd are root-relative ('' = root)."""
    if sp == "abs":
        return os.path.join(root, target) if target else root
    if sp == "dot":
        return "."
    rel = os.path.relpath(os.path.join(root, target), os.path.join(root, cwd))
    return rel if sp == "rel" else "./" + rel


def run_query(root, q, sp):
    from sqlfluff.core.linter.discovery import paths_from_path

    target = "/".join(x for x in (q["dir"], q["name"]) if x)
    here = os.getcwd()
    wd = os.path.join(root, q["cwd"]) if q["cwd"] else root
    os.chdir(wd)
    try:
        arg = spell(sp, root, q["cwd"], target)
        got = paths_from_path(arg, working_path=os.getcwd(), target_file_exts=tuple(sorted(q["exts"])))
        return arg, sorted(os.path.relpath(os.path.abspath(p), root) for p in got)
    finally:
        os.chdir(here)


def _entries_for(world, f):
    """Ignore entries in an ancestor-or-self directory of file f (root-relative strings)."""
    fdir = os.path.dirname(f)
    out = []
    for g in world["ign"]:
        if g["dir"] == "" or fdir == g["dir"] or fdir.startswith(g["dir"] + "/"):
            out.append(g)
    return out


def _rel(path, base):
    return path if base == "" else path[len(base) + 1:]


def cause(world, q, f, direction):
    """Signature attributes of one wrongly listed (surplus) / wrongly dropped (missing) file.

    Classification only (the verdict is the contract's): which ignore entry is involved, where it sits relative
    to the walked path and to the file, and whether the `<dir>/*` pruning pseudo path is what matched.
    """
    target_dir = q["dir"]
    for g in _entries_for(world, f):
        rel = _rel(f, g["dir"])
        spec = _spec(PATTERNS[g["pat"]])
        inner = g["dir"] != target_dir and (target_dir == "" or g["dir"].startswith(target_dir + "/"))
        deeper = os.path.dirname(rel) != ""
        if direction == "surplus" and spec.match_file(rel):
            return {"ign_pos": "inner" if inner else "outer-or-root", "file_below_ign": "deeper" if deeper else "same-dir",
                    "negation": any(x.startswith("!") for x in PATTERNS[g["pat"]])}
        if direction == "missing":
            parts = rel.split("/")[:-1]
            star = any(spec.match_file("/".join(parts[:k]) + "/*") for k in range(1, len(parts) + 1))
            dirx = any(spec.match_file("/".join(parts[:k]) + "/") for k in range(1, len(parts) + 1))
            if star and not dirx and not spec.match_file(rel):
                return {"cause": "star-prune", "negation": any(x.startswith("!") for x in PATTERNS[g["pat"]]),
                        "ign_pos": "inner" if inner else "outer-or-root"}
    return {"cause": "unexplained"}


def check_world(world):
    """Worker: materialise, run every spelling of every query, compare with the carried contract sets."""
    from sqlfluff.core.config.file import load_config_file_as_dict

    import logging

    logging.getLogger("sqlfluff.linter").setLevel(logging.ERROR)    # "Exact file path ... was ignored" warnings
    base = os.environ["VF_C25_SCRATCH"]
    root = materialise(world, base)
    out = {"n": 0, "viol": [], "drift": [], "nontrivial": []}
    try:
        for q in world["qs"]:
            must = set(q["must"])
            may = must | set(q["extra"])
            results = {}
            for sp in sorted(q["sp"]):
                arg, got = run_query(root, q, sp)
                out["n"] += 1
                results[sp] = got
                gs = set(got)
                pred = ((may - set(q["aad"])) | set(q["aax"])) if sp == "abs" else ((may - set(q["ard"])) | set(q["arx"]))
                if gs != pred and len(out["drift"]) < 3:
                    out["drift"].append(f"paths_from_path({arg!r}) cwd=<root>/{q['cwd']}: code lists {sorted(gs - pred)} which the "
                                        f"transcription does not, transcription lists {sorted(pred - gs)} which the code does "
                                        f"not; ignore files {world['ign']}")
                spc = "absolute" if sp == "abs" else "non-absolute"
                kind = "file" if q["name"] else "dir"
                for clause, direction, files in (("NotIgnoredSelected", "missing", sorted(must - gs)),
                                                 ("IgnoredExcluded", "surplus", sorted(gs - may))):
                    if files:
                        sig = {"clause": clause, "spelling": spc, "target": kind, **cause(world, q, files[0], direction)}
                        out["viol"].append({"clause": clause, "sig": sig, "sp": sp, "arg": arg, "q": q, "got": got,
                                            "files": files})
            if len({tuple(v) for v in results.values()}) > 1:
                ref = set(results["abs"])
                other = next(sp for sp in sorted(results) if set(results[sp]) != ref)
                os_ = set(results[other])
                if os_ - ref:
                    c = cause(world, q, sorted(os_ - ref)[0], "surplus")
                else:
                    c = cause(world, q, sorted(ref - os_)[0], "missing")
                sig = {"clause": "SpellingInvariant", "spelling": "non-absolute", "target": "file" if q["name"] else "dir", **c}
                out["viol"].append({"clause": "SpellingInvariant", "sig": sig, "sp": other, "arg": None, "q": q,
                                    "got": results, "files": sorted(os_ ^ ref)})
            # non-trivial: a directory walk in which an ignore file applicable to some file under the path
            # decides the result (some file with a matching extension is ignored or may be ignored)
            if q["name"] == "" and world["ign"]:
                out["nontrivial"].append(len(q["must"]))
    finally:
        shutil.rmtree(root, ignore_errors=True)
        load_config_file_as_dict.cache_clear()
    return out


ALLPATS = set(PATTERNS)
SQL = frozenset({".sql"})
SQLTXT = frozenset({".sql", ".txt"})
UPPER = frozenset({".SQL"})
SUITES = {
    "quick": [
        ("placement", dict(MaxDepth=3, MaxIgn=1, Kinds={".sqlfluffignore"}, AllShapes=False, Pats=ALLPATS,
                           ExtChoices={SQL, SQLTXT}, CwdNames={"", "a"}),
         "complete tree of depth 3 (15 directories), one .sqlfluffignore at every directory x all 10 pattern sets"),
        ("kinds", dict(MaxDepth=2, MaxIgn=2, Kinds=set(KINDS), AllShapes=False, Pats={"base", "sub"},
                       ExtChoices={SQL}, CwdNames={"", "a"}),
         "complete tree of depth 2, up to two ignore files of every kind at every pair of places x 2 pattern sets"),
        ("shapes", dict(MaxDepth=2, MaxIgn=1, Kinds={".sqlfluffignore"}, AllShapes=True,
                        Pats={"base", "dir", "sub", "keep1"}, ExtChoices={SQL, UPPER}, CwdNames={"", "a", "ab"}),
         "all 25 tree shapes of depth 2, one ignore file, three working directories"),
    ],
    "thorough": [
        ("placement", dict(MaxDepth=3, MaxIgn=1, Kinds=set(KINDS), AllShapes=False, Pats=ALLPATS,
                           ExtChoices={SQL, SQLTXT}, CwdNames={"", "a"}),
         "complete tree of depth 3, one ignore file of every kind at every directory x all 10 pattern sets"),
        ("pairs3", dict(MaxDepth=3, MaxIgn=2, Kinds={".sqlfluffignore"}, AllShapes=False,
                        Pats={"base", "sub", "keep1"}, ExtChoices={SQL}, CwdNames={"", "a"}),
         "complete tree of depth 3, up to two .sqlfluffignore files at every pair of directories x 3 pattern sets"),
        ("kinds", dict(MaxDepth=2, MaxIgn=2, Kinds=set(KINDS), AllShapes=False, Pats={"base", "sub", "neg"},
                       ExtChoices={SQL, UPPER}, CwdNames={"", "a", "ab"}),
         "complete tree of depth 2, up to two ignore files of every kind x 3 pattern sets, three working directories"),
        ("shapes", dict(MaxDepth=3, MaxIgn=1, Kinds={".sqlfluffignore"}, AllShapes=True,
                        Pats={"base"}, ExtChoices={SQL}, CwdNames={""}),
         "all 676 tree shapes of depth 3, one ignore file, pattern set `x.sql`"),
    ],
}
# The transcription follows the code under test: since commit 3c3752e ("fix: ignore files inside a walked directory are
# dropped for relative paths") the retention test compares absolute with absolute.  VF_C25_PREFIX=1 selects the
# pre-fix transcription (only affects DRIFT reporting, e.g. when checking an older tree with VF_REPO).
TRANSCRIPTION_FIXED = not os.environ.get("VF_C25_PREFIX")
MODEL_SCOPE = dict(MaxDepth=3, MaxIgn=1, Kinds={".sqlfluffignore"}, AllShapes=False,
                   ExtChoices={SQL, SQLTXT}, CwdNames={"", "a"})


def _tlc(consts, tab_path, **kw):
    return run_tlc("Discovery", cfg_text(constants=consts, **{k: v for k, v in kw.items() if k in ("invariants",)}),
                   env={"VF_MATCH": tab_path}, timeout=kw.get("timeout", 1500), heap="8g", workers=4,
                   expect_violation=kw.get("expect_violation", False))


def entry_check(rep, worlds, base):
    """The same queries through the default `working_path` (evaluated at import time = the process's cwd, as
    when the CLI is started in that directory): one python subprocess per (world, cwd)."""
    import subprocess
    import sys

    prog = ("import json,os,sys\n"
            "from sqlfluff.core.linter.discovery import paths_from_path\n"
            "root=sys.argv[1]\n"
            "for arg,exts in json.loads(sys.argv[2]):\n"
            "    print(json.dumps(sorted(os.path.relpath(os.path.abspath(p),root) for p in paths_from_path(arg,target_file_exts=tuple(exts)))))\n")
    n = 0
    for world in worlds:
        root = materialise(world, base)
        try:
            for cwd in sorted({q["cwd"] for q in world["qs"]}):
                jobs = []
                for q in world["qs"]:
                    if q["cwd"] != cwd:
                        continue
                    target = "/".join(x for x in (q["dir"], q["name"]) if x)
                    for sp in sorted(q["sp"]):
                        jobs.append((q, sp, spell(sp, root, cwd, target)))
                p = subprocess.run([sys.executable, "-c", prog, root, json.dumps([[a, sorted(q["exts"])] for q, _s, a in jobs])],
                                   cwd=os.path.join(root, cwd), capture_output=True, text=True, timeout=300,
                                   env={**os.environ, "PYTHONPATH": os.pathsep.join(sys.path)})
                lines = p.stdout.splitlines()
                if p.returncode != 0 or len(lines) != len(jobs):
                    raise MachineryError(f"entry-point subprocess failed: {p.stderr[-1500:]}")
                for (q, sp, arg), line in zip(jobs, lines):
                    got = set(json.loads(line))
                    must = set(q["must"])
                    may = must | set(q["extra"])
                    n += 1
                    rep.evaluated()
                    spc = "absolute" if sp == "abs" else "non-absolute"
                    for clause, direction, files in (("NotIgnoredSelected", "missing", sorted(must - got)),
                                                     ("IgnoredExcluded", "surplus", sorted(got - may))):
                        if files:
                            sig = {"clause": clause, "spelling": spc, "target": "file" if q["name"] else "dir",
                                   **cause(world, q, files[0], direction)}
                            report(rep, world, {"clause": clause, "sig": sig, "sp": sp, "arg": arg, "q": q,
                                                "got": sorted(got), "files": files}, via="default working_path (subprocess)")
        finally:
            shutil.rmtree(root, ignore_errors=True)
    return n


def report(rep, world, v, via="paths_from_path(working_path=cwd)"):
    q = v["q"]
    target = "/".join(x for x in (q["dir"], q["name"]) if x) or "<root>"
    ign = "; ".join(f"{g['dir'] or '<root>'}/{g['kind']}={PATTERNS[g['pat']]}" for g in world["ign"])
    how = {"NotIgnoredSelected": "not listed although no applicable ignore file matches",
           "IgnoredExcluded": "listed although an applicable ignore file matches (or outside path/extensions)",
           "SpellingInvariant": "listed under one spelling of the path and not under another"}[v["clause"]]
    what = (f"{via}: cwd=<root>/{q['cwd']} path={v['arg'] or v['sp']!r} (target {target}, spelling {v['sp']}, "
            f"exts {q['exts']}): {v['files']} {how}; ignore files: {ign}; each directory holds {list(FILES)}")
    rep.violation(v["clause"], v["sig"], what,
                  {"world": {"tree": world["tree"], "ign": world["ign"]}, "q": q, "sp": v["sp"], "clause": v["clause"]})


def run(tier: str, seed: int) -> int:
    import random

    rep = Report(PROP, tier, seed, "model_checking")
    rnd = random.Random(seed)
    base = scratch("c25")
    os.environ["VF_C25_SCRATCH"] = base
    tabfile = os.path.join(base, "match.json")
    try:
        # 1. the model.  The code under test carries the repair of F1 (commit 3c3752e: os.path.abspath(dirname) in the
        #    retention test), so the transcription as written is FixInnerKeep = TRUE and must refine the contract;
        #    the pre-fix retention test (FixInnerKeep = FALSE) is kept as a regression model: TLC must still find F1 in it.
        plain = ALLPATS - {"keep1"}
        with open(tabfile, "w") as fh:
            json.dump(match_tables(ALLPATS, 3), fh)
        m = _tlc(dict(MODEL_SCOPE, Pats=plain, FixInnerKeep=True), tabfile,
                 invariants=["ContractConsistent", "AbsoluteWithinContract", "RelativeWithinContract", "AlgoSpellingInvariant"])
        expect_model_ok(m, "Discovery Algo (absolute retention test) => Contract")
        rep.model(m, "transcription as written (absolute retention test) refines the contract "
                     "(depth 3, one ignore file anywhere, 9 pattern sets without the prune/negation clash)")
        m2 = _tlc(dict(MODEL_SCOPE, Pats=plain, FixInnerKeep=False), tabfile,
                  invariants=["AbsoluteWithinContract", "RelativeWithinContract"], expect_violation=True)
        rep.model(m2, "pre-fix retention test keyed on the path spelling: TLC counterexample expected (F1)")
        rep.extra["prefix_model_violates"] = m2.violated
        if m2.violated != "RelativeWithinContract":
            raise MachineryError(f"the pre-fix Discovery model no longer exhibits F1 (TLC: {m2.violated})")
        # 2. S->C: enumerate every world/query of every suite, replay into the real code
        sampled = []
        only = [x for x in os.environ.get("VF_C25_ONLY", "").split(",") if x]     # development aid: restrict the suites
        for name, consts, what in SUITES[tier]:
            if only and name not in only:
                continue
            with open(tabfile, "w") as fh:
                json.dump(match_tables(consts["Pats"], consts["MaxDepth"]), fh)
            e = _tlc(dict(consts, FixInnerKeep=TRANSCRIPTION_FIXED), tabfile, invariants=["ContractConsistent"], timeout=3000)
            expect_model_ok(e, f"Discovery enumeration ({name})")
            rep.model(e, f"suite {name}: {what}")
            worlds = e.records
            if not worlds or len(worlds) * 2 != e.distinct:
                raise MachineryError(f"Discovery suite {name}: {len(worlds)} records for {e.distinct} states")
            worlds.sort(key=lambda w: json.dumps([w["tree"], w["ign"]], sort_keys=True))
            outs = pmap(check_world, worlds, chunksize=16)
            for w, o in zip(worlds, outs):
                rep.evaluated(o["n"])
                for v in o["viol"]:
                    report(rep, w, v)
                rep.drift.extend(o["drift"][: max(0, 10 - len(rep.drift))])
                if o["nontrivial"]:
                    rep.nontrivial(json.dumps([name, w["tree"], w["ign"]], sort_keys=True))
            rep.sample({"suite": name, "tree": worlds[len(worlds) // 2]["tree"], "ign": worlds[len(worlds) // 2]["ign"],
                        "query": worlds[len(worlds) // 2]["qs"][0]}, cap=6)
            pool = [w for w in worlds if w["ign"]]
            rnd.shuffle(pool)
            sampled += pool[: (4 if tier == "quick" else 40)]
        rep.exhaustive = True
        # 3. entry point with the default working_path (import-time cwd), a seeded sample of the worlds
        rep.extra["entry_point_calls"] = entry_check(rep, sampled if not only else sampled[:2], base)
    finally:
        shutil.rmtree(base, ignore_errors=True)
    rep.rule = ("TLC enumerates every world (tree shape, ignore-file placement, kind, pattern set) and every query "
                "(cwd, directory or exact-file target, extensions) of each suite; every applicable spelling is one "
                "evaluation.  A world is non-trivial when it holds at least one ignore file and is walked by at "
                "least one directory query; distinct by (suite, tree, ignore entries)")
    rep.trusted_base = ["pathspec (its verdicts are tables of the model)", "materialiser: tree/ignore-file writer for the "
                        "three ignore-file kinds", "normalisation of returned paths to root-relative form (abspath/relpath)",
                        "signature classifier (names the ignore entry involved; classification only)",
                        "config-file cache cleared between worlds (each world has a fresh directory)"]
    rep.assumptions = ["no ignore/config file exists above the scratch root (checked: /tmp has none)"]
    return rep.finish()


def replay(path, tier, seed):
    case = json.load(open(path))["case"]
    base = scratch("c25")
    os.environ["VF_C25_SCRATCH"] = base
    try:
        world = dict(case["world"], qs=[case["q"]])
        o = check_world(world)
    finally:
        shutil.rmtree(base, ignore_errors=True)
    bad = [v for v in o["viol"] if v["clause"] == case["clause"]]
    if bad:
        print(f"VIOLATION property={PROP} replay={path}")
        print(f"  clause={bad[0]['clause']} files={bad[0]['files']} got={bad[0]['got']}")
        return 1
    print("replay: behaviour now satisfies the contract")
    return 0
