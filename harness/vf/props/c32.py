"""C32 — linting is read-only and repeatable.

Spec:  spec/Session.tla (operation alphabet, process-level shared state with per-operation write sets and
       flavours, contract Result(op, history) = Result(op, <<>>), self-test bugs), spec/SessionTrace.tla.
Model: TLC enumerates every history of length <= 2 (quick) / <= 3 (thorough) over the 13 symbols, checks
       HistoryFree / StackEmptyBetweenOps on the model and emits every history with its exposure.
S->C:  every history of length 2 is executed in ONE fresh python subprocess (vf.session_ops); thorough: every
       history of length 3 is a window of a longer session (de Bruijn segments, one fresh process each).  Baselines Result(op, <<>>) come from two independent fresh processes per symbol.
       All results are interned and compared by TLC (SessionTrace: SameAsFresh, FreshRepeatable).
C->S:  read-only part: the real CLI (`python -m sqlfluff lint|parse|render`) runs under
       `strace -f -e trace=%file,...` on copies of the tree; every successful file-system call on a path under
       the input tree becomes an Fs event, the (sha256, mtime_ns, inode, mode, size) of every input file before
       and after becomes a Stat event; SessionTrace decides ReadOnly / InputUnchanged.
"""
from __future__ import annotations

import difflib
import hashlib
import json
import os
import re
import shutil
import subprocess
import sys
from concurrent.futures import ThreadPoolExecutor
from typing import Dict, List, Optional

from ..core import Report, expect_model_ok
from ..tlc import MachineryError, cfg_text, run_tlc, scratch, validate_traces
from .. import session_ops

PROP = "C32"
BUGS = ["stale_simple_cache", "no_copy_in_parse_string", "stale_templater_context", "shared_reference_map"]
REPO = os.environ.get("VF_REPO", "/repo")
PY = sys.executable


def nprocs() -> int:
    return max(1, int(os.environ.get("VF_PROCS", "14") or 14))


def tlc_workers():
    return min(int(os.environ.get("VF_PROCS", "0") or 0), 16) or "auto"


def child_env(hashseed: str = "0") -> Dict[str, str]:
    env = dict(os.environ)
    harness = os.path.dirname(os.path.dirname(os.path.abspath(session_ops.__file__)))
    env["PYTHONPATH"] = f"{harness}:{os.path.join(REPO, 'src')}"
    env["PYTHONHASHSEED"] = hashseed
    env["PYTHONDONTWRITEBYTECODE"] = "1"
    env.pop("XDG_CONFIG_HOME", None)
    return env


# ------------------------------------------------------------------ sessions
def run_session(tree: str, ops: List[dict], timeout: int = 1800, hashseed: str = "0") -> List[dict]:
    p = subprocess.run([PY, "-B", "-m", "vf.session_ops", tree, json.dumps(ops)], capture_output=True, text=True,
                       env=child_env(hashseed), timeout=timeout)
    out = [json.loads(line[5:]) for line in p.stdout.splitlines() if line.startswith("VFOP ")]
    if not out and p.returncode != 0:
        raise MachineryError(f"session process failed before its first operation:\n{p.stderr[-2000:]}")
    return out


class Interner:
    def __init__(self):
        self.ids: Dict[str, int] = {}
        self.texts: List[str] = []

    def __call__(self, text: str) -> int:
        if text not in self.ids:
            self.ids[text] = len(self.texts) + 1
            self.texts.append(text)
        return self.ids[text]


def snapshot(tree: str) -> Dict[str, str]:
    out = {}
    for root, dirs, files in os.walk(tree):
        dirs.sort()
        for f in sorted(files):
            p = os.path.join(root, f)
            st = os.stat(p)
            with open(p, "rb") as fh:
                hsh = hashlib.sha256(fh.read()).hexdigest()
            out[os.path.relpath(p, tree)] = f"{hsh}:{st.st_mtime_ns}:{st.st_ino}:{st.st_mode}:{st.st_size}"
    return out


def stat_events(op: str, before: Dict[str, str], after: Dict[str, str], intern: Interner) -> List[dict]:
    ev = []
    for rel in sorted(set(before) | set(after)):
        ev.append({"ev": "Stat", "op": op, "path": rel, "before": intern(before.get(rel, "absent")),
                   "after": intern(after.get(rel, "absent"))})
    return ev


# ------------------------------------------------------------------ strace (read-only part)
_LINE = re.compile(r"^(\d+)\s+(\w+)\((.*)\)\s+=\s+(-?\d+|\?)(.*)$")
_STR = re.compile(r'"((?:[^"\\]|\\.)*)"')
WRITE_FLAGS = ("O_WRONLY", "O_RDWR", "O_CREAT", "O_TRUNC", "O_APPEND")
KIND = {"rename": "rename", "renameat": "rename", "renameat2": "rename", "unlink": "unlink", "unlinkat": "unlink",
        "rmdir": "unlink", "chmod": "chmod", "fchmodat": "chmod", "chown": "chmod", "lchown": "chmod", "fchownat": "chmod",
        "truncate": "truncate", "mkdir": "create", "mkdirat": "create", "link": "create", "linkat": "create",
        "symlink": "create", "symlinkat": "create", "mknod": "create", "mknodat": "create", "creat": "write-open",
        "utime": "utime", "utimes": "utime", "utimensat": "utime", "futimesat": "utime"}


def fs_events(log: str, tree: str, op: str) -> List[dict]:
    """Successful file-system calls that name a path under `tree` (relative paths are resolved against it)."""
    ev = []
    real = os.path.realpath(tree)
    with open(log, errors="replace") as fh:
        for line in fh:
            m = _LINE.match(line.rstrip("\n"))
            if not m or m.group(4) in ("?",) or m.group(4).startswith("-"):
                continue
            call, args = m.group(2), m.group(3)
            if call in ("open", "openat", "openat2"):
                kind = "write-open" if any(f in args for f in WRITE_FLAGS) else "read"
            elif call in KIND:
                kind = KIND[call]
            else:
                continue
            for s in _STR.findall(args):
                p = s if os.path.isabs(s) else os.path.join(real, s)
                p = os.path.normpath(p)
                if p == real or p.startswith(real + os.sep) or p.startswith(tree + os.sep):
                    ev.append({"ev": "Fs", "op": op, "role": "input", "kind": kind, "call": call,
                               "path": os.path.relpath(p, real)})
    return ev


def cli_commands(tier: str) -> List[dict]:
    cmds = [
        {"op": "lint", "args": ["lint", ".", "--format", "json"]},
        {"op": "lint", "args": ["lint", "blocks.sql", "noqa/except.sql", "--format", "yaml"]},
        {"op": "parse", "args": ["parse", "nested", "--format", "yaml"]},
        {"op": "parse", "args": ["parse", "prs.sql", "--format", "json"]},
        {"op": "render", "args": ["render", "variants.sql"]},
    ]
    if tier == "thorough":
        cmds += [
            {"op": "lint", "args": ["lint", ".", "--processes", "2"]},
            {"op": "lint", "args": ["lint", ".", "--format", "github-annotation-native"]},
            {"op": "lint", "args": ["lint", "inline.sql", "prs.sql", "-v"]},
            {"op": "parse", "args": ["parse", ".", "--format", "none"]},
            {"op": "parse", "args": ["parse", "blocks.sql", "--format", "human"]},
            {"op": "render", "args": ["render", "blocks.sql"]},
            {"op": "render", "args": ["render", "nested/deep/n.sql"]},
            {"op": "lint", "args": ["lint", "-", "--stdin-filename", "plain.sql"], "stdin": "plain.sql"},
        ]
    return cmds


def strace_run(job) -> dict:
    n, cmd, base, intern_lock = job
    tree = os.path.join(base, f"ro{n}")
    os.makedirs(tree)
    session_ops.write_tree(tree)
    before = snapshot(tree)
    log = os.path.join(base, f"strace{n}.log")
    stdin = None
    if cmd.get("stdin"):
        stdin = open(os.path.join(tree, cmd["stdin"]), "rb")
    try:
        p = subprocess.run(["strace", "-f", "-qq", "-e", "trace=%file,ftruncate,fchmod,fchown", "-o", log,
                            PY, "-B", "-m", "sqlfluff"] + cmd["args"], cwd=tree, env=child_env(), stdin=stdin,
                           capture_output=True, text=True, timeout=1200)
    finally:
        if stdin:
            stdin.close()
    if not os.path.exists(log) or os.path.getsize(log) == 0:
        raise MachineryError(f"strace produced no log for {cmd['args']}: {p.stderr[-500:]}")
    after = snapshot(tree)
    ev = fs_events(log, tree, cmd["op"])
    if not any(e["kind"] == "read" and e["path"].endswith(".sql") for e in ev) and not cmd.get("stdin"):
        raise MachineryError(f"strace log of {cmd['args']} shows no read of any input file (exit {p.returncode}): {p.stderr[-500:]}")
    return {"n": n, "cmd": cmd, "events": ev, "before": before, "after": after, "exit": p.returncode}


# ------------------------------------------------------------------ driver
def model(rep: Report, maxlen: int):
    m = run_tlc("Session", cfg_text(constants={"MaxLen": maxlen, "Bug": "none"},
                                    invariants=["HistoryFree", "StackEmptyBetweenOps"]),
                workers=tlc_workers(), timeout=1200)
    expect_model_ok(m, "Session: every history is result-free of shared state")
    rep.model(m, f"all histories of length 1..{maxlen} over 13 operation symbols")
    if not m.records:
        raise MachineryError("Session emitted no histories")
    for bug in BUGS + ["unbalanced_block_exit"]:
        b = run_tlc("Session", cfg_text(constants={"MaxLen": 2, "Bug": bug}, invariants=["HistoryFree", "StackEmptyBetweenOps"]),
                    workers=2, timeout=600, expect_violation=True)
        if b.ok:
            raise MachineryError(f"Session self-test: Bug={bug} violates nothing")
        rep.extra.setdefault("model_self_tests", {})[bug] = f"violates {b.violated}"
    return m


def segments_covering(triples, nsym: int, windows: int) -> List[List[int]]:
    """Cut a de Bruijn sequence B(nsym, 3) into overlapping segments; every history of length 3 that TLC emitted
    must be a window of some segment (checked, else machinery failure)."""
    k, n = nsym, 3
    a, seq = [0] * (k * n), []

    def db(t, p):
        if t > n:
            if n % p == 0:
                seq.extend(a[1:p + 1])
        else:
            a[t] = a[t - p]
            db(t + 1, p)
            for j in range(a[t - p] + 1, k):
                a[t] = j
                db(t + 1, t)

    db(1, 1)
    cyc = [x + 1 for x in seq] + [seq[0] + 1, seq[1] + 1]
    segs = [cyc[i:i + windows + 2] for i in range(0, len(cyc) - 2, windows)]
    seen = {tuple(sg[j:j + 3]) for sg in segs for j in range(len(sg) - 2)}
    if set(triples) - seen:
        raise MachineryError(f"de Bruijn segments miss {len(set(triples) - seen)} of the {len(triples)} histories of length 3")
    return segs


def short_diff(a: str, b: str, n: int = 12) -> str:
    try:
        a2, b2 = json.dumps(json.loads(a), indent=0, sort_keys=True), json.dumps(json.loads(b), indent=0, sort_keys=True)
    except Exception:
        a2, b2 = a, b
    d = [line for line in difflib.unified_diff(a2.splitlines(), b2.splitlines(), "fresh", "in-history", lineterm="", n=0)
         if not line.startswith(("---", "+++", "@@"))]
    return " | ".join(x[:160] for x in d[:n])


def sym_name(op: dict) -> str:
    return f"{op['op']}:{op['file']}:{op['via']}"


def run(tier: str, seed: int) -> int:
    rep = Report(PROP, tier, seed, "exploration")
    maxlen = 2 if tier == "quick" else 3
    m = model(rep, maxlen)
    singles = sorted((r for r in m.records if len(r["hist"]) == 1), key=lambda r: r["hist"][0])
    symbols = {r["hist"][0]: r["ops"][0] for r in singles}
    nsym = len(symbols)
    # every history of length 2 runs in its own fresh process (its prefix is the history of length 1)
    maximal = sorted((r for r in m.records if len(r["hist"]) == 2), key=lambda r: r["hist"])
    # thorough: every history of length 3 is a window of one of a few longer sessions (de Bruijn segments), so that the
    # cost is per operation and not per process; a step that differs there is a violation like any other
    triples = sorted(tuple(r["hist"]) for r in m.records if len(r["hist"]) == 3)
    expo3 = {tuple(r["hist"]): r["exposure"] for r in m.records if len(r["hist"]) == 3}
    segments = segments_covering(triples, nsym, 110) if triples else []
    for seg in segments:
        maximal.append({"hist": seg, "ops": [symbols[s] for s in seg], "exposure": [[]], "segment": True})
    base = scratch("c32")
    intern = Interner()
    traces: List[dict] = []
    try:
        tree = os.path.join(base, "tree")
        os.makedirs(tree)
        session_ops.write_tree(tree)
        before = snapshot(tree)
        with ThreadPoolExecutor(max_workers=nprocs()) as ex:
            # Result(op, <<>>): two independent fresh processes per symbol
            # (the second one under a different PYTHONHASHSEED: a new process may order its sets differently)
            fresh = list(ex.map(lambda sk: run_session(tree, [symbols[sk[0]]], hashseed=sk[1]),
                                [(s, hs) for s in sorted(symbols) for hs in ("0", str(seed % 4000000000 + 1))]))
            hist_out = list(ex.map(lambda r: run_session(tree, r["ops"]), maximal))
            ro = list(ex.map(strace_run, [(n, c, base, None) for n, c in enumerate(cli_commands(tier))]))
        base1, base2 = [0] * nsym, [0] * nsym
        for j, s in enumerate(sorted(symbols)):
            a, b = fresh[2 * j], fresh[2 * j + 1]
            if len(a) != 1 or len(b) != 1:
                raise MachineryError(f"baseline session for {symbols[s]} returned {len(a)}/{len(b)} results")
            base1[s - 1], base2[s - 1] = intern(a[0]["result"]), intern(b[0]["result"])
            rep.evaluated(2)
            if a[0]["stack"] or b[0]["stack"]:
                rep.drift.append(f"StackEmptyBetweenOps: BlockTracker._stack has depth {a[0]['stack']} after {sym_name(symbols[s])} alone")
        by_id: Dict[str, dict] = {}
        for r, out in zip(maximal, hist_out):
            tid = "h" + "-".join(map(str, r["hist"]))
            ev = [{"ev": "Op", "sym": r["hist"][j], "result": intern(o["result"]), "stack": o["stack"]}
                  for j, o in enumerate(out)]
            traces.append({"id": tid, "kind": "history", "hist": r["hist"], "base": base1, "base2": base2, "events": ev})
            by_id[tid] = {"rec": r, "out": out}
            rep.evaluated(len(out))
            if any(r["exposure"]):
                rep.nontrivial(tid)
            if r.get("segment"):
                for j in range(2, len(out)):
                    w = tuple(r["hist"][j - 2:j + 1])
                    if any(expo3.get(w, [[]])):
                        rep.nontrivial("h" + "-".join(map(str, w)))
            for j, o in enumerate(out):
                if o["stack"]:
                    rep.drift.append(f"StackEmptyBetweenOps: BlockTracker._stack has depth {o['stack']} after step {j + 1} "
                                     f"of {[sym_name(x) for x in r['ops']]}")
        after = snapshot(tree)
        traces.append({"id": "sessions-tree", "kind": "readonly", "hist": [], "base": base1, "base2": base2,
                       "events": stat_events("session", before, after, intern)})
        by_id["sessions-tree"] = {"what": "the tree shared by every in-process session"}
        for r in ro:
            tid = f"ro{r['n']}"
            ev = [{k: v for k, v in e.items() if k in ("ev", "op", "role", "kind")} for e in r["events"]]
            ev += stat_events(r["cmd"]["op"], r["before"], r["after"], intern)
            traces.append({"id": tid, "kind": "readonly", "hist": [], "base": base1, "base2": base2, "events": ev})
            by_id[tid] = r
            rep.evaluated()
            rep.nontrivial(tid)
        val = validate_traces("SessionTrace", [{k: v for k, v in t.items()} for t in traces],
                              constants={"MaxLen": maxlen, "Bug": "none"}, timeout=1500)
        rep.validation(val, "SessionTrace")
        for rj in val.rejected:
            info = by_id[rj["id"]]
            clause = rj["clause"]
            if "rec" in info:
                r, out = info["rec"], info["out"]
                j = rj["step"] - 1
                op = r["ops"][j] if j < len(r["ops"]) else {"op": "?", "file": "?", "via": "?"}
                prev = r["ops"][max(0, j - 2):j] if r.get("segment") else r["ops"][:j]
                sig = {"op": op["op"], "file": op["file"], "via": op["via"],
                       "after": ",".join(sym_name(x) for x in prev)}
                shown = r["ops"][max(0, j - 6):j + 1] if r.get("segment") else r["ops"]
                what = (f"history {'... ' if r.get('segment') and j > 6 else ''}{[sym_name(x) for x in shown]} in one process: "
                        f"step {rj['step']} ({sym_name(op)}) ")
                if clause == "SameAsFresh" and j < len(out):
                    what += "differs from its fresh-process result: " + short_diff(intern.texts[base1[r['hist'][j] - 1] - 1], out[j]["result"])
                elif clause == "FreshRepeatable":
                    s = r["hist"][j]
                    what += "gives different results in two fresh processes: " + short_diff(intern.texts[base1[s - 1] - 1], intern.texts[base2[s - 1] - 1])
                    sig["after"] = ""
                rep.violation(clause, sig, what, {"kind": "history", "ops": r["ops"][:j + 1], "hist": r["hist"][:j + 1], "verdict": rj})
            elif "cmd" in info:
                j = rj["step"] - 1
                allev = info["events"] + stat_events(info["cmd"]["op"], info["before"], info["after"], Interner())
                e = allev[j] if j < len(allev) else {}
                rep.violation(clause.split(":")[0], {"op": info["cmd"]["op"], "kind": e.get("kind", "stat"), "call": e.get("call", "")},
                              f"`sqlfluff {' '.join(info['cmd']['args'])}` on a temp copy of the tree: {e}",
                              {"kind": "readonly", "cmd": info["cmd"], "verdict": rj})
            else:
                rep.violation(clause, {"op": "session"}, f"{info['what']}: an input file changed during the in-process sessions "
                              f"(step {rj['step']})", {"kind": "tree", "verdict": rj})
        k = min(len(maximal) // 2, 84)
        rep.sample({"history": [sym_name(x) for x in maximal[k]["ops"]], "exposure": maximal[k]["exposure"],
                    "result_ids": [e["result"] for e in traces[k]["events"]], "fresh_ids": [base1[s - 1] for s in maximal[k]["hist"]]})
        rep.sample({"readonly": ro[0]["cmd"], "fs_calls_on_inputs": len(ro[0]["events"]),
                    "kinds": sorted({e["kind"] for e in ro[0]["events"]})})
        rep.extra["histories_enumerated"] = len(m.records)
        rep.extra["sessions_run"] = len(maximal)
        rep.extra["length3_histories_covered_as_windows"] = len(triples)
        rep.extra["distinct_results"] = len(intern.texts)
    finally:
        shutil.rmtree(base, ignore_errors=True)
    rep.exhaustive = True
    rep.rule = (f"TLC enumerates every history of length <= {maxlen} over 13 (operation, file, entry point) symbols; every "
                "history of length 2 runs in one fresh process (its prefix is the history of length 1); in the thorough tier "
                "every history of length 3 is a window of one of ~20 longer sessions (de Bruijn segments, one fresh process each); "
                "each step is compared with two fresh-process baselines.  Non-trivial history = TLC's exposure is non-empty (some step touches shared "
                "state left in a foreign flavour by an earlier step); each strace'd CLI run counts as one")
    rep.trusted_base = ["vf.session_ops (operation runner; result = canonical JSON of violations/records/rendered/fixed)",
                        "strace line parser (successful calls, path under the tree, open flags -> read/write-open)",
                        "snapshot (sha256, mtime_ns, inode, mode, size)", "result interning"]
    rep.assumptions = ["api operations of a session share one Linter built from FluffConfig.from_root(); cli operations go "
                       "through click's CliRunner in the same process", "fd-based writes are attributed to the open call"]
    return rep.finish()


def replay(path, tier, seed):
    """Re-record the single case from the current tree and re-validate it with SessionTrace."""
    case = json.load(open(path))["case"]
    base = scratch("c32r")
    intern = Interner()
    try:
        nsym = 13
        if case["kind"] == "history":
            tree = os.path.join(base, "tree")
            os.makedirs(tree)
            session_ops.write_tree(tree)
            before = snapshot(tree)
            out = run_session(tree, case["ops"])
            base1, base2 = [0] * nsym, [0] * nsym
            for s, op in zip(case["hist"], case["ops"]):
                a, b = run_session(tree, [op]), run_session(tree, [op], hashseed=str(seed % 4000000000 + 1))
                base1[s - 1], base2[s - 1] = intern(a[0]["result"]), intern(b[0]["result"])
            traces = [{"id": "replay", "kind": "history", "hist": case["hist"], "base": base1, "base2": base2,
                       "events": [{"ev": "Op", "sym": case["hist"][j], "result": intern(o["result"])} for j, o in enumerate(out)]
                                 + stat_events("session", before, snapshot(tree), intern)}]
        else:
            cmds = [case["cmd"]] if case["kind"] == "readonly" else cli_commands("quick")
            traces = []
            for n, c in enumerate(cmds):
                r = strace_run((n, c, base, None))
                ev = [{k: v for k, v in e.items() if k in ("ev", "op", "role", "kind")} for e in r["events"]]
                traces.append({"id": f"replay{n}", "kind": "readonly", "hist": [], "base": [0] * nsym, "base2": [0] * nsym,
                               "events": ev + stat_events(c["op"], r["before"], r["after"], intern)})
        val = validate_traces("SessionTrace", traces, constants={"MaxLen": 3, "Bug": "none"})
        if val.rejected:
            print(f"VIOLATION property={PROP} replay={path}")
            print(f"  {val.rejected}")
            return 1
        print("replay: behaviour now satisfies the contract")
        return 0
    finally:
        shutil.rmtree(base, ignore_errors=True)
