"""C10 — fixes never edit template code.

Spec:  spec/Patches.tla contract clause TemplateCellsPreserved over typed source cells (literal / templated /
       block / comment), Safe / FilterKeepsOnlySafe for the generate_source_patches filter, SameTagSeq for
       recorded tag sequences; spec/PatchesTrace.tla event `Tags`.
S->C:  TLC enumerates typed layouts x candidate patch sets (every span incl. zero-length, inside / across /
       at the boundary of tags, lit and source category), checks that the transcribed filter -> merge ->
       slice -> rebuild keeps every non-literal cell, and every case is replayed into the real functions
       (the real generate_source_patches filter runs on the enumerated candidates).
C->S:  real fix runs over templated inputs (templated rule cases under their own rule and under rule sets,
       test/fixtures/templater, generated Jinja / placeholder / python templates with fixable violations
       adjacent to / inside / around tags, loops, unreached branches).  The recorder logs the sequence of
       non-literal raw slices (type, raw) of the source and of the re-templated fixed source; PatchesTrace
       requires them equal, tolerating only whitespace just inside a tag's delimiters when JJ01 is selected.
"""
from __future__ import annotations

import json
import os
import random

from ..core import Report, expect_model_ok, h
from ..tlc import MachineryError, validate_traces
from .. import par, sq
from .. import patches as P
from . import c30

PROP = "C10"
CLAUSES = ("TemplateCellsPreserved",)
TRACE_CLAUSES = ("FixedSourceStillTemplates", "TemplateCellsPreserved.count", "TemplateCellsPreserved", "FilterKeepsOnlySafe")
TCONST = {"L": 1, "MaxP": 0, "MaxSO": 0, "NBuf": 1, "NTexts": 3, "SOKinds": 2, "EmitOn": False, "NParts": 1, "Part": 0}

QUICK = [
    ({"L": 3, "MaxP": 2, "MaxSO": 2, "NBuf": 1, "NTexts": 2, "SOKinds": 2, "NParts": 1}, "3 typed cells (4 types), <=2 patches, <=2 source-only slices"),
    ({"L": 4, "MaxP": 1, "MaxSO": 2, "NBuf": 1, "NTexts": 2, "SOKinds": 2, "NParts": 1}, "4 typed cells (4 types), one patch of every span / category"),
]
THOROUGH = [   # the first two are C30's thorough scopes (shared model-run cache), judged here on TemplateCellsPreserved
    ({"L": 3, "MaxP": 3, "MaxSO": 2, "NBuf": 1, "NTexts": 2, "SOKinds": 2, "NParts": 4}, "3 typed cells (4 types), <=3 patches, <=2 source-only slices"),
    ({"L": 4, "MaxP": 2, "MaxSO": 2, "NBuf": 1, "NTexts": 2, "SOKinds": 1, "NParts": 2}, "4 typed cells, <=2 patches, <=2 source-only slices"),
    ({"L": 5, "MaxP": 1, "MaxSO": 2, "NBuf": 1, "NTexts": 2, "SOKinds": 2, "NParts": 2}, "5 typed cells (4 types), one patch of every span / category"),
]


def s_to_c(rep: Report, tier: str) -> None:
    offset = 0
    for consts, what in (QUICK if tier == "quick" else THOROUGH):
        n = consts["NParts"]
        for part in range(n):
            m = P.enumerate_cases(dict(consts, Part=part), timeout=2400)
            w = what + (f" [part {part + 1}/{n}]" if n > 1 else "")
            expect_model_ok(m, "Patches Algo => TemplateCellsPreserved: " + w)
            rep.model(m, w + (" [model run restored from cache]" if getattr(m, "cached", False) else ""))
            if m.distinct != 2 * len(m.records) or not m.records:
                raise MachineryError(f"Patches ({w}): {m.distinct} states but {len(m.records)} emitted cases")
            c30.quiet()
            for k, rec in enumerate(m.records):
                try:
                    got = P.replay_case(rec, offset + k)
                except Exception as e:
                    rep.extra.setdefault("not_judged_here", []).append(f"real pipeline raised {type(e).__name__} (C30/C04)")
                    continue
                rep.evaluated()
                clause, drift = P.judge_case(rec, got)
                if clause == "TemplateCellsPreserved":
                    rep.violation(clause, {"level": "model", "kinds": P.case_sig(rec)},
                                  f"layout {rec['lay']} candidates {rec['bufs']}: real output {got['out_str']!r} of source "
                                  f"{got['src']!r} (filtered {got['filt']}) applies an edit that touches template code",
                                  {"kind": "model", "rec": rec, "k": offset + k})
                elif clause == "AppliedDisjointOnce":
                    # not an application of the candidate edits at all: C30's verdict, not judged against C10 here
                    rep.extra["outputs_outside_C30_not_judged"] = rep.extra.get("outputs_outside_C30_not_judged", 0) + 1
                elif clause is None and drift:
                    rep.drift.append(drift[0] + f" on layout {rec['lay']} candidates {rec['bufs']}")
                # non-trivial: some candidate touches a non-literal slice
                nonlit = [(r["a"], r["b"]) for r in rec["lay"] if r["ty"] != "literal"]
                touch = any((p["s"][0] == p["s"][1] and a <= p["s"][0] <= b) or max(p["s"][0], a) < min(p["s"][1], b)
                            for buf in rec["bufs"] for p in buf for a, b in nonlit)
                if touch:
                    rep.nontrivial(h([rec["lay"], rec["bufs"]]))
            offset += len(m.records)
            if len(rep.samples) < 1:
                rep.sample(m.records[len(m.records) // 3])
    rep.exhaustive = True


# ------------------------------------------------------------------ C->S inputs
RULESETS_JINJA = ["all", "layout", "core", "LT01,LT02,LT04,LT09,CP01", "all-JJ01"]


def _worker(item):
    c30.quiet()
    tid, sql, rules, configs, fname, meta = item
    try:
        if fname:
            from sqlfluff.core import FluffConfig
            ov = {"rules": rules} if not rules.startswith("all-") else {"rules": "all", "exclude_rules": rules[4:]}
            ov["dialect"] = "ansi"
            cfg = FluffConfig.from_path(os.path.dirname(fname), overrides=ov)
        else:
            if rules.startswith("all-"):
                configs = json.loads(json.dumps(configs or {}))
                configs.setdefault("core", {})["exclude_rules"] = rules[4:]
                cfg = c30.case_config("all", configs)
            else:
                cfg = c30.case_config(rules, configs)
    except Exception as e:
        return {"id": tid, "skip": f"config: {type(e).__name__}: {e}", "sql": sql, "meta": meta}
    return P.record_fix(sql, cfg, tid, with_tags=True, meta=meta, fname=fname)


def inputs(tier: str, seed: int):
    rnd = random.Random(seed + 10)
    items = []
    cases = [c for c in sq.rule_cases() if not c.get("skip") and c30.is_templated_case(c)]
    for c in cases:
        base = {"src": "rule-case", "case": c["id"], "templated": True}
        items.append((c["id"], c["sql"], c["rule"], c["configs"], None, dict(base, rule=c["rule"])))
        extra = ["all", "layout"] if tier == "thorough" else [["all", "layout"][len(items) % 2]]
        for rs in extra:
            items.append((f"{c['id']}@{rs}", c["sql"], rs, c["configs"], None, dict(base, rule=rs)))
    fixtures = list(sq.templater_fixtures())
    for f in fixtures if tier == "thorough" else fixtures[::2]:
        for rs in (["all", "layout"] if tier == "thorough" else ["all"]):
            items.append((f"fixture:{os.path.relpath(f, sq.FIX)}@{rs}", sq.read(f), rs, None, f,
                          {"src": "templater-fixture", "rule": rs, "templated": True}))
    ngen = 220 if tier == "quick" else 1000
    jcfg = {"core": {"dialect": "ansi"}, "templater": {"jinja": {"context": P.JINJA_CTX}}}
    for i, (name, t) in enumerate(P.jinja_templates(ngen, rnd)):
        rs = RULESETS_JINJA[(i + i // 11) % len(RULESETS_JINJA)]
        items.append((name + "@" + rs, t, rs, jcfg, None, {"src": "generated-jinja", "rule": rs, "templated": True}))
    for i, (name, templater, sqlt, tcfg) in enumerate(P.other_templates(40 if tier == "quick" else 400, rnd)):
        rs = ["all", "layout", "core"][i % 3]
        cfg = dict(tcfg, core={"dialect": "ansi", "templater": templater})
        items.append((name + "@" + rs, sqlt, rs, cfg, None, {"src": "generated-" + templater, "rule": rs, "templated": True}))
    return [(a, b, c, d, e, dict(f, configs=d, fname=e)) for a, b, c, d, e, f in items]


def classify(t, r) -> dict:
    """Signature attributes of a rejected trace (for matching known findings; not part of the verdict)."""
    ev = t["events"][r["step"] - 1]
    sig = {"level": "trace", "source": t["meta"].get("src"), "event": ev["ev"], "jj01": bool(t["jj01"])}
    if ev["ev"] == "Tags":
        b = ["".join(map(chr, x[1])) for x in ev["before"]]
        a = ["".join(map(chr, x[1])) for x in ev["after"]]
        sig["delta"] = len(a) - len(b) if ev["ok"] else None
        if ev["ok"]:
            from collections import Counter
            ca, cb = Counter(a), Counter(b)
            dup = [x for x in ca if ca[x] > cb.get(x, 0)]
            lost = [x for x in cb if cb[x] > ca.get(x, 0)]
            sig["change"] = ("duplicated" if dup and not lost else "lost" if lost and not dup else
                             "edited" if dup and lost else "reordered")
            kinds = sorted({x[0] for x in ev["before"] if "".join(map(chr, x[1])) in lost} |
                           {x[0] for x in ev["after"] if "".join(map(chr, x[1])) in dup})
            sig["tag_kinds"] = ",".join(kinds)
        # reversed source slices from the lexer (F17 class) and the LT02 initial-indent overrun travel with the trace
        for e in t["events"]:
            if e["ev"] == "Patches":
                d = c30.describe_patch_defect(t, e)
                if d:
                    sig["patch_defect"] = d["defect"]
                    sig["patch_cat"] = d.get("cat")
                    sig["patch_at_file_start"] = d.get("at_file_start")
                    break
        else:
            sig["patch_defect"] = None
    elif ev["ev"] == "Patches":
        sig.update(c30.describe_patch_defect(t, ev))
    return sig


def run(tier: str, seed: int) -> int:
    rep = Report(PROP, tier, seed, "model_checking")
    s_to_c(rep, tier)
    items = inputs(tier, seed)
    traces = par.pmap(_worker, items, chunksize=4)
    good = [t for t in traces if t and "events" in t]
    rep.evaluated(len(traces))
    rep.extra["fix_runs"] = len(traces)
    rep.extra["fix_runs_without_tree"] = len(traces) - len(good)
    rep.extra["skipped_examples"] = [(t["id"], t["skip"][:120]) for t in traces if t and "skip" in t][:6]
    if len(good) < len(traces) // 2:
        raise MachineryError(f"only {len(good)} of {len(traces)} templated fix runs produced a trace")
    val = validate_traces("PatchesTrace", [P.wire(t) for t in good], batch=1500, timeout=1800, constants=TCONST)
    rep.validation(val, "PatchesTrace")
    by = {t["id"]: t for t in good}
    for t in good:
        if t["npatch"] >= 1 and t["ntags"] >= 1:
            rep.nontrivial(h([t["sql"], t["meta"].get("rule")]))
    bysrc = {}
    for t in good:
        bysrc[t["meta"]["src"]] = bysrc.get(t["meta"]["src"], 0) + 1
    rep.extra["traces_by_source"] = bysrc
    for r in val.rejected:
        t = by[r["id"]]
        if r["clause"] not in TRACE_CLAUSES:
            rep.extra.setdefault("rejected_for_other_property", []).append([r["id"], r["clause"]])
            continue
        ev = t["events"][r["step"] - 1]
        sig = classify(t, r)
        if ev["ev"] == "Tags":
            detail = (f"tags before {[''.join(map(chr, x[1])) for x in ev['before']]} after "
                      f"{[''.join(map(chr, x[1])) for x in ev['after']]}" if ev["ok"] else "the fixed source no longer templates")
        else:
            detail = json.dumps({k: v for k, v in ev.items() if k != "out"})[:500]
        rep.violation(r["clause"], sig,
                      f"fix of {t['sql']!r} (rules={t['meta'].get('rule')}, {t['meta'].get('src')}) -> {t['fixed']!r}: {detail}",
                      {"kind": "trace", "item": [t["id"], t["sql"], t["meta"].get("rule"), t["meta"].get("configs"),
                                                 t["meta"].get("fname"), t["meta"]], "verdict": r})
    if good:
        t = max(good, key=lambda t: (t["ntags"] > 2 and t["npatch"] > 2, t["nvariants"]))
        rep.sample({"sql": t["sql"], "fixed": t["fixed"], "events": [{k: v for k, v in e.items() if k != "out"} for e in t["events"]][:2]})
    rep.rule = ("S->C: every typed layout x candidate patch set of the scope; non-trivial = a candidate touches, abuts or "
                "lies inside a non-literal slice; distinct by (layout, candidates). C->S: one trace per fix run of a templated "
                "input; non-trivial = >= 1 patch generated in a file with >= 1 tag; distinct by (source, rule set)")
    rep.trusted_base = ["concretiser / stub of _iter_templated_patches (see C30)", "recorder wrappers (see C30)",
                        "tag projection: (slice_type, raw) of every non-literal RawFileSlice of TemplatedFile.raw_sliced, "
                        "before, and after re-rendering the fixed source with the same Linter.render_string",
                        "whether JJ01 is in the run's rule pack"]
    rep.assumptions = ["re-templating the fixed source with the same config yields the tags of the fixed source"]
    return rep.finish()


def replay(path, tier, seed):
    case = json.load(open(path))["case"]
    rep = Report(PROP, tier, seed, "model_checking")
    if case["kind"] == "model":
        got = P.replay_case(case["rec"], case.get("k", 0))
        clause, _ = P.judge_case(case["rec"], got)
        if clause == "TemplateCellsPreserved":
            rep.violation(clause, {}, f"real output {got['out_str']!r}", case)
    else:
        it = case["item"]
        t = _worker((it[0], it[1], it[2], it[3], it[4], it[5]))
        if t and "events" in t:
            val = validate_traces("PatchesTrace", [P.wire(t)], constants=TCONST)
            for r in val.rejected:
                if r["clause"] in TRACE_CLAUSES:
                    rep.violation(r["clause"], {}, f"fix of {t['sql']!r} -> {t['fixed']!r} rejected again at step {r['step']}", case)
    if rep.violations:
        print(f"VIOLATION property={PROP} replay={path}")
        print("  " + rep.violations[0]["what"][:1500])
        return 1
    print("replay: behaviour now satisfies the contract")
    return 0
