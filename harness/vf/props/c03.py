"""C03 — parse trees are well formed and indentation markers balance.   (see treesuite.py)"""
from . import treesuite


def run(tier, seed):
    return treesuite.run("C03", tier, seed)


def replay(path, tier, seed):
    return treesuite.replay("C03", path, tier, seed)
