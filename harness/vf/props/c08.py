"""C08 — Jinja rendering fidelity: the SQL sqlfluff lints is what Jinja renders.

Spec:  spec/Render.tla part "jj" (balanced template skeletons, FastPath / Template contract =
       TemplateClause) and spec/RenderTrace.tla (trace validator).
S->C:  TLC enumerates every balanced skeleton (sequence of fragments: SQL literals, {{ }} rendering text /
       nothing / a space, if / elif / else / endif, for / endfor, set (both forms), comment, whitespace-control
       variants, raw, a line starting with '#', macro definition + call, do) up to the bound and emits it with the
       contract-side value of `markers`.  Each is concretised, rendered through Linter.render_string (primary
       variant) and through an independently built jinja2 SandboxedEnvironment(keep_trailing_newline=True,
       extensions=['jinja2.ext.do']) with the same context; the Template event (rendered id, reference id,
       fast path taken?) is validated by RenderTrace.
C->S:  the same event is recorded for every dialect fixture (marker-free: rendered must equal the
       newline-normalised source), every templater fixture under test/fixtures/templater with its .sqlfluff
       context / macros / libraries, CRLF / CR / trailing-newline variants, brace edge cases, marker-free
       sources under macro/library configuration (fast path must not be taken), and undefined variables (only
       the presence of a templater violation is required).
"""
from __future__ import annotations

import glob
import json
import os
import random
import re
from typing import Any, Dict, List, Optional, Tuple

from ..core import Report, expect_model_ok
from ..par import pmap
from ..tlc import MachineryError, validate_traces
from .. import render as R
from .. import sq

PROP = "C08"
A1 = ["LIT", "NL", "VT", "VE", "IFT", "IFF", "ELSE", "ENDIF", "FOR", "ENDFOR", "CMT", "WIF", "WV", "SET"]
TRACE_CONSTS = {"Part": "trace", "MaxLen": 0, "PyAlphabet": set(), "Styles": set(), "JjAlphabet": set()}

# ------------------------------------------------------------------------------------------ recorder
_STATE = {"crf": 0, "fast": None}


def install() -> None:
    """Wrap JinjaTemplater.process / construct_render_func (function boundaries, no source change)."""
    from sqlfluff.core.templaters.jinja import JinjaTemplater

    if getattr(JinjaTemplater, "_vf_c08", False):
        return
    try:
        orig_process = JinjaTemplater.process
        orig_crf = JinjaTemplater.construct_render_func
    except AttributeError as e:
        raise MachineryError(f"C08 recorder seam missing: {e}")

    def process(self, *, in_str, fname, config=None, formatter=None):
        before = _STATE["crf"]
        out = orig_process(self, in_str=in_str, fname=fname, config=config, formatter=formatter)
        if _STATE["fast"] is None:          # first process() of this render = the primary variant
            _STATE["fast"] = _STATE["crf"] == before
        return out

    def construct_render_func(self, fname=None, config=None):
        _STATE["crf"] += 1
        return orig_crf(self, fname=fname, config=config)

    JinjaTemplater.process = process
    JinjaTemplater.construct_render_func = construct_render_func
    JinjaTemplater._vf_c08 = True


def norm_nl(text: str) -> str:
    return re.sub(r"\r\n|\r", "\n", text)


def has_markers(text: str) -> bool:
    return "{{" in text or "{%" in text or "{#" in text


def lib_config(cfg) -> bool:
    sec = lambda *k: cfg.get_section(("templater", "jinja") + k)  # noqa: E731
    return bool(sec("macros") or sec("load_macros_from_path") or sec("library_path") or cfg.get("library_path"))


# ----------------------------------------------------------------------------------------- reference
def _paths(cfg, key: str) -> List[str]:
    v = cfg.get_section(("templater", "jinja", key))
    return [p.strip() for p in v.split(",") if p.strip()] if isinstance(v, str) else []


def reference(text: str, cfg, fname: str) -> Tuple[Optional[str], Optional[str], List[str], bool]:
    """Render `text` with an independently built environment -> (out | None, error, undefined names, mutated)."""
    from jinja2 import FileSystemLoader, Undefined
    from jinja2.sandbox import SandboxedEnvironment
    from jinja2.utils import missing
    from sqlfluff.core.templaters.jinja import JinjaTemplater

    seen: List[str] = []

    class RecUndefined(Undefined):
        def __init__(self, *a, **k):
            super().__init__(*a, **k)
            if self._undefined_obj is missing and self._undefined_name is not None:
                seen.append(str(self._undefined_name))

    templater = JinjaTemplater()
    exts: List[Any] = ["jinja2.ext.do"]
    dbt = cfg.get_section(("templater", "jinja", "apply_dbt_builtins"))
    if dbt:
        from sqlfluff.core.templaters.jinja import DBTTestExtension
        exts.append(DBTTestExtension)
    paths = _paths(cfg, "loader_search_path") + _paths(cfg, "load_macros_from_path")
    try:
        env = SandboxedEnvironment(keep_trailing_newline=True, autoescape=False, extensions=exts,
                                   loader=FileSystemLoader(paths) if paths else None, undefined=RecUndefined)
        ctx = templater._get_env_context(fname, cfg, env)      # the templater's own context (incl. macros, libraries)
        before = _mutable_repr(ctx)
        del seen[:]
        out = env.from_string(text, globals=ctx).render()
        return out, None, sorted(set(seen)), _mutable_repr(ctx) != before
    except Exception as e:  # noqa: BLE001 - the reference failing is data (ref = 0)
        return None, type(e).__name__ + ": " + str(e)[:100], sorted(set(seen)), False


def _mutable_repr(ctx: Dict[str, Any]) -> str:
    return repr(sorted((k, repr(v)) for k, v in ctx.items() if isinstance(v, (list, dict, set))))


# -------------------------------------------------------------------------------------------- a case
def record(cid: str, text: str, cfg, fname: str, origin: str, markers: Optional[bool] = None,
           feature: str = "") -> dict:
    """Render through the real linter and the reference; return one trace (+ human readable meta)."""
    install()
    lt = sq.linter(cfg)
    _STATE["fast"] = None
    crash = None
    try:
        rf = lt.render_string(text, fname=fname, config=cfg, encoding="utf-8")
        out = rf.templated_variants[0].templated_str if rf.templated_variants else None
        tmp = bool(rf.templater_violations)
        tmpmsg = str(rf.templater_violations[0])[:100] if tmp else ""
    except Exception as e:  # noqa: BLE001 - recorded, judged by the contract (out = 0, tmp = FALSE)
        out, tmp, tmpmsg, crash = None, False, "", f"{type(e).__name__}: {str(e)[:100]}"
    fast = bool(_STATE["fast"])
    src = norm_nl(text)
    ref, referr, undef, mutated = reference(text, cfg, fname)
    own = has_markers(text)
    if markers is not None and markers != own:
        raise MachineryError(f"concretisation of {cid} has markers={own}, Render.tla says {markers}: {text!r}")
    ids: Dict[str, int] = {}
    intern = lambda t: 0 if t is None else ids.setdefault(t, len(ids) + 1)  # noqa: E731
    ev = {"ev": "Template", "src": intern(src), "out": intern(out), "ref": intern(ref), "fast": fast,
          "markers": own, "libcfg": lib_config(cfg), "tmp": tmp, "undef": bool(undef)}
    return {"id": cid, "events": [ev],
            "meta": {"text": text, "fname": fname, "origin": origin, "feature": feature, "out": out, "ref": ref,
                     "referr": referr, "undef": undef, "mutated": mutated, "tmpmsg": tmpmsg, "crash": crash}}


_SKEL_CFG: Dict[str, Any] = {}


def skeleton_cfg():
    if "c" not in _SKEL_CFG:
        _SKEL_CFG["c"] = sq.config("ansi", "jinja", configs={"templater": {"jinja": {"context": dict(R.JJ_CONTEXT)}}})
    return _SKEL_CFG["c"]


def _skel_chunk(arg):
    out = []
    cfg = skeleton_cfg()
    for idx, frags, markers in arg:
        text = R.jj_source(frags)
        t = record(f"k{idx}", text, cfg, "c08.sql", "skeleton", markers, feature=",".join(sorted(set(frags))))
        t["meta"]["frags"] = frags
        out.append(_slim(t))
    return out


def _slim(t: dict) -> dict:
    """Keep the rendered texts only where they differ (they are only needed to describe a rejection)."""
    m = t["meta"]
    if m["out"] == m["ref"]:
        m["out"] = m["ref"] = None if m["out"] is None else "<equal>"
    return t


# ------------------------------------------------------------------------------------------- corpus
EDGE = ["SELECT '{' , '}}' FROM t\n", "a { % b\n", "#}\n", "{ {\n", "{\n{\n", "SELECT 1 -- {x}\n", "%}{\n", "{", "}}",
        "\n", " ", "# only\n", "SELECT '{{' FROM t\n", "SELECT {# c\n", "{% if %}\n", "SELECT {{ 1 }\n", "a\n\n\n",
        "SELECT \\{\\{ x\n", "{{ '{{' }}\n", "{# {{ #}x\n", "{%- raw -%} {{ {%- endraw -%}\n", "﻿SELECT 1\n",
        "SELECT ' ' {{ 1 }} x\n", "a\x0bb\x0cc {{ 1 }}\n",
        # an ordinary brace before the first tag: the file still has to go through Jinja
        "SELECT '{\"k\": 1}' AS j, {{ v }} FROM {{ v }}\n", "SELECT '{}' , {{ v }}\n", "SELECT ${x}, {% if t %}a{% endif %}\n",
        "SELECT '{1,2}' {# c #}\n", "{ {{ v }}\n", "SELECT '}{' {{ v }} '{'\n", "{x}{%- if t -%} a {%- endif -%}\n"]
UNDEF = [("print", "SELECT {{ u }} FROM t\n"), ("attr", "SELECT {{ u.x }} FROM t\n"), ("item", "SELECT {{ u['k'] }} FROM t\n"),
         ("iterate", "SELECT {% for x in u %}a{% endfor %} FROM t\n"), ("filter", "SELECT {{ u|upper }} FROM t\n"),
         ("default-filter", "SELECT {{ u|default('d') }} FROM t\n"), ("concat", "SELECT {{ u ~ 'x' }} FROM t\n"),
         ("print-in-if", "SELECT {% if t %}{{ u }}{% endif %} FROM t\n"),
         ("bool-test", "SELECT {% if u %}a{% else %}b{% endif %} FROM t\n"),
         ("bool-test", "SELECT {{ 1 if u else 2 }} FROM t\n"), ("bool-test", "SELECT {{ u or 'z' }} FROM t\n"),
         ("bool-test", "SELECT {% if not u %}a{% endif %} FROM t\n"),
         ("is-defined-test", "SELECT {% if u is defined %}a{% else %}b{% endif %} FROM t\n"),
         ("compare", "SELECT {% if u == 1 %}a{% else %}b{% endif %} FROM t\n"),
         ("set-from", "{% set y = u %}SELECT {{ y }} FROM t\n"), ("macro-arg", "{% macro f(a) %}{{ a }}{% endmacro %}SELECT {{ f(u) }}\n")]


def _variants(text: str, rnd: random.Random) -> List[Tuple[str, str]]:
    base = norm_nl(text)
    return [("crlf", base.replace("\n", "\r\n")), ("cr", base.replace("\n", "\r")),
            ("no-trailing-nl", base.rstrip("\n")), ("extra-trailing-nl", base + "\n\n"),
            ("mixed-nl", "".join(ch if ch != "\n" else rnd.choice(["\n", "\r\n"]) for ch in base))]


def _corpus_chunk(arg):
    out = []
    for cid, kind, path, text, origin, feature in arg:
        if kind == "plain":
            cfg = sq.config("ansi", "jinja")
            fname = path
        elif kind == "skel":
            cfg, fname = skeleton_cfg(), path
        else:  # "dir": configuration of the fixture's directory (.sqlfluff context, macros, libraries)
            cfg = sq.cfg_for("ansi", "path", path)
            fname = path
            if cfg.get("templater") != "jinja":
                continue
        out.append(_slim(record(cid, text, cfg, fname, origin, None, feature)))
    return out


def corpus_items(tier: str, seed: int) -> List[tuple]:
    rnd = random.Random(seed)
    items: List[tuple] = []
    files = list(sq.dialect_corpus())
    for i, (path, _d) in enumerate(files):
        items.append((f"d{i}", "plain", path, sq.read(path), "dialect-fixture", ""))
    nvar = 150 if tier == "quick" else 1200
    for j, (path, _d) in enumerate(sq.stratified(files, lambda x: x[1], nvar, seed)):
        for name, txt in _variants(sq.read(path), rnd):
            items.append((f"v{j}{name}", "plain", path, txt, "dialect-fixture-variant", name))
    fx = [p for p in sq.templater_fixtures() if "/jinja" in p]
    for i, path in enumerate(fx):
        text = sq.read(path)
        items.append((f"t{i}", "dir", path, text, "templater-fixture", os.path.basename(os.path.dirname(path))))
        for name, txt in _variants(text, rnd):
            items.append((f"t{i}{name}", "dir", path, txt, "templater-fixture-variant", name))
    # marker-free sources under every fixture configuration (macros / libraries configured => no fast path)
    for i, d in enumerate(sorted({os.path.dirname(p) for p in fx})):
        items.append((f"m{i}", "dir", os.path.join(d, "vf_marker_free.sql"), "SELECT 1 AS marker_free\n",
                      "marker-free-under-config", os.path.basename(d)))
    for i, txt in enumerate(EDGE):
        items.append((f"e{i}", "skel", "c08_edge.sql", txt, "edge", ""))
        items.append((f"e{i}crlf", "skel", "c08_edge.sql", txt.replace("\n", "\r\n"), "edge", "crlf"))
    for i, (use, txt) in enumerate(UNDEF):
        items.append((f"u{i}", "skel", "c08_undef.sql", txt, "undefined", use))
    return items


# --------------------------------------------------------------------------------------------- verdicts
def judge(rep: Report, traces: List[dict]) -> None:
    val = validate_traces("RenderTrace", [{"id": t["id"], "events": t["events"]} for t in traces],
                          constants=TRACE_CONSTS, batch=50000, timeout=1800)
    rep.validation(val, "RenderTrace")
    by = {t["id"]: t for t in traces}
    for r in val.rejected:
        t = by[r["id"]]
        m, ev = t["meta"], t["events"][0]
        sig = {"origin": m["origin"]}
        if r["clause"] == "UndefinedGivesTemplaterError":
            sig["use"] = m["feature"] if m["origin"] == "undefined" else "other"
        elif r["clause"] == "RenderedEqualsReference":
            sig["mutates_context"] = bool(m["mutated"])
            if not m["mutated"]:
                sig["feature"] = m["feature"]
        else:
            sig["feature"] = m["feature"]
        if m["crash"]:
            sig["crash"] = m["crash"].split(":")[0]
            sig["shape"] = "endraw-left-strip" if re.search(r"\{%-\s*endraw", m["text"]) else "other"
        what = (f"{m['origin']} {m['fname']} {m['text'][:300]!r}: rendered {m['out']!r}, reference {m['ref']!r}"
                f"{' (' + m['referr'] + ')' if m['referr'] else ''}, fast_path={ev['fast']} markers={ev['markers']} "
                f"libcfg={ev['libcfg']} templater_violation={ev['tmp']}{' ' + m['tmpmsg'] if m['tmpmsg'] else ''} "
                f"undefined={m['undef']}{' CRASH ' + m['crash'] if m['crash'] else ''}")
        rep.violation(r["clause"], sig, what, {"trace": {k: v for k, v in t.items()}, "verdict": r})
    for t in traces:
        ev, m = t["events"][0], t["meta"]
        if ev["markers"] and ev["ref"] != 0:
            rep.nontrivial(m["text"])
        if not ev["fast"] and not ev["markers"] and not ev["libcfg"] and ev["src"] != 0 and m["text"] != "":
            rep.drift.append(f"fast path not taken for marker-free source {m['text'][:60]!r} ({m['fname']})")


def run(tier: str, seed: int) -> int:
    rep = Report(PROP, tier, seed, "model_checking")
    install()
    # 1. S->C: skeletons
    scopes = [(A1, 5), (R.JJ_KINDS, 3)] if tier == "quick" else [(A1, 6), (R.JJ_KINDS, 4)]
    skel: Dict[tuple, bool] = {}
    from concurrent.futures import ThreadPoolExecutor

    w = max(1, int(os.environ.get("VF_PROCS", "14") or 14) // 2)
    with ThreadPoolExecutor(2) as ex:       # the two enumerations are independent; both finish before any fork
        futs = [ex.submit(R.run_part, "jj", n, jj_alphabet=alphabet, invariants=["JjBalanced"], timeout=2400,
                          heap="4g", workers=w) for alphabet, n in scopes]
    for (alphabet, n), fut in zip(scopes, futs):
        m = fut.result()
        expect_model_ok(m, "Render(jj): skeleton enumeration")
        rep.model(m, f"balanced template skeletons <= {n} fragments over {len(alphabet)} kinds")
        got = [r for r in m.records if "frags" in r]
        if not got:
            raise MachineryError("Render(jj) emitted no skeleton")
        for r in got:
            skel.setdefault(tuple(r["frags"]), bool(r["markers"]))
    items = [(i, list(fr), mk) for i, (fr, mk) in enumerate(sorted(skel.items()))]
    chunks = [items[i:i + 500] for i in range(0, len(items), 500)]
    traces: List[dict] = []
    for part in pmap(_skel_chunk, chunks, chunksize=1):
        traces += part
    nskel = len(traces)
    # 2. C->S: corpus, fixtures, variants, edges, undefined variables
    citems = corpus_items(tier, seed)
    cchunks = [citems[i:i + 100] for i in range(0, len(citems), 100)]
    for part in pmap(_corpus_chunk, cchunks, chunksize=1):
        traces += part
    rep.evaluated(2 * len(traces))
    judge(rep, traces)
    rep.exhaustive = True
    ex = next((t for t in traces if t["meta"].get("frags") and len(t["meta"]["frags"]) >= 4 and t["events"][0]["markers"]), traces[0])
    rep.sample({"frags": ex["meta"].get("frags"), "text": ex["meta"]["text"], "event": ex["events"][0]})
    rep.extra["inputs"] = {"skeletons": nskel, "corpus_and_generated": len(traces) - nskel,
                           "fast_path_taken": sum(1 for t in traces if t["events"][0]["fast"]),
                           "reference_failed": sum(1 for t in traces if t["events"][0]["ref"] == 0),
                           "undefined": sum(1 for t in traces if t["events"][0]["undef"])}
    rep.rule = ("TLC enumerates every balanced skeleton up to the bound (exhaustive part); plus all dialect fixtures, all "
                "jinja templater fixtures with their configuration, newline variants, edge and undefined-variable inputs; "
                "non-trivial = the source contains a Jinja marker and the reference rendered it; distinct by source text")
    rep.trusted_base = ["jinja2 itself (the reference render)", "JinjaTemplater._get_env_context for the reference's context",
                        "concretisation of fragments (vf/render.py JJ_TEXT / JJ_CONTEXT)",
                        "recorder: wrappers on JinjaTemplater.process / construct_render_func; text interning per trace",
                        "RecUndefined: an undefined *name* was evaluated by the reference render"]
    return rep.finish()


def replay(path, tier, seed):
    case = json.load(open(path))["case"]
    m = case["trace"]["meta"]
    origin = m["origin"]
    if origin in ("skeleton", "edge", "undefined"):
        cfg = skeleton_cfg()
    elif origin.startswith("dialect"):
        cfg = sq.config("ansi", "jinja")
    else:
        cfg = sq.cfg_for("ansi", "path", m["fname"])
    t = record("r0", m["text"], cfg, m["fname"], origin, None, m.get("feature", ""))
    val = validate_traces("RenderTrace", [{"id": t["id"], "events": t["events"]}], constants=TRACE_CONSTS)
    if val.rejected:
        print(f"VIOLATION property={PROP} replay={path}")
        print(f"  clause={val.rejected[0]['clause']} event={t['events'][0]}")
        return 1
    print("replay: behaviour now satisfies the contract")
    return 0
