"""C04 — parse, lint and fix never crash.

Spec:  spec/Pipeline.tla (per-file lifecycle; no Crash action; parse-limit contract) + spec/PipelineTrace.tla
       input spaces: spec/TokSeq.tla, spec/Skeleton.tla
C->S:  whole entry-point calls (Linter.parse_string / lint_string(fix=False|True) + fix_string) are recorded for
       corpus files, seeded mutants, crash-oriented constructions (deep nesting, huge lists with lowered limits,
       empty / comment-only files, control characters, templater edge cases) and TLC-enumerated small scopes,
       and validated against Pipeline: an escaping exception is not a behaviour; exceeding max_parse_nodes must
       yield a PRS violation and no tree.
"""
from __future__ import annotations

import json
import random
from typing import Any, Dict, List

from ..core import Report, expect_model_ok
from ..tlc import MachineryError, cfg_text, run_tlc, validate_traces
from .. import cache, mutate, piperec, sq
from . import c01
from .treesuite import VOCAB

PROP = "C04"


def constructed(rnd: random.Random, quick: bool):
    """(text, dialect, templater, mode, overrides) crash-oriented inputs."""
    out = []
    for n in ([5, 40, 200] if quick else [5, 40, 200, 800, 3000]):
        out.append(("SELECT " + "(" * n + "1" + ")" * n + "\n", "ansi", "raw", None))
        out.append(("SELECT " + "(" * n + "1" + ")" * n + "\n", "ansi", "raw", {"max_parse_depth": 20}))
        out.append(("SELECT " + "(" * n + "\n", "tsql", "raw", None))
        out.append(("SELECT " + "CASE WHEN a THEN " * n + "1" + " END" * n + "\n", "postgres", "raw", None))
        out.append(("SELECT " + "a + " * n + "1\n", "bigquery", "raw", None))
    for n in ([50, 400] if quick else [50, 400, 5000]):
        out.append(("SELECT " + ", ".join(f"c{i}" for i in range(n)) + " FROM t\n", "ansi", "raw", {"max_parse_nodes": 100}))
        out.append(("SELECT " + ", ".join(f"c{i}" for i in range(n)) + " FROM t\n", "snowflake", "raw", {"max_parse_nodes": n}))
        out.append(("INSERT INTO t VALUES " + ", ".join(f"({i}, 'x')" for i in range(n)) + ";\n", "mysql", "raw", {"max_parse_nodes": 1}))
    for text in ["", "\n", " ", "-- only a comment", "/* unterminated", "'", '"', "`", "\x00", "﻿", "\r", ";", ";;", "(", ")",
                 "SELECT", "SELECT\n", "select 1 -- noqa", "-- noqa: disable=all",
"{{", "{% if %}", "{% for x in %}a{% endfor %}", "{{ undefined_var }}",
                 "{% endif %}", "{# unterminated", "SELECT {{ 1/0 }}", "{% raw %}", "{% set x %}"]:
        for d in ("ansi", "tsql"):
            out.append((text, d, "jinja", None))
    # known templater edge cases (python: F24 / F25; grammar: dangling references F20; Delimited append)
    for text in ["SELECT '{' AS a  FROM t", "SELECT {} FROM t", "SELECT {x:} FROM t", "SELECT {0} FROM t", "SELECT {x!z} FROM t",
                 "SELECT {x.y.z} FROM t", "}", "{", "{{}", "SELECT {x[0]} FROM t"]:
        out.append((text, "ansi", "python", {"configs": {"templater": {"python": {"context": {"x": "a"}}}}}))
    out.append(("GRANT SELECT ON FUTURE FILE FORMATS IN SCHEMA s TO ROLE r;\n", "ansi", "raw", None))
    out.append(("ALTER TABLE t EXCHANGE PARTITION p WITH TABLE u;\n", "mysql", "raw", None))
    return out


def build_items(tier: str, seed: int, seqs, skels):
    rnd = random.Random(seed)
    quick = tier == "quick"
    items = []
    corpus = list(sq.dialect_corpus())
    for i, (p, d) in enumerate(sq.stratified(corpus, lambda x: x[1], 84 if quick else 900, seed)):
        for mode in ("lint", "fix"):
            items.append((sq.read(p), d, "jinja", mode, p, f"c{i}.{mode}", None))
    for i, (p, d) in enumerate(sq.stratified(corpus, lambda x: x[1], 120 if quick else 1500, seed + 3)):
        for j, mt in enumerate(mutate.mutants(sq.read(p), 2, rnd)):
            items.append((mt, d, "jinja", ("parse", "lint", "fix")[(i + j) % 3], f"<mutant of {p}>", f"x{i}.{j}", None))
    for i, (text, d, tmpl, ov) in enumerate(constructed(rnd, quick)):
        for mode in ("parse", "fix"):
            items.append((text, d, tmpl, mode, f"<constructed {i}>", f"n{i}.{mode}", ov))
    alld = list(sq.dialects())
    for d in dict.fromkeys(["ansi", alld[seed % len(alld)]]):
        for si, s in enumerate(seqs):
            items.append((" ".join(VOCAB[w - 1] for w in s) + "\n", d, "raw", "lint" if si % 2 else "fix", f"<seq {si}>", f"q{d}.{si}", None))
    for i, fr in enumerate(skels):
        items.append((c01.skeleton_sql(fr), "ansi", "jinja", "fix" if i % 3 == 0 else "lint", f"<skel {'.'.join(fr)}>", f"k{i}", {"configs": c01.SKEL_CTX}))
    return items


def sig_of(t: Dict[str, Any], r: Dict[str, Any]) -> Dict[str, Any]:
    inp = t["input"]
    sig = {"clause": r["clause"], "templater": inp["templater"]}
    ev = t["events"][r["step"] - 1] if 0 < r["step"] <= len(t["events"]) else {}
    if ev.get("ev") == "Crash":
        sig.update({"exc": ev["exc"], "site": ev["site"], "msg": ev["msg"][:60]})
    return sig


def run(tier: str, seed: int) -> int:
    rep = Report(PROP, tier, seed, "exploration")
    piperec.check_seams()
    quick = tier == "quick"
    pm = run_tlc("Pipeline", cfg_text(spec="PSpec", invariants=["TypeOK", "NoLintInParseMode"]), timeout=600)
    expect_model_ok(pm, "Pipeline lifecycle")
    rep.model(pm, "per-file lifecycle state machine (bounded)")
    ts = run_tlc("TokSeq", cfg_text(constants={"NWords": len(VOCAB), "MaxLen": 2 if quick else 3}, invariants=["Bounded"]), timeout=1800)
    expect_model_ok(ts, "TokSeq")
    rep.model(ts, "small-scope word sequences")
    sk = run_tlc("Skeleton", cfg_text(constants={"MaxFrags": 3 if quick else 4, "Emit": True}, invariants=["Balanced"]), timeout=1800)
    expect_model_ok(sk, "Skeleton")
    rep.model(sk, "small-scope Jinja skeletons")
    items = build_items(tier, seed, ts.records, sk.records)
    for i, f in enumerate(rep.findings):
        w = f.get("witness")
        if w:
            items.append((w["text"], w.get("dialect", "ansi"), w.get("templater", "raw"), w.get("mode", "parse"), f"<witness {f['key']}>",
                          f"w{i}", w.get("overrides")))
    traces = cache.cached("pipe-c04", [tier, seed, len(items)], lambda: piperec.run_many(items))
    rep.evaluated(len(traces))
    val = validate_traces("PipelineTrace", [piperec.strip_for_tlc(t) for t in traces], timeout=1800, batch=5000)
    rep.validation(val, "PipelineTrace")
    by = {t["id"]: t for t in traces}
    for r in val.rejected:
        t = by[r["id"]]
        inp = t["input"]
        ev = t["events"][r["step"] - 1] if 0 < r["step"] <= len(t["events"]) else {}
        rep.violation(r["clause"], sig_of(t, r),
                      f"{inp['mode']} of {inp['fname']} dialect={inp['dialect']} templater={inp['templater']}: {r['clause']} "
                      f"{ev.get('exc', '')} {ev.get('msg', '')[:100]} @ {ev.get('site', '')}; input={inp['text'][:120]!r}",
                      {"kind": "pipe", "input": inp, "verdict": r, "tb": ev.get("tb")})
    for t in traces:
        evs = t["events"]
        if any(e["ev"] == "Parse" and (e["nprs"] or not e["tree"]) for e in evs) or any(e["ev"] == "Render" and e.get("ntmp") for e in evs):
            rep.nontrivial(piperec_digest(t))
    rep.sample({"mode": traces[0]["mode"], "input": traces[0]["input"]["text"][:120], "events": traces[0]["events"][:6]})
    rep.rule = ("entry-point calls on corpus files, mutants, constructed crash-oriented inputs and TLC-enumerated small scopes; "
                "non-trivial = the run reported a TMP or PRS problem (the error paths are the ones that can crash); distinct by input+mode")
    rep.trusted_base = ["harness/vf/piperec.py wrappers", "exceptions are caught only at the outermost entry point by the recorder"]
    rep.assumptions = ["valid configuration (existing dialect, templater configured as it requires); interpreter recursion limits are outside the model"]
    return rep.finish()


def piperec_digest(t):
    import hashlib
    return hashlib.sha256(json.dumps([t["input"]["text"], t["input"]["dialect"], t["mode"]]).encode()).hexdigest()[:12]


def replay(path, tier, seed):
    case = json.load(open(path))["case"]
    inp = case["input"]
    t = piperec.run_entry(inp["text"], inp["dialect"], inp["templater"], inp["mode"], fname=inp["fname"], tid="replay", overrides=inp.get("overrides"))
    val = validate_traces("PipelineTrace", [piperec.strip_for_tlc(t)])
    if val.rejected:
        print(val.rejected, [e for e in t["events"] if e["ev"] == "Crash"])
        print(f"VIOLATION property={PROP} replay={path}")
        return 1
    print("replay: behaviour now satisfies the contract")
    return 0
