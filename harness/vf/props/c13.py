"""C13 — fixing never makes a parsable file unparsable.

Spec:  spec/FixLoop.tla (Algo = transcription of Linter.lint_fix_parsed, Contract = AdoptedTreesValid /
       NoRevisit / LimitRollback / IdempotentIfAcyclic), spec/FixContract.tla + FixTrace.tla (contract over
       recorded fix runs; clauses AdoptedTreesValid, NoRevisit, LimitRollback, TreeContinuity, ReparseClean).
TLC:   FixLoop exhaustively over every rule behaviour of the scope (lazy tables), Algo => Contract.
S->C:  every emitted behaviour is replayed into the real lint_fix_parsed with synthetic rules in a real
       RulePack (vf/fixloop_replay.py); the recorded events are decided by FixTrace (Prop = ENGINE);
       differences with the transcription's predicted result / decisions are DRIFT.
C->S:  recorded fix runs (vf/fixrec.py) of dialect fixtures (all rules), operator-adjacency inputs and corpus
       mutants, rule yaml fail cases under their own config, templated rule cases under all rules and under
       the layout group; the fixed source is re-linted and FixTrace (Prop = C13) decides
       `clean before => clean after` plus the engine clauses on every real run.
"""
from __future__ import annotations

from .. import fixloop_replay as flr
from .. import fixsuite as fs
from ..core import Report

PROP = "C13"
PARTS = ["corpus_all", "adjacency", "mutants", "cases_own", "cases_templated_all", "cases_layout"]


def _bad(t: dict) -> bool:
    return any(e["ev"] == "Reparse" and e["clean0"] and not e["clean1"] for e in t["events"])


def describe(t: dict, r: dict):
    case = t["case"]
    if r["clause"] == "ReparseClean":
        rule = fs.glue_culprit(t) or fs.culprit_by_single_rule(t, _bad)
        crash = next((e.get("crash") for e in t["events"] if e["ev"] == "Reparse" and e.get("crash")), None)
        how, kinds = fs.lex_signature(t)
        sig = {"rule": rule, "template": fs.template_kind(case), "lex": f"{how}:{kinds}" if kinds else how,
               "reparse": "raises:" + crash if crash else "errors"}
        what = (f"clean input becomes unparsable after fix (rules={case['rules']}, dialect={case['dialect']}, culprit {rule}): "
                f"{case['sql']!r} -> {t.get('fixed')!r}")
    else:
        ap = fs.step_apply(t, r)
        sig = {"rule": ap["rule"] if ap else "?", "level": "pipeline"}
        what = f"fix loop event {r['step']} of {t['id']} breaks {r['clause']} (rule {sig['rule']}): input {case['sql']!r}"
    return sig, what


def run(tier: str, seed: int) -> int:
    rep = Report(PROP, tier, seed, "model_checking")
    records = flr.run_models(rep, tier)
    rep.exhaustive = True
    flr.replay_and_decide(rep, records, tier, seed)
    traces = fs.load_case_traces(PARTS, tier, seed, rep)
    fs.decide(rep, PROP, traces, describe, lambda t: t["clean0"] and len(fs.adoptions(t)) >= 1)
    rep.rule = ("engine: TLC enumerates every behaviour of lint_fix_parsed for the rule-table scope (non-trivial = at least one "
                "adopted fix in the first run, distinct by rule pack and limit); pipeline: one trace per (input, rule set), "
                "non-trivial = clean input with at least one adopted fix batch")
    rep.trusted_base = ["vf/fixrec.py wrappers (BaseRule.crawl, linter.apply_fixes, Linter.lint_fix_parsed) and the limit-warning watcher",
                        "synthetic rule concretisation (vf/fixloop_replay.py): marker token rewrite, stray `+` for an invalid proposal",
                        "clean bit = no SQLTemplaterError/SQLLexError/SQLParseError among LintedFile.violations"]
    rep.assumptions = ["version = (tree.raw, source_fixes); conflict-anchor branch of the loop not modelled (pragma: no cover)"]
    return rep.finish()


def replay(path: str, tier: str, seed: int) -> int:
    import json

    rec = json.load(open(path))
    case = rec["case"]
    if case.get("kind") == "engine":
        rej = flr.replay_engine_case(case["rec"])
        if rej:
            print(f"VIOLATION property={PROP} replay={path}\n  clause={rej[0]['clause']}")
            return 1
        print("replay: behaviour now satisfies the contract")
        return 0
    return fs.replay_case(path, PROP)
