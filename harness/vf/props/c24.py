"""C24 — parallel and serial runs agree.

Spec:  spec/Runner.tla  (Algo: SequentialRunner / ParallelRunner.run+_apply / imap(_unordered) / lint_paths'
       result assembly and persist, one action per step; Contract: records-as-a-set, written files, skip
       count and exit code are functions of the *bag* of files named), spec/RunnerTrace.tla.
TLC:   every path list over <= 4 files (clean, fixable, parse error, oversize; optionally one named twice)
       x pool size 1..3 x {serial, imap_unordered, imap} x {lint, fix}, all interleavings  => Contract.
       A second run adds a file whose rendering raises: the model predicts the serial runner lets the
       exception escape while the pool swallows it (the contract says: the same either way).
S->C:  terminal states emitted by TLC (path list, pool size, mode, op, completion order, contract values) are
       concretised as small real directories, the completion order becomes a per-file delay plan for the
       runner hook, the real run is made (CLI and API) and compared with the values the record carries.
C->S:  generated directories (10-15 files: clean, fixable, unfixable, parse error, jinja-templated, oversize,
       nested .sqlfluff, duplicate basenames in sub-directories) x processes {2,4(,8)} x MultiProcessRunner /
       MultiThreadRunner x delay plans tiled from TLC completion orders x permuted / duplicated path arguments
       x lint / fix(apply) / fix(no apply) x CLI / Linter.lint_paths / Linter(user_rules=..).  Every run is
       recorded (hook events from all processes + main-side wrappers) and validated by RunnerTrace against
       the serial run of the same command on an identical copy of the directory.
The runner hook (hooks/runner_hook.patch) may or may not be applied to the tree under test; without it the
worker-side events are absent and only the main-side events and the outcomes are validated (evidence says so).
"""
from __future__ import annotations

import concurrent.futures
import json
import os
import random
import shutil
import subprocess
import sys
from typing import Any, Dict, List, Optional, Tuple

from ..core import REPO, Report, expect_model_ok
from ..tlc import MachineryError, cfg_text, run_tlc, scratch, validate_traces

PROP = "C24"
STD_KINDS = {"clean", "fixable", "parse", "oversize"}
UNIT = 0.12  # seconds per rank in a delay plan


def hook_applied() -> bool:
    p = os.path.join(REPO, "src", "sqlfluff", "core", "linter", "runner.py")
    with open(p, encoding="utf-8") as fh:
        return "SQLFLUFF_VERIF" in fh.read()


# ------------------------------------------------------------------------------------------ models
def model_runs(rep: Report, tier: str) -> Tuple[List[dict], List[dict]]:
    modes, ops = {"serial", "unordered", "ordered"}, {"lint", "fix"}
    inv = ["TypeOK", "SerialParallelAgree", "WriteAfterAdd"]
    base = {"MaxN": 3, "Modes": modes, "Ops": ops, "Renders": {False}}
    both = {True, False}
    # 1. verification: Algo => Contract on every interleaving (history merged by the VIEW)
    # (worker-side rendering everywhere; main-process rendering -- Feed/SkipAtSubmit -- on the smaller scope in quick)
    scopes = [(4, True, both)] if tier == "thorough" else [(4, False, {False}), (3, True, {False}), (3, False, {True})]
    for mf, dup, rend in scopes:
        m = run_tlc("Runner", cfg_text(constants={**base, "Kinds": STD_KINDS, "MaxFiles": mf, "AllowDup": dup,
                                                   "Renders": rend, "EmitOn": False}, invariants=inv, view="NoHistory"),
                    timeout=3000, heap="8g", workers=_workers())
        expect_model_ok(m, f"Runner Algo => Contract, <= {mf} files, dup={dup}, main-process rendering in {sorted(rend)}")
        rep.model(m, f"every path list over <= {mf} of 4 file kinds{' (+ one named twice)' if dup else ''} x "
                     f"pool 1..3 x serial/imap_unordered/imap x lint/fix x main-process rendering {sorted(rend)}, "
                     f"all interleavings")
    # 2. emission: terminal states with their completion orders, for replay
    emitted: List[dict] = []
    for mf, dup in ([(3, True)] if tier == "thorough" else [(3, False), (2, True)]):
        m = run_tlc("Runner", cfg_text(constants={**base, "Kinds": STD_KINDS, "MaxFiles": mf, "AllowDup": dup,
                                                   "EmitOn": True}, invariants=inv),
                    timeout=3000, heap="8g", workers=_workers())
        expect_model_ok(m, "Runner emission run")
        rep.model(m, f"emission: <= {mf} files{' + one named twice' if dup else ''}, histories kept apart "
                     f"(one record per terminal state, with its completion order)")
        emitted += [r for r in m.records if isinstance(r, dict) and "comp" in r]
    if not emitted:
        raise MachineryError("Runner emitted no terminal states")
    # TLC prints in worker order: canonical order (and no repeats between the two scopes) => same sample per seed
    emitted = [json.loads(k) for k in sorted({json.dumps(r, sort_keys=True) for r in emitted})]
    bad = [r for r in emitted if r["failing"]]
    if bad:
        raise MachineryError(f"Runner: emitted state fails the contract although the invariant held: {bad[0]}")
    # 3. prediction: a file whose rendering raises
    m2 = run_tlc("Runner", cfg_text(constants={**base, "Kinds": {"clean", "fixable", "raise"}, "MaxFiles": 3,
                                                "AllowDup": False, "Renders": both, "EmitOn": True}, invariants=["TypeOK"]),
                 timeout=3000, heap="8g", workers=_workers())
    expect_model_ok(m2, "Runner with a raising file (no contract invariant: verdicts are emitted)")
    rep.model(m2, "prediction: clean/fixable/raise, <= 3 files; contract clauses evaluated and emitted per terminal state")
    raising = [json.loads(k) for k in sorted({json.dumps(r, sort_keys=True) for r in m2.records
                                              if isinstance(r, dict) and "comp" in r})]
    for r in raising:
        predicted = bool(r["failing"])
        # the exception escapes from the serial runner and from a pool that renders in the main process
        expected = (r["mode"] == "serial" or r["mainrender"]) and "raise" in r["tasks"]
        if predicted != expected:
            raise MachineryError(f"Runner model: unexpected contract verdict on {r}")
    return emitted, raising


def _workers() -> Any:
    cap = int(os.environ.get("VF_PROCS", "0") or 0)
    return min(cap, 16) if cap else "auto"


# ------------------------------------------------------------------------------------------ inputs
SQL = {
    "clean": "SELECT {c} FROM {t}\n",
    "fixable": "SELECT {c}  from {t}\n",
    "unfix": "SELECT * FROM {t}\n",
    "parse": "SELECT {c}  from {t};\nSELECT 1 +  + from ;\n",
    "templ": "SELECT {{{{ '{c}' }}}}  from {t}\n",
    "templclean": "{{% set x = '{c}' %}}SELECT {{{{ x }}}} FROM {t}\n",
}
LIMIT = 600


def file_text(kind: str, rnd: random.Random) -> str:
    c = rnd.choice(["a", "col_b", "amount", "x1"])
    t = rnd.choice(["tb", "orders", "s.tbl", "users"])
    if kind == "oversize":
        return "SELECT {c}  from {t};\n".format(c=c, t=t) * (LIMIT // 18 + 4 + rnd.randrange(5))
    txt = SQL[kind].format(c=c, t=t)
    if kind in ("clean", "fixable", "unfix") and rnd.random() < 0.4:
        txt = txt.rstrip("\n") + ";\n" + SQL[kind].format(c=rnd.choice(["k", "v"]), t=t)
    return txt


def write_tree(root: str, files: Dict[str, str], skip_fail: bool, templater: str = "jinja",
               nested: Optional[Dict[str, str]] = None, warnings: str = "") -> None:
    os.makedirs(root, exist_ok=True)
    with open(os.path.join(root, ".sqlfluff"), "w") as fh:
        fh.write("[sqlfluff]\nrules = LT01,CP01,AM04\n" + (f"warnings = {warnings}\n" if warnings else "") +
                 f"templater = {templater}\nlarge_file_skip_byte_limit = {LIMIT}\n"
                 f"large_file_skip_fail = {skip_fail}\n"
                 "[sqlfluff:rules:capitalisation.keywords]\ncapitalisation_policy = upper\n")
    for d, body in (nested or {}).items():
        os.makedirs(os.path.join(root, d), exist_ok=True)
        with open(os.path.join(root, d, ".sqlfluff"), "w") as fh:
            fh.write(body)
    for rel, txt in files.items():
        p = os.path.join(root, rel)
        os.makedirs(os.path.dirname(p), exist_ok=True)
        with open(p, "w") as fh:
            fh.write(txt)


def big_directory(root: str, rnd: random.Random, k: int) -> Dict[str, str]:
    """10-15 files of every kind, nested config, duplicate basenames.  Returns {relpath: kind}."""
    kinds = ["clean", "clean", "fixable", "fixable", "unfix", "parse", "templ", "templclean", "oversize"]
    kinds += rnd.choices(["clean", "fixable", "unfix", "parse", "templ", "oversize"], k=rnd.randrange(1, 4))
    rnd.shuffle(kinds)
    names = ["alpha", "bravo", "charlie", "delta", "echo", "fox", "golf", "hotel", "india", "juliet", "kilo", "lima"]
    files: Dict[str, str] = {}
    kindof: Dict[str, str] = {}
    for i, kd in enumerate(kinds):
        rel = f"{names[i]}.sql" if i % 3 else f"models/{names[i]}.sql"
        files[rel] = file_text(kd, rnd)
        kindof[rel] = kd
    # duplicate basenames in sub-directories, different text, and a nested config that changes the verdict
    for sub, kd in (("sub1", "fixable"), ("sub2", "clean"), ("sub2/deep", "fixable")):
        files[f"{sub}/x.sql"] = file_text(kd, rnd)
        kindof[f"{sub}/x.sql"] = kd
    files["sub1/y.sql"] = "select a from tb\n"       # clean under sub1's lower-case policy only
    kindof["sub1/y.sql"] = "clean"
    files["sub2/y.sql"] = "select a from tb\n"       # fixable under the root policy
    kindof["sub2/y.sql"] = "fixable"
    nested = {"sub1": "[sqlfluff:rules:capitalisation.keywords]\ncapitalisation_policy = lower\n"}
    files["sub1/x.sql"] = files["sub1/x.sql"].replace("SELECT", "select").replace("from", "FROM")
    write_tree(root, files, skip_fail=bool(k % 2), nested=nested)
    return kindof


RAISE_DIR_CFG = "[sqlfluff]\nlarge_file_skip_byte_limit = abc\n"   # load_raw_file_and_config raises ValueError


def context_directory(root: str, rnd: random.Random) -> Dict[str, str]:
    """Templated files whose *effective templater context differs by directory*: `a/.sqlfluff` defines the jinja
    variable `tbl`, `b/` does not, both contain the same query using it (defined in a/: lints; undefined in b/:
    TMP + PRS); `c/` has two files referencing the same undefined variable; `m/` defines a macro in its context
    that `m/` uses and `b/` does not have.  Any state a templater keeps from one file to the next (context,
    macros, undefined-variable bookkeeping) makes the verdicts depend on who rendered what before -- i.e. on
    the runner (one templater for the whole serial run, a fresh one per task in a pool) and on path order."""
    t = rnd.choice(["orders", "users", "s.tbl"])
    q = "SELECT id  from {{ tbl }}\n"
    files = {
        "a/q.sql": q, "b/q.sql": q,
        "a/r.sql": "SELECT {{ col }} FROM {{ tbl }}\n", "b/r.sql": "SELECT {{ col }} FROM {{ tbl }}\n",
        "c/u1.sql": "SELECT {{ missing_var }}  from tb\n", "c/u2.sql": "SELECT a FROM {{ missing_var }}\n",
        "m/k.sql": "SELECT {{ keyed('id') }}  from tb\n", "b/k.sql": "SELECT {{ keyed('id') }}  from tb\n",
        "plain.sql": file_text("fixable", rnd), "clean.sql": file_text("clean", rnd),
        "big.sql": file_text("oversize", rnd),
    }
    nested = {
        "a": f"[sqlfluff:templater:jinja:context]\ntbl = {t}\ncol = amount\n",
        "m": "[sqlfluff:templater:jinja:macros]\nkeyed = {% macro keyed(c) %}{{ c }}_key{% endmacro %}\n",
    }
    # CP01 is configured as a warning here: a violation's warning flag is part of its record and decides the exit
    # status, and in a pool it has to survive the trip from the worker to the parent.
    write_tree(root, files, skip_fail=False, nested=nested, warnings="CP01")
    return {f: ("oversize" if f == "big.sql" else "templ") for f in files}


def small_name(kind: str) -> str:
    return "rz/raise.sql" if kind == "raise" else f"{kind}.sql"


def small_directory(root: str, kinds: List[str], rnd: random.Random, skip_fail: bool) -> Dict[str, str]:
    """One file per kind.  "raise" = a file whose rendering raises: it sits under a nested .sqlfluff whose byte
    limit is not a number, so Linter.load_raw_file_and_config (called by render_file) raises ValueError."""
    files = {small_name(kd): file_text("clean" if kd == "raise" else kd, rnd) for kd in sorted(set(kinds))}
    write_tree(root, files, skip_fail=skip_fail, nested={"rz": RAISE_DIR_CFG} if "raise" in kinds else None)
    return {small_name(kd): kd for kd in sorted(set(kinds))}


# ------------------------------------------------------------------------------------------ delay plans
def plan_exact(comp: List[int], n: int, names: List[str]) -> Dict[str, float]:
    """TLC completion order over tasks 1..m (m = len(names)) with pool size n -> delays realising it when
    honoured: task i starts when the (i-n)-th completion frees a worker and must finish at rank(i)."""
    rank = {t: k + 1 for k, t in enumerate(comp)}
    out: Dict[str, float] = {}
    for i, name in enumerate(names, start=1):
        d = (rank.get(i, len(names)) - max(0, i - n)) * UNIT     # (aborted run: not every task finished)
        out[name] = round(max(out.get(name, 0.0), d), 3)   # a file named twice has one entry: keep the longer
    return out


def plan_tiled(orders: List[List[int]], names: List[str], rnd: random.Random, unit: float) -> Dict[str, float]:
    """Tile TLC completion orders over a longer submission list: block b of the list gets the ranks of one order."""
    out: Dict[str, float] = {}
    i = 0
    while i < len(names):
        comp = rnd.choice(orders)
        rank = {t: k for k, t in enumerate(comp)}
        for j in range(len(comp)):
            if i + j < len(names):
                out[names[i + j]] = round(rank[j + 1] * unit, 3)
        i += len(comp)
    return out


# ------------------------------------------------------------------------------------------ jobs
def expand(args: List[str], kindof: Dict[str, str]) -> List[List[str]]:
    """What each path argument names (the harness' own knowledge of the tree it generated)."""
    out = []
    for a in args:
        a_n = os.path.normpath(a)
        if a_n in kindof:
            out.append([a_n])
        else:
            pre = "" if a_n == "." else a_n + "/"
            out.append(sorted(f for f in kindof if f.startswith(pre)))
    return out


def run_jobs(jobs: List[dict], work: str) -> Dict[str, dict]:
    env = dict(os.environ)
    env["PYTHONPATH"] = os.pathsep.join([os.path.join(os.path.dirname(os.path.dirname(os.path.dirname(__file__)))),
                                         os.path.join(REPO, "src")])
    env.pop("SQLFLUFF_VERIF_TRACE", None)
    conc = max(1, int(os.environ.get("VF_PROCS", "14") or 14) // 2)

    def go(job: dict) -> Tuple[str, dict]:
        jd = os.path.join(work, job["id"])
        os.makedirs(jd, exist_ok=True)
        job = dict(job, work=os.path.join(jd, "w"))
        jf, of = os.path.join(jd, "job.json"), os.path.join(jd, "out.json")
        with open(jf, "w") as fh:
            json.dump(job, fh)
        p = subprocess.run([sys.executable, "-B", "-m", "vf.c24_run", jf, of], cwd=jd, env=env,
                           capture_output=True, text=True, timeout=1800)
        if p.returncode != 0 or not os.path.exists(of):
            raise MachineryError(f"C24 recorder failed on job {job['id']}:\n{(p.stdout + p.stderr)[-3000:]}")
        with open(of) as fh:
            return job["id"], json.load(fh)

    out: Dict[str, dict] = {}
    with concurrent.futures.ThreadPoolExecutor(conc) as ex:
        for jid, res in ex.map(go, jobs):
            out[jid] = {r["id"]: r for r in res["runs"]}
    return out


# ------------------------------------------------------------------------------------------ traces
class Interner:
    def __init__(self) -> None:
        self.t: Dict[str, int] = {}

    def __call__(self, v: Any) -> int:
        k = json.dumps(v, sort_keys=True)
        return self.t.setdefault(k, len(self.t) + 1)


def build_trace(tid: str, run: dict, base: dict, spec: dict, kindof: Dict[str, str], hook: bool,
                rec_id: Interner, cid: Interner, xid: Interner) -> dict:
    """Dumb projection of a recorded run + its serial baseline into RunnerTrace's vocabulary."""
    fids = {f: i + 1 for i, f in enumerate(sorted(kindof))}
    nf = len(fids)
    norm = lambda p: os.path.normpath(p)
    exp = expand(spec["paths"], kindof)
    tasks = [fids[f] for grp in exp for f in grp]
    # lint_paths: `if files_count == 1: processes = 1` -- a single queued file always goes to the serial runner
    mode = "serial" if spec["n"] == 1 or len(tasks) == 1 else ("ordered" if spec.get("runner") == "thread" else "unordered")
    hooked = hook and mode != "serial"
    args_idx: Dict[str, int] = {}
    for i, a in enumerate(spec["paths"]):
        args_idx.setdefault(a, i + 1)

    def rec_of(r: Optional[dict]) -> int:
        return rec_id(None if r is None else r["violations"])

    def side(r: dict) -> dict:
        recs: List[List[int]] = [[] for _ in range(nf)]
        skip = [False] * nf
        persist = [False] * nf
        for e in r["events"]:
            f = fids.get(norm(e["fname"])) if e.get("fname") else None
            if f is None:
                continue
            if e["event"] == "add":
                recs[f - 1].append(rec_of(e["rec"]))
            elif e["event"] == "rskip":
                skip[f - 1] = True
            elif e["event"] == "persist":
                persist[f - 1] = True
        fin = r["final"]
        return {"recs": recs, "skip": skip, "persist": persist,
                "content": [cid(fin["contents"].get(f, "absent")) for f in sorted(kindof)],
                "raised": fin["raised"] is not None,
                "exit": xid(fin["exit"]), "skipped": fin["skipped"] if fin["skipped"] is not None else 0,
                "skipknown": fin["skipped"] is not None}

    b = side(base)
    me = side(run)
    if run["final"]["records"] is not None:
        fr: List[List[int]] = [[] for _ in range(nf)]
        for r in run["final"]["records"]:
            f = fids.get(norm(r["filepath"]))
            if f is not None:
                fr[f - 1].append(rec_of(r))
        me["recs"] = fr
    final = {"recs": me["recs"], "content": me["content"], "raised": me["raised"], "exit": me["exit"],
             "skipped": me["skipped"], "skipknown": me["skipknown"]}
    workers: Dict[Tuple[int, int], int] = {}
    streams: Dict[Any, int] = {}
    events = []
    for e in run["events"]:
        ev = e["event"]
        src = streams.setdefault("wrap" if e.get("src") == "wrap" else e["pid"], len(streams) + 1)
        f = fids.get(norm(e["fname"]), 0) if e.get("fname") else 0
        o: Dict[str, Any] = {"ev": ev, "f": f, "src": src, "seq": e["seq"]}
        if ev in ("take", "finish"):
            o["w"] = workers.setdefault((e["pid"], e["tid"]), len(workers) + 1)
        elif ev == "rskip":
            o["w"] = workers.get((e["pid"], e["tid"]), 0)     # 0: not a pool thread (main thread or the pool's feeder)
        elif ev == "add":
            o["rec"] = rec_of(e["rec"])
            o["dir"] = args_idx.get(e["dir"], 0)
        elif ev == "persist":
            o.update(pre=cid(e["pre"]), post=cid(e["post"]), main=bool(e["main"]))
        events.append(o)
    return {"id": tid, "hook": hooked, "mode": mode, "apply": spec["op"] == "fix", "n": max(1, spec["n"]),
            "nfiles": nf, "tasks": tasks, "expands": [[fids[f] for f in grp] for grp in exp] or [[]],
            "orig": [cid(spec["_orig"][f]) for f in sorted(kindof)],
            "base": b, "final": final, "events": events}


def out_of_order(run: dict, hooked: bool, submitted: List[str]) -> bool:
    """Non-trivial: at least two files were seen by the main loop in an order other than submission order."""
    key = "consume" if hooked else "add"
    seen = [os.path.normpath(e["fname"]) for e in run["events"] if e["event"] == key and e.get("fname")]
    pos: Dict[str, List[int]] = {}
    for i, f in enumerate(submitted):
        pos.setdefault(f, []).append(i)
    idx = []
    for f in seen:
        if pos.get(f):
            idx.append(pos[f].pop(0))
    return any(a > b for a, b in zip(idx, idx[1:]))


# ------------------------------------------------------------------------------------------ the check
def make_jobs(tier: str, seed: int, emitted: List[dict], raising: List[dict], root: str):
    rnd = random.Random(seed)
    jobs: List[dict] = []
    meta: Dict[str, dict] = {}      # run id -> {job, spec, base id, kindof, tlc record (S->C)}
    orders = sorted({(tuple(r["comp"]), r["n"]) for r in emitted if r["mode"] == "unordered" and r["n"] >= 2
                     and list(r["comp"]) != sorted(r["comp"])})
    if not orders:
        raise MachineryError("no out-of-order completion order emitted by Runner")

    outcomes: Dict[str, list] = {}
    for r in emitted + raising:
        o = _algo_outcome(r)
        lst = outcomes.setdefault(json.dumps([r["tasks"], r["n"], r["mode"], r["op"], r["mainrender"]]), [])
        if o not in lst:
            lst.append(o)

    def add_job(jid: str, tpl: str, kindof: Dict[str, str], runs: List[dict], overrides: Optional[dict] = None,
                tlc: Optional[Dict[str, dict]] = None) -> None:
        orig = {}
        for f in kindof:
            import hashlib
            with open(os.path.join(tpl, f), "rb") as fh:
                orig[f] = hashlib.sha256(fh.read()).hexdigest()[:16]
        for r in runs:
            r["_orig"] = orig
            t = (tlc or {}).get(r["id"])
            meta[r["id"]] = {"job": jid, "spec": r, "kindof": kindof, "tlc": t,
                             "algo_outcomes": outcomes.get(json.dumps([t["tasks"], t["n"], t["mode"], t["op"], t["mainrender"]])) if t else None}
        jobs.append({"id": jid, "template": tpl, "overrides": overrides or {"dialect": "ansi"},
                     "runs": [{k: v for k, v in r.items() if not k.startswith("_")} for r in runs]})

    # ---- S->C: TLC terminal states as small real directories
    n_s2c = 10 if tier == "quick" else 40
    pool = [r for r in emitted if not (r["mode"] != "serial" and r["n"] == 1)]
    strata: Dict[Any, List[dict]] = {}
    for r in pool:
        dup = len(set(r["tasks"])) < len(r["tasks"])
        key = (r["mode"], r["op"], dup, list(r["comp"]) != sorted(r["comp"]))
        strata.setdefault(key, []).append(r)
    picked: List[dict] = []
    keys = sorted(strata, key=str)
    for v in strata.values():
        rnd.shuffle(v)
    i = 0
    while len(picked) < n_s2c and any(strata.values()) and i < 20000:
        k = keys[i % len(keys)]
        if strata[k] and (k[0] != "serial" or i % 3 == 0):
            picked.append(strata[k].pop())
        i += 1
    rz = [r for r in raising if "raise" in r["tasks"] and not (r["mode"] != "serial" and r["n"] == 1)
          and len(r["tasks"]) >= 2 and not r["mainrender"]]      # CLI / plain API runs render in the workers
    rnd.shuffle(rz)
    picked += [r for r in rz if r["mode"] == "serial"][:1] + [r for r in rz if r["mode"] == "unordered"][:2] \
        + [r for r in rz if r["mode"] == "ordered"][:1]
    for k, rec in enumerate(picked):
        jid = f"s{k}"
        tpl = os.path.join(root, "tpl", jid)
        sf = bool(k % 2)
        kindof = small_directory(tpl, rec["tasks"], rnd, sf)
        paths = [small_name(kd) for kd in rec["tasks"]]
        n = rec["n"] if rec["mode"] != "serial" else 1
        runner = "thread" if rec["mode"] == "ordered" else "process"
        sched = plan_exact(rec["comp"], max(1, n), paths)
        runs, tl = [], {}
        for surface in ("cli", "api"):
            b = {"id": f"{jid}-{surface}-base", "surface": surface, "op": rec["op"], "n": 1, "paths": sorted(paths)}
            t = {"id": f"{jid}-{surface}-run", "surface": surface, "op": rec["op"], "n": n, "runner": runner,
                 "paths": paths, "sched": sched, "_base": b["id"], "_skipfail": sf}
            runs += [b, t]
            tl[t["id"]] = rec
        add_job(jid, tpl, kindof, runs, tlc=tl)

    # ---- C->S: generated directories
    ndirs = 2 if tier == "quick" else 5
    procs = [2, 4] if tier == "quick" else [2, 4, 8]
    nplans = 1 if tier == "quick" else 2
    unit = 0.05
    for d in range(ndirs):
        tpl = os.path.join(root, "tpl", f"d{d}")
        kindof = big_directory(tpl, rnd, d)
        allf = sorted(kindof)
        variants = [["."], rnd.sample(allf, len(allf)),
                    ["sub2", "models", "sub1"] + [f for f in allf if "/" not in f][::-1],
                    [".", "sub1/x.sql"], ["sub1", "sub2", "sub1"]]
        surfaces = [("api", "lint"), ("api", "fix"), ("cli", "lint"), ("cli", "fix")]
        if tier == "thorough" or d == 0:
            surfaces.append(("api", "fixcheck"))
        for surface, op in surfaces:
            jid = f"d{d}-{surface}-{op}"
            runs: List[dict] = []
            bases: Dict[str, str] = {}

            def base_for(paths: List[str]) -> str:
                bag = json.dumps(sorted(f for grp in expand(paths, kindof) for f in grp))
                if bag not in bases:
                    bid = f"{jid}-base{len(bases)}"
                    bases[bag] = bid
                    runs.append({"id": bid, "surface": surface, "op": op, "n": 1, "paths": sorted(paths)})
                return bases[bag]

            c = 0
            for vi, paths in enumerate(variants):
                if tier == "quick" and vi in (2, 4) and (surface, op) not in (("api", "fix"), ("cli", "lint")):
                    continue
                flat = [f for grp in expand(paths, kindof) for f in grp]
                combos = [(n, "process") for n in procs] + [(2, "thread")]
                if vi > 0:
                    combos = combos[: 1 if tier == "quick" else 2] + [(1, "process")]   # serial, permuted
                if tier == "quick" and vi == 0:
                    combos = combos[-2 - (d % 2):]
                for n, runner in combos:
                    for _ in range(nplans if n > 1 else 1):
                        sel = [list(o) for o, on in orders if on <= max(n, 2)]
                        sched = plan_tiled(sel or [list(orders[0][0])], flat, rnd, unit) if n > 1 else {}
                        c += 1
                        runs.append({"id": f"{jid}-r{c}", "surface": surface, "op": op, "n": n, "runner": runner,
                                     "paths": paths, "sched": sched, "_base": base_for(paths)})
            add_job(jid, tpl, kindof, runs)
        if d == 0:
            # the API with a user-defined rule (DESIGN F22)
            jid = "d0-userrules"
            ov = {"dialect": "ansi", "rules": "LT01,CP01,ZZ01"}
            runs = [{"id": f"{jid}-base", "surface": "api_user_rules", "op": "lint", "n": 1, "paths": ["."]},
                    {"id": f"{jid}-r1", "surface": "api_user_rules", "op": "lint", "n": 2, "paths": ["."],
                     "_base": f"{jid}-base"},
                    {"id": f"{jid}-r2", "surface": "api_user_rules", "op": "lint", "n": 2, "runner": "thread",
                     "paths": ["."], "_base": f"{jid}-base"}]
            add_job(jid, tpl, kindof, runs, overrides=ov)
    # ---- C->S: directories whose templater context differs per sub-directory, in both path orders
    tpl = os.path.join(root, "tpl", "x0")
    kindof = context_directory(tpl, rnd)
    orders_x = [["a", "b", "c", "m", "big.sql", "clean.sql", "plain.sql"],
                ["b", "a", "m", "c", "plain.sql", "big.sql", "clean.sql"],
                ["c", "m", "b", "a", "clean.sql", "plain.sql", "big.sql"]]
    flatx = sorted(kindof)
    sel = [list(o) for o, on in orders if on <= 2] or [list(orders[0][0])]
    for surface, op in (("api", "lint"), ("api", "fix"), ("cli", "lint"), ("cli", "fix"), ("api_user_rules", "lint")):
        jid = f"x0-{surface}-{op}"
        ov = {"dialect": "ansi", "rules": "LT01,CP01,ZZ01"} if surface == "api_user_rules" else None
        runs = [{"id": f"{jid}-base", "surface": surface, "op": op, "n": 1, "paths": orders_x[0]}]
        c = 0
        for paths in orders_x:
            combos = [(1, "process"), (2, "process"), (2, "thread")]
            if tier == "quick":
                combos = combos[:2] if paths is not orders_x[1] else combos
            for n, runner in combos:
                if paths is orders_x[0] and n == 1:
                    continue            # that is the baseline itself
                c += 1
                runs.append({"id": f"{jid}-r{c}", "surface": surface, "op": op, "n": n, "runner": runner, "paths": paths,
                             "sched": plan_tiled(sel, flatx, rnd, unit) if n > 1 else {}, "_base": f"{jid}-base"})
        add_job(jid, tpl, kindof, runs, overrides=ov)
    return jobs, meta


def check_tlc_values(rep: Report, rid: str, m: dict, run: dict, sig: dict, tpl: str) -> None:
    """S->C: compare the real run with the contract values carried by the TLC record."""
    rec, spec, kindof = m["tlc"], m["spec"], m["kindof"]
    fin = run["final"]
    payload = {"kind": "tlc", "tlc": rec, "spec": spec, "kindof": kindof, "final": fin, "sig": sig,
               "tpl_files": _read_tree(tpl)}
    what = f"TLC case tasks={rec['tasks']} n={rec['n']} mode={rec['mode']} op={rec['op']} comp={rec['comp']}"
    if "raise" in rec["tasks"] and fin["raised"] is None and any(
            e["event"] == "add" and kindof.get(os.path.normpath(e["fname"])) == "raise" for e in run["events"]):
        # the concretisation of "a file whose rendering raises" does not raise in this tree:
        # the case is not an instance of the TLC record; the trace validation against the serial run still applies
        rep.extra["raise_trigger_inert"] = True
        return
    if fin["raised"] is not None:
        # the contract never lets an exception escape; whether serial and parallel *agree* is the validator's clause
        rep.violation("EscapeAgrees", dict(sig, escaped="serial" if rec["mode"] == "serial" else "parallel"),
                      f"{what}: {fin['raised']} escaped the run; contract: the file is dropped with a warning "
                      f"whatever the pool size", payload)
        if not rec["aborted"]:
            rep.drift.append(f"{what}: code raised {fin['raised']}, transcription does not abort")
        return
    if rec["aborted"]:
        rep.drift.append(f"{what}: transcription aborts (exception escapes the serial runner), the code did not")
    cls = lambda v: "none" if not v else ("PL" if any(x["code"] == "PRS" for x in v) else "L")
    adds = [(kindof[os.path.normpath(e["fname"])], cls(e["rec"]["violations"]))
            for e in run["events"] if e["event"] == "add" and e["rec"] is not None]
    want = {(r["f"], r["rec"]) for r in rec["exp"]["recs"]}
    may = {(r["f"], r["rec"]) for r in rec["exp"]["may"]}
    if not (want <= set(adds) <= may):
        rep.violation("RecordsAgree", sig, f"{what}: reported {sorted(set(adds))}, contract {sorted(want)}", payload)
    written = sorted(kindof[f] for f in kindof if fin["contents"].get(f) != spec["_orig"][f])
    if written != sorted(rec["exp"]["written"]):
        rep.violation("WrittenAgree", sig, f"{what}: files rewritten {written}, contract {rec['exp']['written']}", payload)
    if fin["skipped"] is not None and fin["skipped"] != rec["exp"]["skipped"]:
        rep.violation("SkipsCounted", sig, f"{what}: files_skipped={fin['skipped']}, contract {rec['exp']['skipped']}", payload)
    if spec["surface"] == "cli":
        want_exit = rec["exp"]["exit1" if spec["_skipfail"] else "exit0"]
        if fin["exit"] != want_exit:
            rep.violation("ExitAgrees", sig, f"{what} skip_fail={spec['_skipfail']}: exit {fin['exit']}, contract {want_exit}", payload)
    # DRIFT: the code's outcome is none of the outcomes the transcription reaches for this input (any interleaving)
    algo = m.get("algo_outcomes") or [_algo_outcome(rec)]
    real = [sorted([list(x) for x in set(adds)]), fin["skipped"] if fin["skipped"] is not None else rec["skipped"], written]
    if real not in algo and not rec["aborted"]:
        rep.drift.append(f"{what}: transcription reaches {algo}, code gives {real}")


def _algo_outcome(rec: dict) -> list:
    return [sorted([[r["f"], r["rec"]] for r in rec["recs"]]), rec["skipped"], sorted(rec["written"])]


def diff_codes(run: dict, base: dict) -> str:
    def codes(r):
        out: Dict[str, set] = {}
        for e in r["events"]:
            if e["event"] == "add" and e["rec"] is not None:
                out.setdefault(os.path.normpath(e["fname"]), set()).update(v["code"] for v in e["rec"]["violations"])
        return out
    a, b = codes(run), codes(base)
    d = set()
    for f in set(a) | set(b):
        d |= a.get(f, set()) ^ b.get(f, set())
    return ",".join(sorted(d))


def run(tier: str, seed: int) -> int:
    rep = Report(PROP, tier, seed, "model_checking")
    hook = hook_applied()
    emitted, raising = model_runs(rep, tier)
    rep.exhaustive = True
    root = scratch("c24")
    try:
        jobs, meta = make_jobs(tier, seed, emitted, raising, root)
        results = run_jobs(jobs, os.path.join(root, "work"))
        rec_id, cid, xid = Interner(), Interner(), Interner()
        traces, info = [], {}
        for rid, m in sorted(meta.items()):
            spec = m["spec"]
            if "_base" not in spec:
                continue
            run_ = results[m["job"]][rid]
            base = results[m["job"]][spec["_base"]]
            rep.evaluated(2 if spec["_base"] not in info else 1)
            info[spec["_base"]] = True
            t = build_trace(rid, run_, base, spec, m["kindof"], hook, rec_id, cid, xid)
            traces.append(t)
            sig = {"surface": spec["surface"], "op": spec["op"], "mode": t["mode"],
                   "escaped": "serial" if base["final"]["raised"] and not run_["final"]["raised"] else
                              ("parallel" if run_["final"]["raised"] and not base["final"]["raised"] else "no"),
                   "diff_codes": diff_codes(run_, base)}
            info[rid] = (sig, run_, base, spec, m)
            flat = [f for grp in expand(spec["paths"], m["kindof"]) for f in grp]
            if t["mode"] != "serial" and out_of_order(run_, t["hook"], flat):
                rep.nontrivial(rid)
            if m["tlc"] is not None:
                check_tlc_values(rep, rid, m, run_, sig, os.path.join(root, "tpl", _tpl_of(m["job"])))
        val = validate_traces("RunnerTrace", traces, constants={
            "Kinds": set(), "MaxFiles": 0, "AllowDup": False, "MaxN": 0, "Modes": set(), "Ops": set(), "Renders": set(),
            "EmitOn": False})
        rep.validation(val, "RunnerTrace")
        by = {t["id"]: t for t in traces}
        for r in val.rejected:
            sig, run_, base, spec, m = info[r["id"]]
            pub = {k: v for k, v in spec.items() if not k.startswith("_")}
            rep.violation(r["clause"], sig,
                          f"run {pub} on a generated directory ({len(m['kindof'])} files) rejected at step {r['step']} "
                          f"({'end of trace' if r['step'] > len(by[r['id']]['events']) else by[r['id']]['events'][r['step'] - 1]}); "
                          f"serial: raised={base['final']['raised']} exit={base['final']['exit']} skipped={base['final']['skipped']}; "
                          f"this run: raised={run_['final']['raised']} exit={run_['final']['exit']} skipped={run_['final']['skipped']}; "
                          f"codes differing from serial: {sig['diff_codes'] or '-'}",
                          {"kind": "run", "spec": spec, "kindof": m["kindof"], "verdict": r, "trace": by[r["id"]],
                           "tpl_files": _read_tree(os.path.join(root, "tpl", _tpl_of(m["job"])))})
        ex = traces[len(traces) // 2]
        rep.sample({"trace_id": ex["id"], "mode": ex["mode"], "n": ex["n"], "tasks": ex["tasks"], "events": ex["events"][:12]})
        rep.sample(emitted[len(emitted) // 2])
        nsc = sum(1 for m in meta.values() if m["tlc"] is not None)
        rep.extra.update({
            "hook_applied": hook,
            "validated": ("worker-side (take/finish) and main-side (consume/skip) hook events + main-side add/persist wrappers + outcomes"
                          if hook else
                          "runner hook NOT applied to the tree under test: only main-side add/persist wrapper events and the "
                          "outcomes (records, contents, skip count, exit status) were validated; delay plans were not honoured"),
            "runs": len(traces), "spec_to_code_runs": nsc, "jobs": len(jobs),
            "tlc_completion_orders": len({(tuple(r['comp']), r['n'], r['mode']) for r in emitted}),
        })
        rep.rule = ("one case = one real multi-worker (or permuted-path serial) run compared with the serial run of the same "
                    "command; non-trivial = the main loop saw at least two files in an order other than submission order "
                    "(measured from the recorded consume/add events); distinct by run id (directory, surface, op, pool, plan, paths)")
        rep.trusted_base = ["c24_run wrappers (LintedDir.add, LintedFile.persist_tree, Linter.render_file) and the runner hook",
                            "interning of records (violation dicts), file contents (sha256) and exit values",
                            "expansion of path arguments over the generated tree (harness' own file list)",
                            "concretisation of file kinds (clean/fixable/parse/oversize/raise) and of delay plans"]
        rep.assumptions = ["per-file outcome is a function of the file text read (C32)",
                           "a file named twice under fix may report either its pre- or post-fix record on the later visit"]
        return rep.finish()
    finally:
        shutil.rmtree(root, ignore_errors=True)


def _tpl_of(jid: str) -> str:
    return jid.split("-")[0]


def _read_tree(tpl: str) -> Dict[str, str]:
    out = {}
    for d, dirs, files in os.walk(tpl):
        dirs.sort()
        for f in sorted(files):
            p = os.path.join(d, f)
            with open(p, encoding="utf-8", errors="replace") as fh:
                out[os.path.relpath(p, tpl)] = fh.read()
    return out


def replay(path, tier, seed):
    with open(path) as fh:
        doc = json.load(fh)
    case = doc["case"]
    hook = hook_applied()
    root = scratch("c24r")
    try:
        tpl = os.path.join(root, "tpl")
        for rel, txt in case["tpl_files"].items():
            p = os.path.join(tpl, rel)
            os.makedirs(os.path.dirname(p), exist_ok=True)
            with open(p, "w") as fh:
                fh.write(txt)
        spec = case["spec"]
        pub = {k: v for k, v in spec.items() if not k.startswith("_")}
        b = dict(pub, id="base", n=1, paths=sorted(pub["paths"]), sched={})
        b.pop("runner", None)
        ov = {"dialect": "ansi", "rules": "LT01,CP01,ZZ01"} if spec["surface"] == "api_user_rules" else {"dialect": "ansi"}
        res = run_jobs([{"id": "replay", "template": tpl, "overrides": ov, "runs": [b, dict(pub, id="run")]}],
                       os.path.join(root, "work"))["replay"]
        if case.get("kind") == "tlc":
            rep = Report(PROP, tier, seed, "model_checking")
            check_tlc_values(rep, "run", {"tlc": case["tlc"], "spec": spec, "kindof": case["kindof"]}, res["run"],
                             case.get("sig", {}), tpl)
            if rep.violations:
                print(f"VIOLATION property={PROP} replay={path}")
                print(f"  clause={rep.violations[0]['clause']} {rep.violations[0]['what']}")
                return 1
            print("replay: behaviour now satisfies the contract")
            return 0
        t = build_trace("run", res["run"], res["base"], dict(spec, _orig=spec["_orig"]), case["kindof"], hook,
                        Interner(), Interner(), Interner())
        val = validate_traces("RunnerTrace", [t], constants={
            "Kinds": set(), "MaxFiles": 0, "AllowDup": False, "MaxN": 0, "Modes": set(), "Ops": set(), "Renders": set(),
            "EmitOn": False})
        if val.rejected:
            print(f"VIOLATION property={PROP} replay={path}")
            print(f"  clause={val.rejected[0]['clause']} step={val.rejected[0]['step']}")
            return 1
        print("replay: behaviour now satisfies the contract")
        return 0
    finally:
        shutil.rmtree(root, ignore_errors=True)
