"""C18 — files with template or parse errors are never modified by fix; loop-limit runs roll back.

Spec:  spec/Outcome.tla — Blocked, MayModify (Modified(f) => not Blocked(f), not Skipped(f), not LimitHit(f)),
       MustReportUnfixable; Algo layer = the three gates (Linter.lint_paths persist gate on the UNFILTERED count,
       _stdin_fix after _handle_unparsable's discard, api.simple.fix — on the filtered count until 254ee69 (F3), on
       the unfiltered count plus a tree guard since) and the
       lint_fix_parsed loop-limit rollback.  spec/OutcomeTrace.tla with Prop = "C18".
S->C:  TLC enumerates {TMP fatal, TMP undefined variable, PRS raised, PRS unparsable section} x {live, noqa,
       ignore=, warnings=} x {fixable / unfixable / no rule violation, each live / noqa / warning} x
       fix_even_unparsable x {fix, format} x runaway_limit 1..2 with inputs needing 1 or 2 changing passes;
       every scenario is built from the blocks in vf/scenario.py and run through CLI path, CLI stdin
       (--stdin-filename), sqlfluff.fix, Linter.lint_paths(fix, apply_fixes) and a subprocess sample; the set of
       modified files is compared with the `may` set TLC computed.
C->S:  the same runs, with the facts the code itself established (violations + flags, tree or not, loop limit
       logged), validated by OutcomeTrace: ModifiedWhileBlocked / ModifiedAtLoopLimit / LoopLimitNotReportedUnfixable.
"""
from __future__ import annotations

from .. import outcome as S

PROP = "C18"
RULE = ("TLC enumerates every scenario of Outcome.tla's families (single, pair, size, limit, cfg); non-trivial = a "
        "fix/format scenario in which some file is Blocked (has a TMP/PRS violation, suppressed or not, without "
        "fix_even_unparsable) or hits the loop limit AND has a rule violation with a fix that is not noqa'd, so that "
        "an unguarded implementation would rewrite it; distinct by (configs, file texts, command)")


def nontrivial(rec: dict, run: dict) -> bool:
    if rec["cmd"] == "lint":
        return False
    for pf, of in zip(rec["facts"], run["facts"]):
        blocked = (not rec["feu"]) and any(v["kind"] in ("TMP", "PRS") for v in of["V"])
        if (blocked or pf["limit"]) and any(v["kind"] == "LINT" and v["fixable"] for v in of["V"]):
            return True
    return False


def run(tier: str, seed: int) -> int:
    return S.check(PROP, tier, seed, nontrivial, RULE, refinement=[("ApiGateRefinesBlocked", ("single",), "F3 (repaired in 254ee69: expected to hold)")])


def replay(path: str, tier: str, seed: int) -> int:
    return S.replay(PROP, path, tier, seed)
