"""C19 — all entry points agree (file path, stdin with --stdin-filename, python API).

Spec:  spec/Outcome.tla — the contract is a function of the run value (text facts + effective configuration); the
       entry point is not a parameter, so one verdict binds every entry.  The Algo layer carries the per-entry
       transcriptions (_paths_fix vs _stdin_fix vs api.simple.fix, and Linter.lint_string building the rule pack
       before inline `-- sqlfluff:` directives are applied) and TLC reports the scenarios where they differ from
       one another (C19.ExitAgree / ViolationsAgree / FixedTextAgree / ApiRaises in `diff`).
S->C:  every single-file scenario is run through CLI path, CLI stdin, sqlfluff.lint / sqlfluff.fix (config =
       FluffConfig.from_root().make_child_from_path(file), i.e. what the CLI builds) and Linter.lint_paths, plus
       real subprocesses for a sample; the `cfg` family puts rules / warnings / ignore in a nested .sqlfluff or
       in inline directives.  Compared: violation records (code, line, pos, description, warning, fix edits),
       fixed text, exit status.
C->S:  OutcomeTrace with Prop = "C19" validates <CLI path observation, other observation> pairs on interned ids;
       the same validator also judges a corpus leg (vf/outcome_corpus.py): dialect fixture files, every dialect,
       linted with all rules and fixed with a small rule set through path / stdin / sqlfluff.lint|fix.
"""
from __future__ import annotations

from .. import outcome as S

PROP = "C19"
RULE = ("every scenario of Outcome.tla's families; non-trivial = at least three entry points observed and the file "
        "has at least one violation (so there is something to disagree about); distinct by (configs, file texts, command)")


def nontrivial(rec: dict, run: dict) -> bool:
    return len(run["obs"]) >= 3 and any(of["V"] for of in run["facts"])


def run(tier: str, seed: int) -> int:
    return S.check(PROP, tier, seed, nontrivial, RULE, refinement=[("EntryPointsAgree", ("cfg",), "F23 / stdin warning-only fixes")], corpus=True)


def replay(path: str, tier: str, seed: int) -> int:
    return S.replay(PROP, path, tier, seed)
