"""C20 — noqa directives suppress exactly the specified violations.

Spec:  spec/Noqa.tla (contract Hidden/MustUsed/MayUsed + transcription of IgnoreMask), NoqaTrace.tla
S->C:  every (directive list, violation set) in the scope is enumerated by TLC, rebuilt as real
       NoQaDirective / SQLBaseError objects and run through IgnoreMask.ignore_masked_violations and
       generate_warnings_for_unused; the contract's verdict is computed by TLC.
C->S:  directive layouts are concretised as SQL files with `-- noqa` / `/* noqa */` comments using every
       reference form (code, name, group, alias, glob, all, unknown) and planted violations, linted by the
       real pipeline (with and without disable_noqa, tree mask and source-fallback mask) and the recorded
       events are validated by NoqaTrace.
"""
from __future__ import annotations

import json
import random

from ..core import Report, expect_model_ok
from ..tlc import MachineryError, cfg_text, run_tlc, validate_traces
from .. import sq

PROP = "C20"
REAL = {"A": "LT01", "B": "CP01", "PRS": "PRS"}
ABST = {v: k for k, v in REAL.items()}


# ------------------------------------------------------------------ S->C, object level
def _classes():
    from sqlfluff.core.errors import SQLBaseError

    class VA(SQLBaseError):
        _code = "A"

    class VB(SQLBaseError):
        _code = "B"

    class VP(SQLBaseError):
        _code = "PRS"

    return {"A": VA, "B": VB, "PRS": VP}


def object_case(rep: Report, rec: dict, cls) -> None:
    from sqlfluff.core.rules.noqa import IgnoreMask, NoQaDirective

    dirs = [NoQaDirective(d["line"], 0, tuple(sorted(d["rules"])) or None,
                          None if d["kind"] == "plain" else d["kind"], f"d{i}")
            for i, d in enumerate(rec["dirs"])]
    viols = [cls[v["code"]](description=f"{v['code']}@{v['line']}", line_no=v["line"], line_pos=1) for v in rec["viols"]]
    mask = IgnoreMask(dirs)
    kept = mask.ignore_masked_violations(list(viols))
    unused = mask.generate_warnings_for_unused()
    rep.evaluated()
    keptk = sorted((v.line_no, v.rule_code()) for v in kept)
    hidden = {(v["line"], v["code"]) for v in rec["hidden"]}
    want = sorted((v["line"], v["code"]) for v in rec["viols"] if (v["line"], v["code"]) not in hidden)
    kinds = sorted({d["kind"] for d in rec["dirs"]})
    sig = {"level": "object", "kinds": ",".join(kinds)}
    if keptk != want:
        rep.violation("KeptIsComplementOfHidden", sig,
                      f"IgnoreMask kept {keptk}, contract keeps {want} for dirs={rec['dirs']} viols={rec['viols']}",
                      {"kind": "object", "rec": rec})
        return
    used = [d.used for d in dirs]
    if len(unused) != sum(1 for u in used if not u):
        rep.violation("UnusedWarningsMatchMarks", sig, "generate_warnings_for_unused disagrees with the used marks",
                      {"kind": "object", "rec": rec})
    for i, u in enumerate(used, start=1):
        if i in rec["must"] and not u:
            rep.violation("UsedWhenOnlyHider", sig, f"directive {i} is the only one hiding a violation but is reported unused: {rec}",
                          {"kind": "object", "rec": rec})
        if u and i not in rec["may"]:
            rep.violation("UnusedWhenHidNothing", sig, f"directive {i} hid nothing but is marked used: {rec}",
                          {"kind": "object", "rec": rec})
    if sorted(i for i, u in enumerate(used, start=1) if u) != sorted(rec["algo_used"]):
        rep.drift.append(f"used marks {used} differ from the transcription's {rec['algo_used']} for {rec['dirs']}")
    if rec["hidden"] and len(rec["dirs"]) >= 2:
        rep.nontrivial(json.dumps([rec["dirs"], rec["viols"]], sort_keys=True))


# ------------------------------------------------------------------ C->S, file level
FORMS = {
    frozenset(): ["", None],  # handled specially ("noqa" or "=all")
    frozenset({"A"}): ["LT01", "layout.spacing", "L039", "LT0[1]", "L?01,L?01", "LT01,XX99", "XX99,LT01"],
    frozenset({"B"}): ["CP01", "capitalisation.keywords", "L010", "CP0[1]", "capitalisation.keyw*"],
    frozenset({"A", "B"}): ["LT01,CP01", "core", "CP01, LT01", "*0[1]", "layout,capitalisation", "layout.spacing,L010"],
    frozenset({"PRS"}): ["PRS", "PRS,ZZ99", "ZZ99, PRS"],
    # lists mixing references that resolve through the rule reference map with the special codes, in both orders
    frozenset({"A", "PRS"}): ["LT01,PRS", "PRS,LT01", "layout.spacing, PRS", "L?01,PRS", "PRS,L039", "layout,PRS"],
    frozenset({"B", "PRS"}): ["CP01,PRS", "PRS, capitalisation.keywords", "capitalisation,PRS,ZZ99", "L010,PRS"],
}


def directive_text(d: dict, rnd: random.Random) -> str:
    rules = frozenset(d["rules"])
    if d["kind"] == "plain":
        if not rules:
            return rnd.choice(["noqa", "noqa:", "noqa: all", "noqa:all"])
        return "noqa: " + rnd.choice(FORMS[rules])
    if not rules:
        return f"noqa: {d['kind']}=all"
    return f"noqa: {d['kind']}=" + rnd.choice(FORMS[rules])


def build_file(rec: dict, nlines: int, rnd: random.Random, inline_only: bool = False) -> str:
    lines = []
    for ln in range(1, nlines + 1):
        codes = {v["code"] for v in rec["viols"] if v["line"] == ln}
        sel = "SELECT  " if "A" in codes else "SELECT "
        frm = "from" if "B" in codes else "FROM"
        body = f"{sel}col_{ln} {frm} tbl_{ln}"
        if "PRS" in codes:
            body = f"{sel}col_{ln} {frm} tbl_{ln} WHERE +"
        body += ";"
        ds = [d for d in rec["dirs"] if d["line"] == ln]
        pre, post = "", ""
        for k, d in enumerate(ds):
            txt = directive_text(d, rnd)
            last = k == len(ds) - 1
            if last and (inline_only or rnd.random() < 0.7):
                post = " -- " + (rnd.choice(["", "x -- "]) if not inline_only else "") + txt
            elif last:
                post = f" /* {txt} */"
            else:
                pre += f"/* {txt} */ "
        lines.append(pre + body + post)
    return "\n".join(lines) + "\n"


def _abs_rules(rules):
    if rules is None:
        return []
    return sorted(ABST[r] for r in rules if r in ABST)


def file_case(rec: dict, k: int, nlines: int, rnd: random.Random):
    return record_file(build_file(rec, nlines, rnd), rec["dirs"], k, rec["viols"])


def record_file(sql: str, dirs: list, k, planted=()):
    rec = {"dirs": dirs, "viols": list(planted)}
    ov = dict(rules="LT01,CP01", configs={"rules": {"capitalisation.keywords": {"capitalisation_policy": "upper"}}})
    cfg = sq.config("ansi", "raw", **ov)
    lf = sq.linter(cfg).lint_string(sql, fname=f"c20_{k}.sql")
    allv = [{"line": v.line_no, "code": ABST.get(v.rule_code(), v.rule_code())} for v in lf.violations]
    parsed = [{"line": d.line_no, "kind": d.action or "plain", "rules": _abs_rules(d.rules)}
              for d in (lf.ignore_mask._ignore_list if lf.ignore_mask else [])]
    kept = [{"line": v.line_no, "code": ABST.get(v.rule_code(), v.rule_code())} for v in lf.get_violations()]
    used = [bool(d.used) for d in (lf.ignore_mask._ignore_list if lf.ignore_mask else [])]
    cfg2 = sq.config("ansi", "raw", disable_noqa=True, **ov)
    lf2 = sq.linter(cfg2).lint_string(sql, fname=f"c20_{k}.sql")
    kept2 = [{"line": v.line_no, "code": ABST.get(v.rule_code(), v.rule_code())} for v in lf2.get_violations()]
    # NB lint errors hidden by a directive are already dropped inside BaseRule.crawl, so the unmasked
    # violation set is what the disable_noqa run reports; the planted violations anchor that ground truth.
    events = [{"ev": "Off", "kept": kept2}, {"ev": "Parsed", "dirs": parsed}]
    if len(parsed) == len(rec["dirs"]):
        events.append({"ev": "Mask", "kept": kept, "used": used})
    return {"id": f"f{k}", "sql": sql, "dirs": rec["dirs"], "viols": _dedupe(kept2), "events": events,
            "planted": rec["viols"]}


def _dedupe(vs):
    out, seen = [], set()
    for v in vs:
        key = (v["line"], v["code"])
        if key not in seen:
            seen.add(key)
            out.append(v)
    return out


def source_mask_case(rec: dict, k: int, nlines: int, rnd: random.Random):
    """No parse tree (the parser raises): the mask is built from the source text (inline comments only)."""
    rec = {"dirs": [d for d in rec["dirs"]], "viols": []}
    if len({d["line"] for d in rec["dirs"]}) != len(rec["dirs"]):
        return None  # the source fallback only sees one inline comment per line
    sql = build_file(rec, nlines, rnd, inline_only=True)
    # an unclosed bracket on line 1 makes parse() raise -> no root variant -> from_source path
    lines = sql.split("\n")
    lines[0] = lines[0].replace("SELECT ", "SELECT ( ", 1)
    sql = "\n".join(lines)
    cfg = sq.config("ansi", "raw", rules="LT01,CP01")
    lf = sq.linter(cfg).lint_string(sql, fname=f"c20s_{k}.sql")
    if lf.tree is not None:
        return None
    allv = [{"line": v.line_no, "code": ABST.get(v.rule_code(), v.rule_code())} for v in lf.violations]
    parsed = [{"line": d.line_no, "kind": d.action or "plain", "rules": _abs_rules(d.rules)}
              for d in (lf.ignore_mask._ignore_list if lf.ignore_mask else [])]
    kept = [{"line": v.line_no, "code": ABST.get(v.rule_code(), v.rule_code())} for v in lf.get_violations()]
    used = [bool(d.used) for d in (lf.ignore_mask._ignore_list if lf.ignore_mask else [])]
    events = [{"ev": "Parsed", "dirs": parsed}]
    if len(parsed) == len(rec["dirs"]):
        events.append({"ev": "Mask", "kept": kept, "used": used})
    return {"id": f"s{k}", "sql": sql, "dirs": rec["dirs"], "viols": _dedupe(allv), "events": events, "planted": []}


def run(tier: str, seed: int) -> int:
    rep = Report(PROP, tier, seed, "model_checking")
    rnd = random.Random(seed)
    consts = {"NLines": 3, "MaxDirs": 2 if tier == "quick" else 3, "MaxViols": 2}
    m = run_tlc("Noqa", cfg_text(constants=consts, invariants=["KeptIsComplementOfHidden", "UsedWithinContract"]),
                timeout=3000, heap="12g")
    expect_model_ok(m, "Noqa Algo => Contract")
    rep.model(m, f"every directive list <= {consts['MaxDirs']} x violation set <= 2 over 3 lines, codes A/B/PRS")
    if not m.records:
        raise MachineryError("Noqa emitted no cases")
    cls = _classes()
    for rec in m.records:
        object_case(rep, rec, cls)
    rep.exhaustive = True
    rep.sample(m.records[len(m.records) // 2])
    # file level: a seeded selection of the enumerated cases (the pipeline costs ~10 ms per lint)
    nfile = 700 if tier == "quick" else 6000
    pool = [r for r in m.records if r["dirs"]]
    rnd.shuffle(pool)
    traces = []
    for k, rec in enumerate(pool[:nfile]):
        traces.append(file_case(rec, k, 3, rnd))
        rep.evaluated(2)
        if k % 6 == 0 and all(d["kind"] != "x" for d in rec["dirs"]):
            t = source_mask_case(rec, k, 3, rnd)
            if t:
                traces.append(t)
                rep.evaluated()
    val = validate_traces("NoqaTrace", [{k: v for k, v in t.items() if k != "sql"} for t in traces],
                          constants={"NLines": 3, "MaxDirs": 0, "MaxViols": 0})
    rep.validation(val, "NoqaTrace")
    by = {t["id"]: t for t in traces}
    for r in val.rejected:
        t = by[r["id"]]
        rep.violation(r["clause"], {"level": "file" if t["id"].startswith("f") else "source-mask",
                                    "kinds": ",".join(sorted({d["kind"] for d in t["dirs"]}))},
                      f"lint of generated file rejected at step {r['step']}: {t['sql']!r} dirs={t['dirs']} events={t['events']}",
                      {"kind": "file", "trace": t, "verdict": r})
    rep.sample({"file_case_sql": traces[0]["sql"], "dirs": traces[0]["dirs"], "events": traces[0]["events"]})
    rep.rule = ("TLC enumerates every sorted directive list (plain/disable/enable x 7 rule sets x 3 lines) and every "
                "violation set of the scope; non-trivial = at least two directives and at least one hidden violation; "
                "distinct by (directives, violations)")
    rep.trusted_base = ["object builders for NoQaDirective/SQLBaseError", "file concretiser (comment placement, "
                        "reference forms per rule set)", "mapping LT01->A, CP01->B, PRS->PRS"]
    return rep.finish()


def replay(path, tier, seed):
    case = json.load(open(path))["case"]
    rep = Report(PROP, tier, seed, "model_checking")
    if case["kind"] == "object":
        object_case(rep, case["rec"], _classes())
    else:
        t = case["trace"]
        if t["id"].startswith("f"):
            t = record_file(t["sql"], t["dirs"], t["id"][1:], t.get("planted", ()))
        val = validate_traces("NoqaTrace", [{k: v for k, v in t.items() if k != "sql"}],
                              constants={"NLines": 3, "MaxDirs": 0, "MaxViols": 0})
        for r in val.rejected:
            rep.violation(r["clause"], {}, "rejected again", case)
    if rep.violations:
        print(f"VIOLATION property={PROP} replay={path}")
        return 1
    print("replay: behaviour now satisfies the contract")
    return 0
