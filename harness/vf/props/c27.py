"""C27 — configuration precedence and isolation.

Spec:  spec/ConfigLayers.tla (contract Chain/Effective + Algo of the object graph the loader and the
       Linter build, with the shared mutable objects as variables), spec/ConfigLayersTrace.tla.
Model: TLC checks Algo => Contract for every assignment "layer x key", every processing order and both
       entry styles; four self-test runs (Bug # "none") must each violate the contract.
S->C:  every enumerated (assignment, history, entry style) is materialised as a real hierarchy in a temp dir
       (HOME / XDG_CONFIG_HOME redirected; ini .sqlfluff / setup.cfg / tox.ini / pyproject.toml; --config style
       extra file; overrides dict as the CLI builds it; inline `-- sqlfluff:` directives) and run through one
       real Linter.  Observed per file: (1) the FluffConfig object handed to Linter.render_string,
       (2) behaviour: which probe lines LT05 flags (max_line_length), which probe aliases AL06 flags
       (rule option max_alias_length), what the Jinja templater renders for a context value.
       The observations are decoded to layer names and judged by TLC (ConfigLayersTrace) against the
       contract's Effective; the Effective carried in the emitted record is used for the message only.
"""
from __future__ import annotations

import hashlib
import json
import os
import re
import shutil
import tempfile
from typing import Any, Dict, List

from ..core import Report, expect_model_ok
from ..par import pmap
from ..tlc import MachineryError, cfg_text, run_tlc, validate_traces

PROP = "C27"
BUGS = ["inline_into_overrides", "no_copy_in_parse_string", "combine_no_copy", "extra_before_dirs"]

# planted values: one distinct value per layer and key
VAL_C = {"default": 80, "user": 30, "root": 36, "a": 42, "b": 48, "extra": 54, "override": 60,
         "inl1": 66, "inl2": 72, "inl3": 78, "above": 24}                 # core: max_line_length
VAL_S = {"default": None, "user": 4, "root": 6, "a": 8, "b": 10, "extra": 12,
         "inl1": 14, "inl2": 16, "inl3": 18, "above": 2}                  # rules:aliasing.length max_alias_length
DIR_FORMATS = [".sqlfluff", "pyproject.toml", "setup.cfg", "tox.ini"]
USER_PLACES = ["appdir", "xdg", "home"]


CHANNEL_FIELD = {"CoreObject": ("obj_c", "c"), "SectionObjectRule": ("obj_s_rule", "s"), "SectionObjectCtx": ("obj_s_ctx", "s"),
                 "CoreBehaviour": ("beh_c", "c"), "SectionBehaviourRule": ("beh_s_rule", "s"),
                 "SectionBehaviourCtx": ("beh_s_ctx", "s")}


def kind_of(layer: str, f: int) -> str:
    """Layer name -> class used in known-finding signatures (no verdict depends on it)."""
    if layer == f"inl{f}":
        return "own-inline"
    if layer.startswith("inl"):
        return "other-inline"
    if layer == "above":
        return "above-cwd"
    return "dir" if layer in ("root", "a", "b") else layer


def tlc_workers():
    return min(int(os.environ.get("VF_PROCS", "0") or 0), 16) or "auto"


# ------------------------------------------------------------------ concretisation
def config_text(src: str, keys: List[str], fmt: str) -> str:
    if fmt == "pyproject.toml":
        out = []
        if "c" in keys:
            out += ["[tool.sqlfluff.core]", f"max_line_length = {VAL_C[src]}"]
        if "s" in keys:
            out += ["[tool.sqlfluff.rules.aliasing.length]", f"max_alias_length = {VAL_S[src]}",
                    "[tool.sqlfluff.templater.jinja.context]", f'v = "{src}"']
        return "\n".join(out) + "\n"
    out = []
    if "c" in keys:
        out += ["[sqlfluff]", f"max_line_length = {VAL_C[src]}"]
    if "s" in keys:
        out += ["[sqlfluff:rules:aliasing.length]", f"max_alias_length = {VAL_S[src]}",
                "[sqlfluff:templater:jinja:context]", f"v = {src}"]
    return "\n".join(out) + "\n"


def probes(filedirs: List[str], above: bool = False):
    """Probe line / alias lengths: one just above each value a layer of this layout can plant."""
    srcs = {"default", "user", "root", "extra", "override"} | set(filedirs) | {f"inl{j}" for j in range(1, len(filedirs) + 1)}
    if above:
        srcs.add("above")
    lens = sorted(VAL_C[x] + 1 for x in srcs)        # planted values are >= 2 apart, so v+1 separates neighbours
    alens = sorted(VAL_S[x] + 1 for x in srcs if VAL_S.get(x) is not None)
    return lens, alens, sorted(srcs)


def decoder_selfcheck(filedirs: List[str]) -> None:
    """Every planted value must decode back to its own layer from the probe set (else the harness is broken)."""
    for above in (False, True):
        lens, alens, srcs = probes(filedirs, above)
        tc = {k: VAL_C[k] for k in srcs}
        ts = {k: VAL_S[k] for k in srcs if k in VAL_S}
        for k, v in tc.items():
            if _decode_threshold(tc, {n for n in lens if n > v}, lens) != k:
                raise MachineryError(f"C27 decoder: max_line_length of layer {k} is not identifiable from probes {lens}")
        for k, v in ts.items():
            if _decode_threshold(ts, {n for n in alens if v is not None and n > v}, alens) != k:
                raise MachineryError(f"C27 decoder: max_alias_length of layer {k} is not identifiable from probes {alens}")


def sql_text(f: int, keys: List[str], LENS: List[int], ALENS: List[int]):
    """File text + where the probes are.  LT05 probes are comment lines (cheap to parse) of the lengths in
    LENS; AL06 probes are the table aliases of one FROM clause, identified by their column span."""
    src = f"inl{f}"
    lines = []
    if "c" in keys:
        lines.append(f"-- sqlfluff:max_line_length:{VAL_C[src]}")
    if "s" in keys:
        lines.append(f"--sqlfluff:rules:aliasing.length:max_alias_length:{VAL_S[src]}")
        lines.append(f"-- sqlfluff:templater:jinja:context:v:{src}")
    len_line = {}
    for n in LENS:
        lines.append("-- " + "x" * (n - 3))
        len_line[len(lines)] = n
    lines.append("SELECT '{{ v }}' AS c0")
    frm, spans = "FROM ", []
    for j, n in enumerate(ALENS):
        part = f"t AS {'a' * n}"
        spans.append((len(frm) + 1, len(frm) + len(part), n))
        frm += part + (", " if j < len(ALENS) - 1 else ";")
    lines.append(frm)
    return "\n".join(lines) + "\n", {"line": len(lines), "spans": spans}, len_line


def keys_of(assign: Dict[str, List[str]], src: str) -> List[str]:
    return [k for k in ("c", "s") if src in assign[k]]


def variant_of(assign, filedirs, seed: int) -> dict:
    hsh = int(hashlib.sha256(json.dumps([assign, filedirs, seed], sort_keys=True).encode()).hexdigest(), 16)
    return {"user": USER_PLACES[hsh % 3], "dirfmt": {d: DIR_FORMATS[(hsh >> (4 + 3 * j)) % 4] for j, d in enumerate(["root", "a", "b"])},
            "extra_inside": bool((hsh >> 20) & 1)}


def materialise(base: str, assign, filedirs, variant) -> dict:
    home, proj = os.path.join(base, "h"), os.path.join(base, "p")
    if variant.get("above"):
        # the working directory gets a parent (not under HOME) holding a config file of its own
        proj = os.path.join(base, "w", "p")
        os.makedirs(proj)
        with open(os.path.join(base, "w", ".sqlfluff"), "w") as fh:
            fh.write(config_text("above", ["c", "s"], ".sqlfluff"))
    os.makedirs(home), os.makedirs(proj, exist_ok=True)
    env = {"HOME": home}
    uk = keys_of(assign, "user")
    if variant["user"] == "appdir":
        os.makedirs(os.path.join(home, ".config", "sqlfluff"))
        udir = os.path.join(home, ".config", "sqlfluff")
    elif variant["user"] == "xdg":
        env["XDG_CONFIG_HOME"] = os.path.join(base, "xdg")
        udir = os.path.join(base, "xdg", "sqlfluff")
        os.makedirs(udir)
    else:
        udir = home
    if uk:
        with open(os.path.join(udir, ".sqlfluff"), "w") as fh:
            fh.write(config_text("user", uk, ".sqlfluff"))
    tree = {}
    for d in sorted({"root"} | set(filedirs)):
        p = proj if d == "root" else os.path.join(proj, d)
        os.makedirs(p, exist_ok=True)
        dk = keys_of(assign, d)
        if dk:
            fmt = variant["dirfmt"][d]
            with open(os.path.join(p, fmt), "w") as fh:
                fh.write(config_text(d, dk, fmt))
            tree[d] = fmt
    extra = None
    ek = keys_of(assign, "extra")
    if ek:
        extra = os.path.join(proj if variant["extra_inside"] else base, "extra.cfg")
        with open(extra, "w") as fh:
            fh.write(config_text("extra", ek, ".sqlfluff"))
    files = {}
    lens, alens, srcs = probes(filedirs, bool(variant.get("above")))
    for f, d in enumerate(filedirs, start=1):
        text, alias_line, len_line = sql_text(f, keys_of(assign, f"inl{f}"), lens, alens)
        rel = f"f{f}.sql" if d == "root" else os.path.join(d, f"f{f}.sql")
        with open(os.path.join(proj, rel), "w") as fh:
            fh.write(text)
        files[f] = {"rel": rel, "text": text, "alias_line": alias_line, "len_line": len_line, "lens": lens, "alens": alens, "srcs": srcs}
    overrides: Dict[str, Any] = {"dialect": "ansi", "rules": "LT05,AL06"}
    if "override" in assign["c"]:
        overrides["max_line_length"] = VAL_C["override"]
    return {"env": env, "proj": proj, "extra": extra, "overrides": overrides, "files": files, "tree": tree}


# ------------------------------------------------------------------ observation (no judgement here)
_SEEN: List[tuple] = []
_INSTALLED = False


def _install():
    global _INSTALLED
    if _INSTALLED:
        return
    from sqlfluff.core import Linter

    if not hasattr(Linter, "render_string"):
        raise MachineryError("seam Linter.render_string is gone")
    orig = Linter.render_string

    def render_string(self, in_str, fname, config, encoding):
        ctx = config.get_section(["templater", "jinja", "context"]) or {}
        _SEEN.append((fname, config.get("max_line_length"),
                      config.get("max_alias_length", section=["rules", "aliasing.length"]),
                      ctx.get("v", "default") if isinstance(ctx, dict) else "?"))
        return orig(self, in_str, fname, config, encoding)

    Linter.render_string = render_string
    _INSTALLED = True


def _name(table: dict, value) -> str:
    for k, v in table.items():
        if v == value and type(v) is type(value):
            return k
    return "?"


def _decode_threshold(table: dict, flagged: set, probes: List[int]) -> str:
    for k, v in table.items():
        if {n for n in probes if v is not None and n > v} == flagged:
            return k
    return "?"


def _event(f: int, info: dict, seen: tuple, lf) -> dict:
    viols = [(v.rule_code(), v.line_no, v.line_pos) for v in lf.get_violations()]
    lt05 = {info["len_line"][ln] for c, ln, _ in viols if c == "LT05" and ln in info["len_line"]}
    al = info["alias_line"]
    al06 = {n for c, ln, pos in viols if c == "AL06" and ln == al["line"] for a, b, n in al["spans"] if a <= pos <= b}
    rendered = lf.templated_file.templated_str if lf.templated_file else ""
    m = re.search(r"'([a-z0-9]*)' AS c0", rendered)
    names = set(VAL_C) | {"default"}
    shown = (m.group(1) or "default") if m else "?"          # an undefined context value renders as ''
    return {"file": f, "obj_c": _name(VAL_C, seen[1]), "obj_s_rule": _name(VAL_S, seen[2]),
            "obj_s_ctx": seen[3] if seen[3] in names else "?",
            "beh_c": _decode_threshold({k: VAL_C[k] for k in info["srcs"]}, lt05, info["lens"]),
            "beh_s_rule": _decode_threshold({k: VAL_S[k] for k in info["srcs"] if k in VAL_S}, al06, info["alens"]),
            "beh_s_ctx": shown if shown in names else "?",
            "raw": {"max_line_length": seen[1], "max_alias_length": seen[2], "ctx_v": seen[3],
                    "lt05_probe_lengths": sorted(lt05), "al06_probe_lengths": sorted(al06),
                    "rendered": m.group(1) if m else None}}


def run_one(mat: dict, hist: List[int], mode: str) -> List[dict]:
    """One real run: one root FluffConfig, one Linter, the files of `hist` in order."""
    from sqlfluff.core import FluffConfig, Linter

    cfg = FluffConfig.from_root(extra_config_path=mat["extra"], overrides=dict(mat["overrides"]))
    lnt = Linter(config=cfg)
    events = []
    if mode == "paths":
        # the last element of hist repeats the first file: a second lint_paths call on the same Linter
        for batch in (hist[:-1], hist[-1:]):
            del _SEEN[:]
            res = lnt.lint_paths(tuple(mat["files"][f]["rel"] for f in batch))
            by_path = {lf.path: lf for p in res.paths for lf in p.files}
            seen = {s[0]: s for s in _SEEN}
            for f in batch:
                rel = mat["files"][f]["rel"]
                if rel in by_path and rel in seen:
                    events.append(_event(f, mat["files"][f], seen[rel], by_path[rel]))
    else:
        for f in hist:
            del _SEEN[:]
            info = mat["files"][f]
            lf = lnt.lint_string(info["text"], fname=f"<string {f}>")
            if _SEEN:
                events.append(_event(f, info, _SEEN[-1], lf))
    return events


def run_group(group: dict) -> List[dict]:
    """Materialise one assignment and run every (history, entry style) record of it in this process."""
    _install()
    base = tempfile.mkdtemp(prefix="c27-", dir=os.environ.get("VF_SCRATCH") or None)
    old_env = {k: os.environ.get(k) for k in ("HOME", "XDG_CONFIG_HOME")}
    old_cwd = os.getcwd()
    try:
        mat = materialise(base, group["assign"], group["filedirs"], group["variant"])
        os.environ.pop("XDG_CONFIG_HOME", None)
        os.environ.update(mat["env"])
        os.chdir(mat["proj"])
        out = []
        for run in group["runs"]:
            events = run_one(mat, run["hist"], run["mode"])
            out.append({"id": run["id"], "assign": group["assign"], "mode": run["mode"], "nhist": len(run["hist"]),
                        "events": events})
        return out
    finally:
        os.chdir(old_cwd)
        for k, v in old_env.items():
            if v is None:
                os.environ.pop(k, None)
            else:
                os.environ[k] = v
        shutil.rmtree(base, ignore_errors=True)


# ------------------------------------------------------------------ driver
def scopes(tier: str):
    """(layout, max setters per key, max settings in total)"""
    if tier == "quick":
        return [("ra", 2, 2), ("aa", 1, 2)]
    return [("ra", 3, 4), ("aa", 2, 3), ("ab", 2, 2), ("arb", 2, 2), ("aab", 2, 1)]


def describe(group: dict, run: dict) -> str:
    v = group["variant"]
    return (f"layers setting max_line_length: {group['assign']['c']}; layers setting the rule option and the context "
            f"value: {group['assign']['s']}; files in dirs {group['filedirs']}; user config in {v['user']}; "
            f"dir config files {v['dirfmt']}; {'a .sqlfluff in the parent of the working directory (outside HOME) sets both; ' if v.get('above') else ''}"
            f"history {run['hist']} via "
            f"{'lint_paths' if run['mode'] == 'paths' else 'lint_string'} on one Linter")


def check_scope(rep: Report, layout: str, maxset: int, maxtotal: int, seed: int) -> None:
    consts = {"Layout": layout, "MaxSetters": maxset, "MaxTotal": maxtotal, "Bug": "none"}
    m = run_tlc("ConfigLayers", cfg_text(constants=consts, invariants=["TypeOK", "AlgoMeetsContract", "AlgoIsolated",
                                                                         "SharedUntouched"]),
                workers=tlc_workers(), timeout=1500, heap="8g")
    expect_model_ok(m, f"ConfigLayers Algo => Contract ({layout})")
    rep.model(m, f"layout {layout}: every assignment with <= {maxset} setters per key and <= {maxtotal} settings x every file order (+ first file "
                 f"again) x paths/strings")
    if not m.records:
        raise MachineryError("ConfigLayers emitted no cases")
    decoder_selfcheck(m.records[0]["filedirs"])
    groups: Dict[str, dict] = {}
    recs = {}
    for n, rec in enumerate(m.records):
        key = json.dumps(rec["assign"], sort_keys=True)
        g = groups.setdefault(key, {"assign": rec["assign"], "filedirs": rec["filedirs"],
                                    "variant": variant_of(rec["assign"], rec["filedirs"], seed), "runs": []})
        rid = f"{layout}-{n}"
        g["runs"].append({"id": rid, "hist": rec["hist"], "mode": rec["mode"]})
        recs[rid] = (rec, g)
        if rec["algo"] and any(o["eff"] != rec["eff"][o["file"] - 1] for o in rec["algo"]):
            raise MachineryError(f"ConfigLayers: Algo and Contract disagree in an emitted record: {rec}")
    glist = [groups[k] for k in sorted(groups)]
    if layout == "ra":
        # one more source the statement does not list: a config file in the parent of the working directory,
        # outside HOME.  Its values are planted; the contract (no such layer on any chain) expects the defaults.
        ga = {"assign": {"c": [], "s": []}, "filedirs": m.records[0]["filedirs"],
              "variant": {**variant_of({"above": 1}, m.records[0]["filedirs"], seed), "above": True},
              "runs": [{"id": f"{layout}-above-{md}", "hist": [1, 2, 1], "mode": md} for md in ("paths", "strings")]}
        for run in ga["runs"]:
            recs[run["id"]] = ({"eff": [{"c": "default", "s": "default"}] * len(ga["filedirs"])}, ga)
        glist.append(ga)
    traces = [t for ts in pmap(run_group, glist, chunksize=4) for t in ts]
    rep.evaluated(sum(t["nhist"] for t in traces))
    val = validate_traces("ConfigLayersTrace", [{**t, "events": [{k: v for k, v in e.items() if k != "raw"} for e in t["events"]]}
                                                  for t in traces], constants=consts, timeout=1500)
    rep.validation(val, "ConfigLayersTrace")
    by = {t["id"]: t for t in traces}
    for r in val.rejected:
        rec, g = recs[r["id"]]
        run = next(x for x in g["runs"] if x["id"] == r["id"])
        t = by[r["id"]]
        ev = t["events"][r["step"] - 1] if 0 < r["step"] <= len(t["events"]) else None
        want = rec["eff"][ev["file"] - 1] if ev else None
        clause, _, chan = r["clause"].partition(":")
        sig = {"channel": chan, "mode": run["mode"]}
        if ev and chan in CHANNEL_FIELD:
            fld, key = CHANNEL_FIELD[chan]
            sig["got_kind"] = kind_of(ev[fld], ev["file"])
            sig["want_kind"] = kind_of(want[key], ev["file"])
        rep.violation(clause, sig,
                      f"{describe(g, run)}: at step {r['step']} file {ev['file'] if ev else '?'} observed "
                      f"{({k: v for k, v in ev.items() if k != 'raw'}) if ev else None} (raw {ev['raw'] if ev else None}), "
                      f"contract Effective = {want}",
                      {"group": {**g, "runs": [run]}, "layout": layout, "maxset": maxset, "maxtotal": maxtotal, "verdict": r})
    for g in glist:
        a = g["assign"]
        if g["variant"].get("above"):
            rep.nontrivial(json.dumps([layout, "above"]))
        if any(len(a[k]) >= 2 for k in a) or any(s.startswith("inl") for k in a for s in a[k]):
            rep.nontrivial(json.dumps([layout, a], sort_keys=True))
    if traces:
        t = traces[len(traces) // 2]
        rep.sample({"layout": layout, "assign": t["assign"], "mode": t["mode"], "events": t["events"][:2]})


def self_test(rep: Report) -> None:
    """Each protective step switched off in the model must break the contract (the invariant is not vacuous)."""
    for bug in BUGS:
        m = run_tlc("ConfigLayers", cfg_text(constants={"Layout": "ra", "MaxSetters": 2, "MaxTotal": 2, "Bug": bug},
                                             invariants=["AlgoMeetsContract"]),
                    workers=tlc_workers(), timeout=600, expect_violation=True)
        if m.ok:
            raise MachineryError(f"ConfigLayers self-test: Bug={bug} does not violate AlgoMeetsContract")
        rep.extra.setdefault("model_self_tests", {})[bug] = f"violates {m.violated}"


def run(tier: str, seed: int) -> int:
    rep = Report(PROP, tier, seed, "model_checking")
    self_test(rep)
    for layout, maxset, maxtotal in scopes(tier):
        check_scope(rep, layout, maxset, maxtotal, seed)
    rep.exhaustive = True
    rep.rule = ("TLC enumerates, per file layout, every assignment of {user, cwd dir, child dirs, extra file, overrides, "
                "inline of each file} to the keys {core key, section key} with at most MaxSetters setters per key and MaxTotal settings, every "
                "order of the files followed by the first file again, and both entry styles; each is run on a real "
                "hierarchy.  Non-trivial = some key has >= 2 setters or an inline setter; distinct by (layout, assignment)")
    rep.trusted_base = ["materialiser (config file writers for ini/toml, HOME/XDG redirection, cwd)",
                        "decoder value -> layer name (planted distinct values; LT05/AL06 probe lines; rendered literal)",
                        "wrapper on Linter.render_string reading config.get(...)"]
    rep.assumptions = ["files live in or below the working directory; HOME is outside the project tree",
                       "one config file per directory; user config in exactly one of ~/.config/sqlfluff, "
                       "$XDG_CONFIG_HOME/sqlfluff, ~", "overrides reach the core section only (as in the CLI)"]
    return rep.finish()


def replay(path, tier, seed):
    case = json.load(open(path))["case"]
    consts = {"Layout": case["layout"], "MaxSetters": case["maxset"], "MaxTotal": case.get("maxtotal", 4), "Bug": "none"}
    traces = run_group(case["group"])
    val = validate_traces("ConfigLayersTrace", [{**t, "events": [{k: v for k, v in e.items() if k != "raw"} for e in t["events"]]}
                                                  for t in traces], constants=consts)
    if val.rejected:
        print(f"VIOLATION property={PROP} replay={path}")
        print(f"  {val.rejected}")
        return 1
    print("replay: behaviour now satisfies the contract")
    return 0
