"""C07 — template source maps are consistent for every templater and variant.

Spec:  spec/SourceMap.tla (contract: RawTiles, RawTextEq, TmplTiles, SrcInFile, LiteralEq, A3),
       spec/Rectify.tla   (Algo of JinjaTemplater._rectify_templated_slices vs its contract),
       spec/Skeleton.tla  (small-scope Jinja skeletons), spec/LexTrace.tla (validator)
S->C:  every Rectify case (raw slice lengths, modified tags, loop range and repeats) enumerated by TLC is fed to
       the real _rectify_templated_slices; the expected original spans are computed by the TLA+ contract.
       Every balanced Jinja skeleton <= k fragments is rendered for real (all variants).
C->S:  Template events of every variant produced for templater fixtures, the jinja_variants fixtures,
       templated rule cases, generated nested if/for templates with unreached branches, python and placeholder
       inputs are validated against SourceMap by LexTrace.
"""
from __future__ import annotations

import inspect
import json
import random
from typing import Any, Dict, List

from ..core import Report, expect_model_ok
from ..tlc import MachineryError, cfg_text, run_tlc, validate_traces
from .. import lexrec, sq
from . import c01

PROP = "C07"
VCTX = {"templater": {"jinja": {"context": {"x": 1, "t": "tt", "r": [1, 2], "y": 0, "b": 0, "include_deleted_rows": True,
                                            "is_incremental_run": True, "target_name": "dev"}}}}


def rectify_released() -> bool:
    from sqlfluff.core.templaters.jinja import JinjaTemplater

    return "delta_stack" in inspect.getsource(JinjaTemplater._rectify_templated_slices)


def rectify_case(rep: Report, rec: Dict[str, Any]) -> None:
    from sqlfluff.core.templaters.base import TemplatedFileSlice
    from sqlfluff.core.templaters.jinja import JinjaTemplater

    ln, delta, refs = rec["len"], rec["delta"], rec["refs"]
    n = len(ln)
    orig_start = [sum(ln[:i]) for i in range(n)]
    mod_len = [ln[i] + delta[i] for i in range(n)]
    mod_start = [sum(mod_len[:i]) for i in range(n)]
    deltas = {orig_start[i]: delta[i] for i in range(n) if delta[i] != 0}
    sliced, t = [], 0
    for r in refs:
        i = r - 1
        sliced.append(TemplatedFileSlice("literal" if delta[i] == 0 else "block_start",
                                         slice(mod_start[i], mod_start[i] + mod_len[i]), slice(t, t + 1)))
        t += 1
    got = JinjaTemplater._rectify_templated_slices(dict(deltas), sliced)
    rep.evaluated()
    gots = [[g.source_slice.start, g.source_slice.stop] for g in got]
    if gots != rec["expected"]:
        twice = any(refs.count(r) > 1 and delta[r - 1] != 0 for r in set(refs))
        rep.violation("RectifiedSpanIsOriginalSpan", {"fn": "_rectify_templated_slices", "modified_tag_in_loop": twice},
                      f"_rectify_templated_slices: lens={ln} deltas={delta} refs={refs}: got {gots}, contract {rec['expected']}",
                      {"kind": "rectify", "rec": rec})
    elif gots != rec["out"]:
        rep.drift.append(f"rectify transcription predicts {rec['out']}, code gives {gots}")
    if len(set(refs)) < len(refs):
        rep.nontrivial(json.dumps([ln, delta, refs]))


def gen_variant_templates(rnd: random.Random, n: int) -> List[str]:
    """Nested if/elif/else/for templates with unreached branches (these make the templater emit variants)."""
    conds = ["x > 5000000", "false", "y", "not true", "1 == 2", "true", "z is defined",
             "include_deleted_rows and not is_incremental_run", "target_name == 'production_warehouse'", "b"]
    lits = [" a,", " b{{ x }},", "\n  c,", " {{ t }} ", " d", ",e ", "\n", " 1 AS f,", "\n  2  AS g,", " h  ,"]

    def tag(body: str) -> str:
        """A block tag with randomly chosen whitespace control."""
        return "{%" + rnd.choice(["", "", "-"]) + " " + body + " " + rnd.choice(["", "", "-"]) + "%}"

    def block(depth: int) -> str:
        k = rnd.random()
        if depth <= 0 or k < 0.25:
            return rnd.choice(lits)
        if k < 0.5:
            s = tag("if " + rnd.choice(conds)) + block(depth - 1)
            if rnd.random() < 0.4:
                s += tag("elif " + rnd.choice(conds)) + block(depth - 1)
            if rnd.random() < 0.6:
                s += tag("else") + block(depth - 1)
            return s + tag("endif")
        if k < 0.7:
            return tag("for x in r") + block(depth - 1) + rnd.choice(["", rnd.choice(lits)]) + tag("endfor")
        if k < 0.78:
            return tag("set q = 1") + block(depth - 1) + rnd.choice(["{# c #}", "{#- c -#}"])
        if k < 0.84:
            return tag("set blk") + rnd.choice(lits) + tag("endset") + " {{ blk }} " + block(depth - 1)
        if k < 0.9:
            return tag("macro m(p)") + " {{ p }}" + rnd.choice(lits) + tag("endmacro") + "{{ m(1) }}" + block(depth - 1)
        if k < 0.95:
            return "{% raw %}" + rnd.choice([" {{ not_rendered }} ", " {% x %} ", " a "]) + "{% endraw %}" + block(depth - 1)
        return rnd.choice(["{{- t -}}", "{{ t -}}", "{{- x }}", "{{ x | default(3) }}", "{{ 'lit' }}", "{{ r | join(', ') }}"]) + block(depth - 1)

    # fixed shapes first: an unreached branch inside a loop (each tag of the loop body is visited twice)
    out = ["SELECT\n{% for x in [1,2] %}\n  {% if x > 5000000 %} a{{x}}, {% else %} b{{x}}, {% endif %}\n{% endfor %}\n c FROM t\n",
           "SELECT\n{% for x in r %}{% if false %} a,{% endif %} b,{% if y %} c,{% else %} d,{% endif %}{% endfor %} e FROM t\n",
           "SELECT {% if y %}a{% elif false %}b{% else %}c{% endif %}, {% for x in r %}{% if not true %}d{% endif %}{{ x }},{% endfor %} g FROM t\n"]
    for _ in range(n):
        body = "".join(block(rnd.choice([1, 2, 2, 3])) for _ in range(rnd.randint(1, 3)))
        out.append("SELECT\n" + body + "\n g FROM t\n")
    return out


def run(tier: str, seed: int) -> int:
    rep = Report(PROP, tier, seed, "model_checking")
    rnd = random.Random(seed)
    quick = tier == "quick"

    # ---- 1. Rectify: model, then spec -> code ---------------------------------------------------------
    released = rectify_released()
    nraw = 4
    m = run_tlc("Rectify", cfg_text(constants={"N": nraw, "Lens": {2} if quick else {2, 3}, "Fixed": not released, "Emit": True},
                                    invariants=[] if released else ["Correct", "InBounds"]), timeout=3000, heap="10g")
    expect_model_ok(m, "Rectify")
    rep.model(m, f"_rectify_templated_slices ({'released' if released else 'repaired'} algorithm), {nraw} raw slices, <=3 modified tags, loop visited <=2x")
    if not m.records:
        raise MachineryError("Rectify emitted nothing")
    for rec in m.records:
        rectify_case(rep, rec)
    rep.sample({"rectify_case": m.records[len(m.records) // 2]})

    # ---- 2. skeletons (all variants) -------------------------------------------------------------------
    nfr = 4 if quick else 5
    sk = run_tlc("Skeleton", cfg_text(constants={"MaxFrags": nfr, "Emit": True}, invariants=["Balanced"]), timeout=3000, heap="10g")
    expect_model_ok(sk, "Skeleton")
    rep.model(sk, f"all balanced Jinja skeletons <= {nfr} fragments")
    items = [(c01.skeleton_sql(fr), "ansi", "jinja", f"<skel {'.'.join(fr)}>", f"k{i}", {"configs": c01.SKEL_CTX})
             for i, fr in enumerate(sk.records)]
    rep.exhaustive = True

    # ---- 3. fixtures, rule cases, generated variant templates, other templaters -------------------------
    items += [(sq.read(p), "ansi", "path", p, f"t{i}", None) for i, p in enumerate(sq.templater_fixtures())]
    import glob, os
    for i, p in enumerate(sorted(glob.glob(os.path.join(sq.FIX, "linter", "jinja_variants", "*.sql")) +
                                 glob.glob(os.path.join(sq.FIX, "linter", "*.sql")))):
        items.append((sq.read(p), "ansi", "jinja", p, f"l{i}", None))
    for i, rc in enumerate(sq.rule_cases()):
        if "{" in rc["sql"]:
            core = (rc["configs"] or {}).get("core", {}) or {}
            tmpl = core.get("templater", "jinja")
            if tmpl not in ("jinja", "python", "placeholder", "raw"):
                continue
            cfgs = {k: v for k, v in (rc["configs"] or {}).items() if k in ("templater",)}
            items.append((rc["sql"], core.get("dialect", "ansi"), tmpl, f"<rule {rc['id']}>", f"r{i}", {"configs": cfgs} if cfgs else None))
    vctx = VCTX
    for i, text in enumerate(gen_variant_templates(rnd, 300 if quick else 4000)):
        items.append((text, "ansi", "jinja", f"<gen {i}>", f"g{i}", {"configs": vctx}))
    items += c01.other_templater_items(rnd, 150 if quick else 1500)
    for i, f in enumerate(rep.findings):
        w = f.get("witness")
        if w and "text" in w:
            items.append((w["text"], w.get("dialect", "ansi"), w["templater"], f"<witness {f['key']}>", f"w{i}",
                          {"configs": {"templater": {w["templater"]: {"context": w.get("context", {})}}}}))
    traces = lexrec.record_many(items, lex=False)
    rep.evaluated(len(items))
    val = validate_traces("LexTrace", [lexrec.strip_for_tlc(t) for t in traces], timeout=1800, batch=6000)
    rep.validation(val, "LexTrace[Template events]")
    by = {t["id"]: t for t in traces}
    nvar = 0
    for t in traces:
        ev = t["events"][0]
        if ev.get("ev") == "Template":
            if ev["variant"] > 0:
                nvar += 1
            if not ev["untemplated"]:
                rep.nontrivial(t["id"].split("#")[0] + lexrec.digest(t["input"]) + f"v{ev['variant']}")
    rep.extra["alternate_variants_validated"] = nvar
    for r in val.rejected:
        t = by[r["id"]]
        inp = t["input"]
        ev = t["events"][r["step"] - 1]
        sig = {"clause": r["clause"], "templater": inp["templater"], "variant": "alternate" if ev.get("variant", 0) > 0 else "primary",
               "exc": ev.get("exc")}
        rep.violation(r["clause"], sig,
                      f"{inp['fname']} templater={inp['templater']} variant={ev.get('variant')} fails {r['clause']}; "
                      f"source={inp['text'][:200]!r}", {"kind": "template", "input": inp, "verdict": r})
    if traces:
        t0 = next((t for t in traces if t["events"][0].get("variant", 0) > 0), traces[0])
        rep.sample({"source": t0["input"]["text"][:300], "template_event": {k: v for k, v in t0["events"][0].items() if k in ("variant", "nsrc", "ntmpl", "tfs")}})
    rep.rule = ("TLC-enumerated Rectify cases and Jinja skeletons; fixtures; templated rule cases; generated nested if/for templates; "
                "python/placeholder inputs. non-trivial = a rendered variant whose source map is not the identity "
                "(Rectify: a raw slice visited more than once); distinct by (input hash, variant)")
    rep.trusted_base = ["harness/vf/lexrec.py template_event projection (slice offsets, text-equality bits)", "Rectify concretiser"]
    return rep.finish()


def replay(path, tier, seed):
    case = json.load(open(path))["case"]
    rep = Report(PROP, tier, seed, "model_checking")
    rep.findings = []
    if case["kind"] == "rectify":
        rectify_case(rep, case["rec"])
    else:
        inp = case["input"]
        traces = lexrec.record_lex(inp["text"], inp["dialect"], inp["templater"], fname=inp["fname"], tid="replay",
                                   overrides=inp.get("overrides"), lex=False)
        val = validate_traces("LexTrace", [lexrec.strip_for_tlc(t) for t in traces])
        for r in val.rejected:
            rep.violation(r["clause"], {}, f"variant {r['id']} fails {r['clause']}", case)
    if rep.violations:
        for v in rep.violations:
            print(f"  {v['clause']}: {v['what'][:300]}")
        print(f"VIOLATION property={PROP} replay={path}")
        return 1
    print("replay: behaviour now satisfies the contract")
    return 0
