"""C06 — parsing is deterministic and unaffected by parser optimisations.

Spec:  spec/ParseDetTrace.tla (contract: the parse result is a function of (text, dialect, config) only),
       spec/GrammarGen.tla (small-scope grammar terms), spec/TokSeq.tla (token strings)
S->C:  every grammar term up to depth 2 over the real combinators (Sequence, greedy Sequence, OneOf, AnyNumberOf,
       optional, Delimited, terminators), enumerated by TLC, is built with the real classes and matched against
       every token string up to a bound in four modes: default / parse cache disabled / first-token pruning
       disabled / both.  Equal results are required by ParseDetTrace.
C->S:  the same four-way differential on real files (dialect fixtures of every dialect, seeded mutants), plus
       history: the same file parsed first and after other files in one process, in a fresh process, and twice.
Optimisations are switched at module-level seams from the harness (ParseContext.check_parse_cache,
match_algorithms.prune_options), not by editing source.
"""
from __future__ import annotations

import contextlib
import hashlib
import itertools
import json
import os
import random
import subprocess
import sys
from typing import Any, Dict, List

from ..core import Report, expect_model_ok
from ..tlc import MachineryError, cfg_text, run_tlc, validate_traces
from .. import cache, mutate, sq
from ..par import pmap

PROP = "C06"
MODES = ["default", "nocache", "noprune", "nocache_noprune"]


@contextlib.contextmanager
def mode(name: str):
    from sqlfluff.core.parser import match_algorithms
    from sqlfluff.core.parser.context import ParseContext

    o_cache, o_prune = ParseContext.check_parse_cache, match_algorithms.prune_options
    if not callable(o_cache) or not callable(o_prune):
        raise MachineryError("optimisation seams check_parse_cache / prune_options are missing")
    try:
        if "nocache" in name:
            ParseContext.check_parse_cache = lambda self, loc_key, matcher_key: None
        if "noprune" in name:
            match_algorithms.prune_options = lambda options, segments, parse_context, start_idx=0: list(options)
        yield
    finally:
        ParseContext.check_parse_cache = o_cache
        match_algorithms.prune_options = o_prune


# ------------------------------------------------------------------ grammar-level replay
def build(term: List[str]):
    from sqlfluff.core.parser import KeywordSegment, StringParser
    from sqlfluff.core.parser.grammar import AnyNumberOf, Delimited, OneOf, Sequence
    from sqlfluff.core.parser.types import ParseMode

    pos = [0]

    def kw(k):
        return StringParser(k, KeywordSegment)

    def rec():
        op = term[pos[0]]
        pos[0] += 1
        if op == "kw":
            k = term[pos[0]]
            pos[0] += 1
            return kw(k)
        if op in ("seq", "gseq", "oneof", "opt"):
            x, y = rec(), rec()
            if op == "seq":
                return Sequence(x, y)
            if op == "gseq":
                return Sequence(x, y, parse_mode=ParseMode.GREEDY)
            if op == "oneof":
                return OneOf(x, y)
            return Sequence(Sequence(x, optional=True), y)
        if op == "any":
            return AnyNumberOf(rec())
        if op == "delim":
            return Delimited(rec(), delimiter=kw("C"))
        if op == "term":
            x = rec()
            k = term[pos[0]]
            pos[0] += 1
            return OneOf(x, terminators=[kw(k)])
        raise MachineryError(f"unknown grammar op {op}")

    g = rec()
    if pos[0] != len(term):
        raise MachineryError(f"grammar term not fully consumed: {term}")
    return g


_SEGS: Dict[str, Any] = {}


def _segments(text: str):
    if text not in _SEGS:
        from sqlfluff.core.parser import Lexer

        segs, _ = Lexer(config=sq.config("ansi", "raw")).lex(text)
        _SEGS[text] = tuple(s for s in segs if not s.is_meta)
    return _SEGS[text]


def grammar_case(item):
    term, strings = item
    from sqlfluff.core.parser.context import ParseContext

    dialect = sq.config("ansi", "raw").get("dialect_obj")
    out = []
    for s in strings:
        segs = _segments(s)
        events = []
        intern: Dict[str, int] = {}
        for m in MODES:
            with mode(m):
                try:
                    g = build(term)             # fresh objects: simple() hints are cached on the grammar object
                    ctx = ParseContext(dialect=dialect, max_parse_depth=0)
                    match = g.match(segs, 0, ctx)
                    res = repr(tuple(e.to_tuple(show_raw=True, code_only=False, include_meta=True) for e in match.apply(segs)))
                    res += f"|{match.matched_slice.start}:{match.matched_slice.stop}"
                    events.append({"ev": "Parse", "mode": m, "result": intern.setdefault(res, len(intern) + 1)})
                except Exception as e:
                    events.append({"ev": "Crash", "mode": m, "exc": type(e).__name__})
        out.append({"id": " ".join(term) + " | " + s, "term": term, "string": s, "events": events,
                    "matched": any(ev.get("result") for ev in events)})
    return out


# ------------------------------------------------------------------ file-level differential
def tree_id(parsed) -> str:
    hsh = hashlib.sha256()
    for v in parsed.parsed_variants:
        hsh.update(repr(v.tree.to_tuple(show_raw=True, code_only=False, include_meta=True)).encode() if v.tree else b"None")
        for seg in (v.tree.raw_segments if v.tree else []):
            pm = seg.pos_marker
            hsh.update(f"{pm.source_slice.start},{pm.source_slice.stop},{pm.templated_slice.start},{pm.templated_slice.stop};".encode())
        for e in v.violations():
            hsh.update(f"{e.rule_code()}@{e.line_no}:{e.line_pos}:{e.desc()}".encode())
    return hsh.hexdigest()[:16]


class _Timeout(Exception):
    pass


def _alarm(signum, frame):
    raise _Timeout()


def file_case(item):
    import signal

    text, dialect, name, tid = item
    lnt = sq.linter(sq.config(dialect, "jinja"))
    events, intern = [], {}
    timed_out = False
    old = signal.signal(signal.SIGALRM, _alarm)
    try:
        for m in MODES + ["repeat"]:
            with mode(m if m != "repeat" else "default"):
                signal.alarm(15)        # without the cache or the pruning some inputs backtrack for minutes: not judged
                try:
                    events.append({"ev": "Parse", "mode": m, "result": intern.setdefault(tree_id(lnt.parse_string(text, fname=name)), len(intern) + 1)})
                except _Timeout:
                    timed_out = True
                    break
                except Exception as e:
                    events.append({"ev": "Parse", "mode": m, "result": intern.setdefault("EXC:" + type(e).__name__, len(intern) + 1)})
                finally:
                    signal.alarm(0)
    finally:
        signal.signal(signal.SIGALRM, old)
    return {"id": tid, "name": name, "dialect": dialect, "text": text, "events": events, "timed_out": timed_out}


def history_ids(files: List[tuple]) -> Dict[str, str]:
    """Parse the files in the given order in THIS process; tree id per file."""
    out = {}
    for text, dialect, name in files:
        try:
            out[name] = tree_id(sq.linter(sq.config(dialect, "jinja")).parse_string(text, fname=name))
        except Exception as e:
            out[name] = "EXC:" + type(e).__name__
    return out


def fresh_process_ids(files: List[tuple], order: List[int]) -> Dict[str, str]:
    """One fresh interpreter parses the files in the given order."""
    code = ("import json,sys\nfrom vf.props import c06\nfrom vf import sq\n"
            "files=json.load(sys.stdin)\nprint('RESULT'+json.dumps(c06.history_ids([tuple(f) for f in files])))\n")
    env = dict(os.environ)
    p = subprocess.run([sys.executable, "-B", "-c", code], input=json.dumps([files[i] for i in order]), capture_output=True,
                       text=True, env=env, timeout=1800)
    for line in p.stdout.splitlines():
        if line.startswith("RESULT"):
            return json.loads(line[6:])
    raise MachineryError(f"fresh-process parse failed: {p.stderr[-800:]}")


def run(tier: str, seed: int) -> int:
    rep = Report(PROP, tier, seed, "model_checking")
    rnd = random.Random(seed)
    quick = tier == "quick"

    # ---- 1. grammar-level: TLC-enumerated terms x all token strings, four modes ------------------------
    gg = run_tlc("GrammarGen", cfg_text(constants={"Depth": 2, "Rich": not quick}, invariants=["WellFormed"]), timeout=3000, heap="8g")
    expect_model_ok(gg, "GrammarGen")
    rep.model(gg, f"all grammar terms to depth 2 ({'all' if not quick else 'restricted'} depth-1 children)")
    n = 2 if quick else 3
    strings = [" ".join(w) for k in range(1, n + 1) for w in itertools.product("abc", repeat=k)]
    extra = [" ".join(w) for w in itertools.product("abc", repeat=n + 1)]
    rnd.shuffle(extra)
    strings += extra[: (9 if quick else 27)]
    terms = gg.records
    if not terms:
        raise MachineryError("GrammarGen emitted nothing")
    traces: List[dict] = []
    for chunk in pmap(grammar_case, [(t, strings) for t in terms], chunksize=8):
        traces.extend(chunk)
    rep.evaluated(len(traces) * len(MODES))
    val = validate_traces("ParseDetTrace", [{"id": t["id"], "events": t["events"]} for t in traces], timeout=3000, batch=20000)
    rep.validation(val, "ParseDetTrace[grammars]")
    by = {t["id"]: t for t in traces}
    for r in val.rejected:
        t = by[r["id"]]
        rep.violation(r["clause"], {"clause": r["clause"], "level": "grammar", "top": t["term"][0], "has_greedy_sequence": "gseq" in t["term"]},
                      f"grammar {' '.join(t['term'])} on tokens {t['string']!r}: results per mode {t['events']}",
                      {"kind": "grammar", "term": t["term"], "string": t["string"]})
    for t in traces:
        if t["matched"] and len(t["term"]) > 4:
            rep.nontrivial(t["id"])
    rep.sample({"grammar": " ".join(traces[len(traces) // 2]["term"]), "tokens": traces[len(traces) // 2]["string"],
                "events": traces[len(traces) // 2]["events"]})
    rep.exhaustive = True

    # ---- 2. file-level four-way differential -------------------------------------------------------------
    corpus = list(sq.dialect_corpus())
    picks = sq.stratified(corpus, lambda x: x[1], 112 if quick else 1200, seed)
    items = [(sq.read(p), d, p, f"f{i}") for i, (p, d) in enumerate(picks)]
    for i, (p, d) in enumerate(sq.stratified(corpus, lambda x: x[1], 56 if quick else 600, seed + 5)):
        for j, mt in enumerate(mutate.mutants(sq.read(p), 1, rnd)):
            items.append((mt, d, f"<mutant of {p}>", f"m{i}.{j}"))
    # clause-starting words used as identifiers: the parser backtracks over them and retries the same element at
    # the same position under differently trimmed views
    for i, (p, d) in enumerate(sq.stratified(corpus, lambda x: x[1], 56 if quick else 900, seed + 6)):
        text = sq.read(p)
        if len(text) > 1200:
            text = text[:1200]
        for j in range(2):
            items.append((mutate.keyword_as_identifier(text, rnd), d, f"<keyword-as-identifier in {p}>", f"k{i}.{j}"))
    for i, q in enumerate(["SELECT a FROM t1 JOIN {w} t2 ON t1.a = t2.a\n", "SELECT a FROM {w} WHERE a IN (SELECT b FROM {w})\n",
                           "SELECT x OVER {w} FROM t WINDOW {w} AS (PARTITION BY x)\n", "SELECT {w} FROM t ORDER BY {w}\n",
                           "WITH {w} AS (SELECT 1) SELECT * FROM {w}\n", "SELECT a AS {w}, b {w} FROM t {w}\n"]):
        for w in mutate.CLAUSE_WORDS[:: (3 if quick else 1)]:
            for d in ("ansi", "postgres", "tsql") if not quick else ("ansi",):
                items.append((q.format(w=w), d, f"<clause word {w}>", f"w{i}.{w}.{d}"))
    ftraces = cache.cached("c06-files", [tier, seed, len(items)], lambda: pmap(file_case, items, chunksize=2))
    rep.evaluated(len(ftraces) * 5)
    rep.extra["file_level_modes_timed_out"] = sum(1 for t in ftraces if t.get("timed_out"))
    val = validate_traces("ParseDetTrace", [{"id": t["id"], "events": t["events"]} for t in ftraces], timeout=1800)
    rep.validation(val, "ParseDetTrace[files]")
    fby = {t["id"]: t for t in ftraces}
    for r in val.rejected:
        t = fby[r["id"]]
        rep.violation(r["clause"], {"clause": r["clause"], "level": "file", "dialect": t["dialect"]},
                      f"{t['name']} dialect={t['dialect']}: parse results differ between modes: {t['events']}",
                      {"kind": "file", "text": t["text"], "dialect": t["dialect"], "name": t["name"]})
    for t in ftraces:
        rep.nontrivial(t["id"])

    # ---- 3. history: same process (two orders) and fresh processes ---------------------------------------
    hist_files = [(sq.read(p), d, p) for p, d in sq.stratified(corpus, lambda x: x[1], 28 if quick else 140, seed + 9)]
    tfx = [p for p in sq.templater_fixtures() if "jinja_l_metas" in p or "jinja_a" in p][:6]
    hist_files += [(sq.read(p), "ansi", p) for p in tfx]
    order_a = list(range(len(hist_files)))
    order_b = list(reversed(order_a))
    ids_a = fresh_process_ids(hist_files, order_a)
    ids_b = fresh_process_ids(hist_files, order_b)
    ids_first = {}
    for k in range(0, len(hist_files), max(1, len(hist_files) // (4 if quick else 12))):
        ids_first.update(fresh_process_ids(hist_files, [k]))            # the file alone, first in a fresh process
    htraces = []
    for k, (text, d, name) in enumerate(hist_files):
        intern: Dict[str, int] = {}
        evs = [{"ev": "Parse", "mode": "after_history", "result": intern.setdefault(ids_a[name], len(intern) + 1)},
               {"ev": "Parse", "mode": "after_other_history", "result": intern.setdefault(ids_b[name], len(intern) + 1)}]
        if name in ids_first:
            evs.append({"ev": "Parse", "mode": "fresh_process", "result": intern.setdefault(ids_first[name], len(intern) + 1)})
        htraces.append({"id": f"h{k}", "name": name, "dialect": d, "events": evs})
    rep.evaluated(len(hist_files) * 2 + len(ids_first))
    val = validate_traces("ParseDetTrace", [{"id": t["id"], "events": t["events"]} for t in htraces])
    rep.validation(val, "ParseDetTrace[histories]")
    hby = {t["id"]: t for t in htraces}
    for r in val.rejected:
        t = hby[r["id"]]
        rep.violation(r["clause"], {"clause": r["clause"], "level": "history", "dialect": t["dialect"]},
                      f"{t['name']}: parse result depends on what was parsed before in the process: {t['events']}",
                      {"kind": "history", "name": t["name"]})
    rep.rule = ("TLC-enumerated grammar terms x all token strings in four optimisation modes; dialect fixtures and mutants in the same "
                "four modes plus a repeat; files parsed in two different orders and alone in fresh processes. non-trivial = a grammar "
                "of more than one combinator that matched something / every file-level differential; distinct by (grammar, string) or file")
    rep.trusted_base = ["mode switches at ParseContext.check_parse_cache and match_algorithms.prune_options", "tree_id hash over types, raws, positions and violations"]
    rep.assumptions = ["next_match's simple raw/type maps cannot be switched off from outside and are exercised only in 'default' vs itself"]
    return rep.finish()


def replay(path, tier, seed):
    case = json.load(open(path))["case"]
    if case["kind"] == "grammar":
        ts = grammar_case((case["term"], [case["string"]]))
    elif case["kind"] == "file":
        ts = [file_case((case["text"], case["dialect"], case["name"], "replay"))]
    else:
        print("history cases are replayed by re-running the check")
        return 0
    val = validate_traces("ParseDetTrace", [{"id": t["id"], "events": t["events"]} for t in ts])
    if val.rejected:
        print(val.rejected, ts[0]["events"])
        print(f"VIOLATION property={PROP} replay={path}")
        return 1
    print("replay: behaviour now satisfies the contract")
    return 0
