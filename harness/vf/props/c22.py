"""C22 — exit codes reflect only unsuppressed failures.

Spec:  spec/Outcome.tla — Live, Blocked, Remains, ExitLint, ExitFix exactly as DESIGN §5 C22 writes them (plus
       MustModify: exit 0 means the live fixable violations were fixed).  Algo layer = the CLI's counters:
       LintedDir.add (num_violations, num_tmp_prs_errors, num_unfiltered_tmp_prs_errors, num_unfixable_lint_errors),
       the increment in discard_fixes_for_lint_errors_in_files_with_tmp_or_prs_errors, _handle_unparsable,
       _paths_fix, _stdin_fix (flags sampled before the discard), lint's stats()["exit code"].
       TLC enumerates the scenario space, evaluates both layers and emits where the counters differ from the
       contract (evidence: model_deviations); PathCountersRefineExit and StdinFlagsRefineExit are additionally run
       as INVARIANTs and their counterexamples recorded (F23 and the config-file dialect error are open; F10 was
       repaired in 9356db3 and the transcription updated).
S->C:  each scenario through `sqlfluff lint|fix|format` on paths and on stdin (CliRunner + subprocess sample);
       exit status must be in the set TLC computed, files in `must` must have been rewritten.
C->S:  OutcomeTrace with Prop = "C22" on the facts the code established.  Runs with an oversized file are
       judged by C34.
"""
from __future__ import annotations

from .. import outcome as S

PROP = "C22"
RULE = ("every scenario of Outcome.tla's families x {lint, lint --nofail, fix, fix with fix_even_unparsable, format}; "
        "non-trivial = some file has at least one violation (live, suppressed or warning), so the exit status "
        "depends on the filtering; distinct by (configs, file texts, command)")


def nontrivial(rec: dict, run: dict) -> bool:
    return any(of["V"] for of in run["facts"]) or any(any(v["kind"] == "LINT" for v in pf["V"]) for pf in rec["facts"])


def run(tier: str, seed: int) -> int:
    return S.check(PROP, tier, seed, nontrivial, RULE, refinement=[("PathCountersRefineExit", ("single", "usage"), "unknown dialect in a config file (F10 repaired in 9356db3)"), ("StdinFlagsRefineExit", ("single",), "F23")])


def replay(path: str, tier: str, seed: int) -> int:
    return S.replay(PROP, path, tier, seed)
