"""C34 — oversized files are skipped: never parsed, linted or rewritten; counted; fail only with large_file_skip_fail.

Spec:  spec/Outcome.tla — Seen (a skipped file contributes no violation), MayModify excludes skipped files,
       SkippedCount, SkipFails inside ExitLint / ExitFix.  Algo layer: Linter.load_raw_file_and_config's byte check
       (caught and counted in BaseRunner.iter_rendered / ParallelRunner.run), templaters' large_file_check char
       check whose SQLFluffSkipFile is swallowed by Linter.render_string (not counted).
S->C:  TLC enumerates sizes {limit-1, limit, limit+1} x {byte, char} limit x large_file_skip_fail x
       {lint, lint --nofail, fix, fix_even_unparsable, format} x file content x one / two files x processes 1 / 2;
       files carry multi-byte text so that bytes != chars and the limit is set relative to the real size.
       Observed: skipped count (LintingResult.files_skipped), files that reached the lexer / rule loop,
       rewritten files, exit status.
C->S:  OutcomeTrace with Prop = "C34": oversize is decided by TLC from the recorded nbytes / nchars / limits.
"""
from __future__ import annotations

from .. import outcome as S

PROP = "C34"
RULE = ("every scenario of Outcome.tla's families; non-trivial = a size limit is configured relative to the real "
        "size of the first file (under / at / over); distinct by (configs, file texts, command)")


def nontrivial(rec: dict, run: dict) -> bool:
    return rec["limkind"] != "none"


def run(tier: str, seed: int) -> int:
    return S.check(PROP, tier, seed, nontrivial, RULE, refinement=[("SkipsAreCounted", ("size",), "F11")])


def replay(path: str, tier: str, seed: int) -> int:
    return S.replay(PROP, path, tier, seed)
