"""Content-addressed cache for recordings (never reused across different source trees).

key = sha256(src digest of the tree under test, name, parts...).  A recording made from other source is
never read because the digest of every file under <repo>/src is part of the key.  Old trees are pruned.
"""
from __future__ import annotations

import fcntl
import gzip
import hashlib
import json
import os
import shutil
import time
from typing import Any, Callable

from .tlc import VERIF
from . import sq

ROOT = os.path.join(VERIF, ".cache", "rec")


_HARNESS = None


def harness_digest() -> str:
    """Digest of the recorders themselves: a recording made by an older recorder is never reused."""
    global _HARNESS
    if _HARNESS is None:
        hsh = hashlib.sha256()
        base = os.path.dirname(os.path.abspath(__file__))
        for root, dirs, files in os.walk(base):
            dirs.sort()
            for f in sorted(files):
                if f.endswith(".py"):
                    with open(os.path.join(root, f), "rb") as fh:
                        hsh.update(f.encode() + fh.read())
        _HARNESS = hsh.hexdigest()[:16]
    return _HARNESS


def cached(name: str, parts: Any, build: Callable[[], Any]) -> Any:
    if os.environ.get("VF_NOCACHE"):
        return build()
    parts = [parts, harness_digest()]
    tree = sq.src_digest()
    d = os.path.join(ROOT, tree)
    os.makedirs(d, exist_ok=True)
    key = hashlib.sha256(json.dumps([name, parts], sort_keys=True, default=str).encode()).hexdigest()[:24]
    path = os.path.join(d, f"{name}-{key}.json.gz")
    lock = path + ".lock"
    with open(lock, "w") as lf:
        fcntl.flock(lf, fcntl.LOCK_EX)
        try:
            if os.path.exists(path):
                try:
                    with gzip.open(path, "rt") as fh:
                        return json.load(fh)
                except Exception:
                    os.remove(path)
            val = build()
            tmp = path + ".tmp"
            with gzip.open(tmp, "wt", compresslevel=3) as fh:
                json.dump(val, fh)
            os.replace(tmp, path)
            _prune(tree)
            return val
        finally:
            fcntl.flock(lf, fcntl.LOCK_UN)


def _prune(keep: str, max_trees: int = 3) -> None:
    try:
        trees = [(os.path.getmtime(os.path.join(ROOT, t)), t) for t in os.listdir(ROOT) if t != keep]
        trees.sort(reverse=True)
        for _, t in trees[max_trees - 1:]:
            shutil.rmtree(os.path.join(ROOT, t), ignore_errors=True)
    except OSError:
        pass
