"""Delta debugging over tokens: shrink an input while a predicate keeps holding (used during triage)."""
from __future__ import annotations

from typing import Callable, List

from .mutate import tokens


def ddmin(text: str, pred: Callable[[str], bool], max_steps: int = 400) -> str:
    toks: List[str] = tokens(text)
    n, steps = 2, 0
    while len(toks) >= 2 and steps < max_steps:
        chunk = max(1, len(toks) // n)
        reduced = False
        for i in range(0, len(toks), chunk):
            cand = toks[:i] + toks[i + chunk:]
            steps += 1
            if cand and pred("".join(cand)):
                toks, n, reduced = cand, max(n - 1, 2), True
                break
        if not reduced:
            if chunk == 1:
                break
            n = min(n * 2, len(toks))
    return "".join(toks)
