"""S->C for spec/FixLoop.tla: replay TLC-emitted rule behaviours into the real Linter.lint_fix_parsed.

Each record emitted by FixLoop (a rule pack as tables version -> proposal, phases, fix-compatibility, a
runaway_limit, the model's predicted double run and the contract's data) is concretised as synthetic
BaseRule subclasses in a real RulePack.  The tree is the parse of `DROP TABLE v0`; a rule whose table
says  v -> (to, ok)  returns, when it meets the identifier `v<v>`, a LintFix.replace of that token by `v<to>`
(ok) or by `v<to>` followed by a stray `+` operator (not ok: apply_fixes' own re-parse rejects it, so the
`_valid` bit is produced by the real code, not faked).  The real loop is run twice (second run on the
result of the first) under the fix recorder; the recorded events are validated by FixTrace with
Prop = "ENGINE" (the contract is the oracle); the comparison with the model's predicted result / limit flag /
decision list only ever yields DRIFT.
"""
from __future__ import annotations

import re
from typing import Any, Dict, List

from . import fixrec
from .par import pmap

SQL = "DROP TABLE v0\n"
_MARK = re.compile(r"\bv(\d+)(\+?)")
_RULES: Dict[Any, Any] = {}
_ENV: Dict[Any, Any] = {}


def _rule_class(idx: int):
    """One class per pack position (code ZZ0<idx>); behaviour comes from instance attributes."""
    if idx in _RULES:
        return _RULES[idx]
    from sqlfluff.core.parser import SymbolSegment
    from sqlfluff.core.rules.base import BaseRule, LintFix, LintResult
    from sqlfluff.core.rules.crawlers import SegmentSeekerCrawler

    def _eval(self, context):
        seg = context.segment
        m = re.fullmatch(r"v(\d+)", seg.raw)
        if not m:
            return None
        to, ok = self.vf_table[int(m.group(1))]
        if to >= self.vf_k:            # "no fixes"
            return None
        edit = [seg.edit(f"v{to}")]
        if not ok:
            edit.append(SymbolSegment("+", type="binary_operator"))
        return LintResult(anchor=seg, fixes=[LintFix.replace(seg, edit)], description="synthetic")

    ns = {"__doc__": "Synthetic rule driven by a TLC-emitted table.\n\n**Anti-pattern**\n\nx\n\n**Best practice**\n\ny\n",
          "name": f"verif.synthetic{idx}", "groups": ("all",), "crawl_behaviour": SegmentSeekerCrawler({"naked_identifier"}),
          "_eval": _eval, "vf_table": (), "vf_k": 0}
    cls = type(BaseRule)(f"Rule_ZZ{idx:02d}", (BaseRule,), ns)
    _RULES[idx] = cls
    return cls


def _env(limit: int, feu: bool = False):
    """`feu` = fix_even_unparsable.  The model's input parses cleanly, so by FixLoop's contract (validation of a
    fixed section is waived only where the section was *already* unparsable) the flag must not change any
    behaviour: every emitted behaviour is replayed under one value of it, alternating."""
    if (limit, feu) not in _ENV:
        from sqlfluff.core import FluffConfig, Linter

        cfg = FluffConfig(overrides={"dialect": "ansi", "runaway_limit": limit, "fix_even_unparsable": feu})
        _ENV[(limit, feu)] = (cfg, Linter(config=cfg))
    return _ENV[(limit, feu)]


def _pack(rec: dict):
    from sqlfluff.core.rules.base import RulePack

    rules = []
    for i, r in enumerate(rec["rules"], start=1):
        inst = _rule_class(i)(code=f"ZZ{i:02d}", description="synthetic")
        inst.vf_table = tuple((t, bool(ok)) for t, ok in r["tab"])
        inst.vf_k = rec["k"]
        inst.lint_phase = r["phase"]
        inst.is_fix_compatible = bool(r["compat"])
        rules.append(inst)
    return RulePack(rules, {})


def vnum(raw: str, k: int) -> int:
    m = _MARK.search(raw)
    if not m:
        return 1000
    return int(m.group(1)) + (100 if m.group(2) else 0)


def replay_one(item) -> dict:
    """Run the real loop twice on one emitted behaviour; returns the trace plus the observation."""
    idx, rec = item
    fixrec.quiet_logs()
    cfg, lnt = _env(rec["limit"], feu=bool(rec.get("feu", idx % 2)))
    tree = lnt.parse_string(SQL).root_variant().tree
    pack = _pack(rec)
    tb = fixrec.Tables()
    obs_res: List[int] = []
    with fixrec.Recorder() as r:
        r.start(tb)
        r.with_toks = False
        cur = tree
        try:
            for n in (1, 2):
                out = fixrec.record_engine(cur, cfg, pack, tb, r, second=(n == 2))
                cur = out[0]
                obs_res.append(vnum(cur.raw, rec["k"]))
                r.events[-1]["vnum"] = obs_res[-1]
            r.events.append({"ev": "Second", "same": obs_res[0] == obs_res[1]})
            status = "ok"
        except Exception as e:     # the code under test raised: reported by the driver, not judged here
            status = f"crash:{type(e).__name__}:{e}"
        events = r.stop()
    trace = {"id": f"e{idx}", "mode": "any", "clean0": True, "status": status, "events": events,
             "idem_required": bool(rec["contract"]["idem_required"]), "reach0": list(rec["contract"]["reach0"])}
    trace.update(tb.export())
    return {"trace": trace, "obs": observe(events, tb, obs_res), "idx": idx}


def observe(events: List[dict], tb: fixrec.Tables, res: List[int]) -> dict:
    """Decision list as seen from outside (for the DRIFT comparison only)."""
    vn = {}                      # tree id -> version number, from the version table (raw text)
    ver_raw = {v: k[0] for k, v in tb.ver.items()}
    hist: List[List[list]] = []
    hits: List[bool] = []
    cur: List[list] = []
    for i, e in enumerate(events):
        if e["ev"] == "Begin":
            cur = []
            vn[e["tree"]] = vnum(ver_raw[e["ver"]], 0)
        elif e["ev"] == "Apply":
            vn[e["to"]] = vnum(ver_raw[e["ver"]], 0)
        elif e["ev"] == "Crawl":
            nxt = events[i + 1] if i + 1 < len(events) else None
            r = int(e["rule"][2:])
            if e["nfix"] == 0:
                out = "none"
            elif not nxt or nxt["ev"] != "Apply":
                out = "same_as_last"
            else:
                after = events[i + 2] if i + 2 < len(events) else None
                if not nxt["changed"]:
                    out = "unchanged"
                elif after is not None and after["ev"] == "FixEnd" and after["limit"]:
                    # rolled back: whether the last batch had been adopted is not visible from outside
                    out = "adopt?" if nxt["valid"] else "invalid"
                elif after is not None and after["tree"] == nxt["to"]:
                    out = "adopt"
                elif not nxt["valid"]:
                    out = "invalid"
                else:
                    out = "seen"
            cur.append([r, vn.get(e["tree"], -1), out])
        elif e["ev"] == "FixEnd":
            hist.append(cur)
            hits.append(bool(e["limit"]))
    return {"res": res, "hit": hits, "hist": hist}


def predicted(rec: dict) -> dict:
    hist = [[[h["r"], h["tree"], h["out"]] for h in run if h["out"] != "skip"] for run in rec["pred"]["hist"]]
    return {"res": list(rec["pred"]["res"]), "hit": [bool(x) for x in rec["pred"]["hit"]], "hist": hist}


def same_behaviour(obs: dict, pred: dict) -> bool:
    if obs["res"] != pred["res"] or obs["hit"] != pred["hit"] or len(obs["hist"]) != len(pred["hist"]):
        return False
    for ho, hp in zip(obs["hist"], pred["hist"]):
        if len(ho) != len(hp):
            return False
        for a, b in zip(ho, hp):
            if a[:2] != b[:2]:
                return False
            if a[2] != b[2] and not (a[2] == "adopt?" and b[2] in ("adopt", "seen")):
                return False
    return True


def replay_all(records: List[dict]) -> List[dict]:
    return pmap(replay_one, list(enumerate(records)), chunksize=256)


# ------------------------------------------------------------------------------------ model runs + replay driver
import os

from .core import Report, expect_model_ok, h
from .tlc import MachineryError, cfg_text, run_tlc

HERE = os.path.dirname(os.path.abspath(__file__))
DEPS = [os.path.join(HERE, "fixrec.py"), os.path.join(HERE, "fixloop_replay.py")]
SAFETY = ["TypeOK", "AdoptedTreesValid", "NoRevisit", "PrevIsPath", "LimitRollback", "IdempotentIfAcyclic", "PostPhaseIdle"]
ALL = {"Phases": {"main", "post"}, "Compats": {True, False}}


def scopes(tier: str) -> List[dict]:
    """TLC scopes: (what, constants).  Lazy tables: every behaviour of the scope exactly once."""
    base = {"Lazy": True, "Sticky": True, "EmitRecs": True, "EmitMod": 1, **ALL}
    out = [{"what": "K=3 versions, 2 rules, limits 1..3, all phase/fix-compatibility assignments",
            "c": {**base, "K": 3, "NR": 2, "Limits": {1, 2, 3}}}]
    if tier == "thorough":
        out.append({"what": "K=4 versions, 2 rules, limits 1..4, all phase/fix-compatibility assignments (1/16 of the behaviours replayed)",
                    "c": {**base, "K": 4, "NR": 2, "Limits": {1, 2, 3, 4}, "EmitMod": 16}})
        out.append({"what": "K=3 versions, 3 fix-compatible rules, limit 3, all phase assignments (1/64 of the behaviours replayed)",
                    "c": {**base, "K": 3, "NR": 3, "Limits": {3}, "Compats": {True}, "EmitMod": 64}})
    return out


def dev_mod() -> int:
    """VF_DEV_ENGINE_MOD=n (development / mutation experiments only): replay a fixed 1/n sample of the behaviours
    and skip the eager cross-check.  0 = skip the engine part altogether.  Unset = the real check."""
    v = os.environ.get("VF_DEV_ENGINE_MOD")
    return int(v) if v not in (None, "") else 1


def run_models(rep: Report, tier: str, workers: Any = "auto") -> List[dict]:
    records: List[dict] = []
    if dev_mod() == 0:
        return records
    for sc in scopes(tier):
        if dev_mod() > 1:
            sc["c"]["EmitMod"] = sc["c"]["EmitMod"] * dev_mod()
            rep.extra["dev_engine_sample"] = dev_mod()
        m = run_tlc("FixLoop", cfg_text(constants=sc["c"], invariants=SAFETY), timeout=3000, workers=workers, heap="8g")
        expect_model_ok(m, "FixLoop Algo => Contract: " + sc["what"])
        rep.model(m, sc["what"])
        if not m.records:
            raise MachineryError("FixLoop emitted no behaviours")
        records += m.records
    # TLC's emission order depends on worker scheduling: canonical order (cache key, sample choice, ids)
    import json
    records.sort(key=lambda r: json.dumps(r, sort_keys=True))
    if dev_mod() > 1 or tier != "thorough":
        return records
    # (thorough tier only) eager cross-check of the lazy-table argument on a scope small enough to enumerate every table
    e = run_tlc("FixLoop", cfg_text(constants={"K": 3, "NR": 2, "Limits": {3}, "Lazy": False, "Sticky": True, "EmitRecs": False,
                                               "EmitMod": 1, "Phases": {"main"}, "Compats": {True}}, invariants=SAFETY),
                timeout=3000, workers=workers, heap="8g")
    expect_model_ok(e, "FixLoop with all tables enumerated up front")
    rep.model(e, "cross-check: every table (K=3, 2 main-phase fix-compatible rules, limit 3) enumerated eagerly")
    return records


def expected_non_invariants(rep: Report, tier: str, workers: Any = "auto") -> dict:
    """Idempotence is a property of the rules: dropping a hypothesis of IdempotentIfAcyclic must yield a counterexample."""
    out = {}
    runs = [("IdempotentIfNoLimit", True, 3, "acyclicity dropped: rule oscillation (the engine forgets previous_versions between runs)"),
            ("IdempotentAnyCompat", True, 3, "fix-compatibility dropped: a rule that is skipped after the first pass fixes again in the next run")]
    if tier == "thorough":
        runs.append(("IdempotentAnyPhase", False, 4, "documented phase behaviour (Sticky=FALSE) without PostClosed: a post-phase fix enables a main-phase rule"))
    for inv, sticky, k, why in runs:
        m = run_tlc("FixLoop", cfg_text(constants={"K": k, "NR": 2, "Limits": {k}, "Lazy": True, "Sticky": sticky, "EmitRecs": False,
                                                   "EmitMod": 1, **ALL}, invariants=[inv]),
                    timeout=3000, workers=workers, expect_violation=True, heap="8g")
        if m.violated != inv:
            raise MachineryError(f"FixLoop: expected non-invariant {inv} was not violated ({m.violated}); the hypothesis analysis is wrong")
        rep.model(m, f"expected violation of {inv}: {why}")
        out[inv] = {"violated": True, "why": why, "states_to_counterexample": m.generated}
    if tier == "thorough":
        m = run_tlc("FixLoop", cfg_text(constants={"K": 4, "NR": 2, "Limits": {4}, "Lazy": True, "Sticky": False, "EmitRecs": False,
                                                   "EmitMod": 1, **ALL}, invariants=["IdempotentIfAcyclic", "NoRevisit", "LimitRollback"]),
                    timeout=3000, workers=workers, heap="8g")
        expect_model_ok(m, "documented phase behaviour: idempotent under IdemHyp including PostClosed")
        rep.model(m, "documented phase behaviour (Sticky=FALSE), K=4: IdempotentIfAcyclic holds once PostClosed is assumed")
    return out


def replay_and_decide(rep: Report, records: List[dict], tier: str, seed: int) -> None:
    """Replay every emitted behaviour into the real loop (cached per source tree), decide with FixTrace/ENGINE."""
    from .fixsuite import slim, validate_sized

    if not records:
        return
    key = "engine-" + h([len(records), h(records[:50]), h(records[-50:])])
    outs, how = fixrec.cached(key, tier, 0, lambda: replay_all(records), DEPS)
    rep.extra["engine_replay_cache"] = how
    if len(outs) != len(records):
        raise MachineryError("engine replay: cached result does not match the emitted behaviours")
    rep.evaluated(2 * len(outs))
    live = []
    for o in outs:
        rec = dict(records[o["idx"]], feu=bool(o["idx"] % 2))
        t = o["trace"]
        if t["status"] != "ok":
            rep.violation("EngineRaises", {"level": "engine", "exc": t["status"].split(":")[1]},
                          f"lint_fix_parsed raised {t['status']} for rule pack {rec['rules']} limit {rec['limit']} fix_even_unparsable={rec['feu']}",
                          {"kind": "engine", "rec": rec})
            continue
        live.append(t)
        pred = predicted(rec)
        if not same_behaviour(o["obs"], pred):
            rep.drift.append(f"engine replay: rules={rec['rules']} limit={rec['limit']}: code {o['obs']} / transcription {pred}")
        if any(x[2] == "adopt" for x in pred["hist"][0]):
            rep.nontrivial("e" + h(rec["rules"]) + str(rec["limit"]))
    val = validate_sized([slim(t, "ENGINE") for t in live], "ENGINE", budget=2_000_000)
    rep.validation(val, "FixTrace")
    by = {t["id"]: t for t in live}
    for r in val.rejected:
        t = by[r["id"]]
        rec = dict(records[int(t["id"][1:])], feu=bool(int(t["id"][1:]) % 2))
        ev = t["events"][r["step"] - 1]
        rep.violation(r["clause"], {"level": "engine", "limit": rec["limit"]},
                      f"real lint_fix_parsed with synthetic rules {rec['rules']} (runaway_limit={rec['limit']}, fix_even_unparsable={rec['feu']}) rejected at event "
                      f"{r['step']} {ev}: {r['clause']}", {"kind": "engine", "rec": rec, "verdict": r})
    mid = records[len(records) // 2]
    rep.sample({"engine_behaviour": {"rules": mid["rules"], "limit": mid["limit"], "predicted": mid["pred"], "contract": mid["contract"]}})


def replay_engine_case(rec: dict) -> List[dict]:
    from .fixsuite import slim, validate_sized

    o = replay_one((0, rec))
    if o["trace"]["status"] != "ok":
        return [{"clause": "EngineRaises", "step": 0, "id": "e0"}]
    return validate_sized([slim(o["trace"], "ENGINE")], "ENGINE").rejected
