"""Regenerates /verif/MANIFEST.json from the table below (python -m vf.manifest_gen)."""
import json
import os

from .tlc import VERIF

MC = "model_checking"
EX = "exploration"

# id -> (level, technique, level text, level note, design ref)
CHECKS = {
    "C01": (MC, "TLA+ transcriptions of the lexer loops (spec/LexLoop.tla, spec/SliceMap.tla) model-checked by TLC; contract state machine over tokens (spec/SourceMap.tla + spec/LexTrace.tla, one TLC state per token); spec->code replay of TLC-enumerated strings x all dialects, slice layouts and Jinja skeletons; code->spec trace validation of corpus, fixtures, mutants",
            "The matcher loop is shown lossless/total under the stated per-dialect assumption; every slice layout <= 3 slices is replayed into the real segment mapper and the real output judged by the contract; every small string in every dialect, every Jinja skeleton <= 4 fragments, and recorded lexes of the fixture corpus, templated inputs and mutants are validated token by token by TLC.",
            "Bounds: strings <= 2 (rotated dialects) / <= 1 (all dialects) quick, slice layouts <= 3 slices and rendered length <= 4, skeletons <= 4 fragments; thorough raises each by one. Zero-width template metas may sit inside the following token (weakest reading for tags that render nothing inside one lexed token). Trusted: lexrec projections, SliceMap concretiser.",
            "DESIGN.md §5 C01"),
    "C02": (MC, "TLA+ transcription of MatchResult.apply (spec/MatchTree.tla) model-checked and replayed into the real method; contract state machine over tree leaves vs tokens (spec/TreeTrace.tla Mode C02); TLC-enumerated word sequences and Jinja skeletons parsed for real; trace validation of recorded parses",
            "Every well-formed match over 3 tokens is replayed into the real apply; recorded parses of fixtures of every dialect, templated inputs, mutants (unparsable paths) and all word sequences <= 3 are validated leaf by leaf: same text, same templated and source span, same order, unparsable nodes iff PRS.",
            "Bounds as stated; the 28 grammars are not transcribed — decided on the explored inputs. Trusted: lexrec projections (leaf rows, interned raw ids).",
            "DESIGN.md §5 C02"),
    "C03": (MC, "contract state machine over recorded parse trees (spec/TreeTrace.tla Mode C03): running indent balance per leaf, span-is-hull / child order / non-code ends per node; TLC-enumerated word sequences and skeletons; trace validation",
            "Every node of every recorded tree (fixtures of all dialects, templated inputs, mutants, all word sequences <= 3 in several dialects) is checked by TLC for span = hull of its leaves, ordered children, no whitespace/comment ends, and the leaf sequence for never-negative, finally-zero indent balance.",
            "Decided on explored inputs. Zero-width children may sit inside the next child's span (tags rendering nothing inside a token). Known findings: partial matches keep an Indent (class), two grammars lacking Dedents.",
            "DESIGN.md §5 C03"),
    "C04": (EX, "per-file lifecycle state machine spec/Pipeline.tla (no Crash action; parse-limit contract) model-checked; code->spec validation (spec/PipelineTrace.tla) of whole entry-point calls recorded for corpus files, mutants, crash-oriented constructions and TLC-enumerated small scopes",
            "parse / lint / fix(+fix_string) calls are recorded at the stage boundaries and at the outermost entry point; every run must be a behaviour of Pipeline: stages in order, a result returned, no escaping exception, max_parse_nodes overflow reported as PRS without a tree. Inputs: fixtures of every dialect, token-level mutants, deep nesting and huge lists with lowered limits, empty / comment-only / control-character files, templater edge cases, all word sequences <= 2 and Jinja skeletons <= 3.",
            "Exploration: cannot show absence of crashes. Valid configurations only (usage errors are exempt). Interpreter recursion limits are outside the model. Known findings: dangling grammar references (2 witnesses), python `{x:}`, Delimited append assertion.",
            "DESIGN.md §5 C04"),
    "C05": (EX, "pipeline contract (spec/Pipeline.tla: Lint is enabled only without internal rule errors) + trace validation (spec/PipelineTrace.tla) of recorded lint/fix runs over rules x options x inputs",
            "Recorded lint and fix runs over fixtures and mutants (incl. partly unparsable files) under all rules, each rule group and each rule alone with every non-default option value from the rules' own config_info; no run may report an 'Unexpected exception' violation.",
            "Exploration: the decision power is the explored input set. Trusted: piperec wrappers; the 'Unexpected exception' prefix written by BaseRule.crawl.",
            "DESIGN.md §5 C05"),
    "C06": (MC, "TLC-enumerated grammar terms (spec/GrammarGen.tla) built with the real combinators and matched in four optimisation modes; contract spec/ParseDetTrace.tla (result is a function of text, dialect, config); four-way differential and process histories on real files",
            "Every grammar term to depth 2 x every token string to the bound is matched with the parse cache on/off and pruning on/off; fixtures of every dialect and mutants are parsed in the same four modes plus a repeat; files are parsed in two orders in one process and alone in fresh processes; TLC requires identical results.",
            "Modes are switched at ParseContext.check_parse_cache and match_algorithms.prune_options from the harness; next_match's simple maps cannot be disabled from outside. Known finding: pruning vs GREEDY-mode Sequence alternatives (engine level).",
            "DESIGN.md §5 C06"),
    "C07": (MC, "TLA+ transcription of _rectify_templated_slices vs its contract (spec/Rectify.tla) model-checked and replayed; source-map contract (spec/SourceMap.tla) evaluated by TLC (spec/LexTrace.tla) on every variant of TLC-enumerated skeletons, fixtures, rule cases, generated templates, python/placeholder inputs",
            "The repaired rectification algorithm satisfies its contract for all cases with 4 raw slices, and the real function agrees on each; every rendered variant of every explored template satisfies RawTiles, RawTextEq, TmplTiles, SrcInFile, LiteralEq and A3.",
            "Bounds: 4 (quick) / 5 raw slices, <= 2 modified tags, loop visited <= 2 times; skeletons <= 4 fragments. Trusted: lexrec.template_event projection.",
            "DESIGN.md §5 C07"),
    "C23": (EX, "position contract spec/PosTrace.tla (offset<->line/col relation of spec/LineCol.tla, shown equal to the definition by LineColEquiv) evaluated by TLC on recorded lint runs and on all CLI output formats",
            "For every violation of every recorded lint run: line/col in the file, serialised offsets agree with line/col (start, end and each fix edit), the dict agrees with the reported position, violations anchored on source code point at that code's first character and text; all five machine-readable formats carry the same numbers as the API.",
            "Exploration over fixtures of all dialects, mutants, templated inputs and variants. The anchor clause applies in lint mode to non-meta, non-empty, literal anchors only. Known finding: line-only violations report column 0.",
            "DESIGN.md §5 C23"),
    "C30": (MC, "TLA+ contract + transcription of generate_source_patches filter -> merge_source_patches -> _slice_source_file_using_patches -> _build_up_fixed_source_string (spec/Patches.tla), TLC exhaustive; spec->code replay of every enumerated patch set through the real functions; code->spec validation of the patch sets of real fix runs (spec/PatchesTrace.tla)",
            "TLC shows the transcribed pipeline applies a pairwise disjoint subset of the offered edits exactly once and loses no isolated edit, and that the filter establishes the slicer's precondition; ~137k enumerated cases are replayed into the real functions (allowed outputs computed in TLA+); patch lists, slice buffers and outputs of real fix runs on templated rule cases, fixtures and generated templates are validated.",
            "Scope: 3 source cells, <= 3 patches, <= 1 source-only slice, two variant buffers (quick); larger and sampled scopes in thorough. Trusted: concretiser (FixPatch builders), recorder wrappers. Notes: notes/C30.md.",
            "DESIGN.md §5 C30"),
    "C10": (MC, "Patches.tla contract TemplateCellsPreserved / Safe (typed source cells) model-checked with the transcribed pipeline; spec->code replay; code->spec validation (PatchesTrace) of fix runs over templated inputs comparing the sequence of non-literal raw slices before and after",
            "TLC shows the filter keeps only template-safe edits and the pipeline preserves every tag; enumerated cases are replayed into the real filter/merge/slice/build; fix runs on templated rule cases, templater fixtures and generated Jinja/placeholder/python templates are validated: same tags, same order, same text (whitespace inside a tag's delimiters only when JJ01 is selected), and the fixed source still templates.",
            "Scope: 3-4 cells x 4 slice types x <= 2 patches (quick). Trusted: re-templating of the fixed source with the same config; InnerTrim tolerance for JJ01. Notes: notes/C10.md.",
            "DESIGN.md §5 C10"),
    "C11": (EX, "byte-level contract in spec/PatchesTrace.tla (Load/Fixes/Patches/Write events over decoding units) + Patches.tla OnlyPatchedRangesDiffer model-checked; recorded fix runs through Linter.lint_paths(apply_fixes) and the CLI over encodings x newlines x undecodable bytes",
            "Generated files in ascii/utf-8/utf-8-sig/utf-16 LE,BE/latin-1 with LF/CRLF/CR/mixed newlines, undecodable bytes and trailing-newline variants are fixed for real; TLC validates that text and bytes outside the ranges the applied fixes edit come back unchanged (undecodable bytes as the same bytes), the BOM is kept, and a file without effective change keeps inode, mtime and bytes.",
            "Exploration; newline normalisation is applied to both sides before comparison as the statement says. Known finding: undecodable bytes are written back as escape text (F14). Notes: notes/C11.md.",
            "DESIGN.md §5 C11"),
    "C24": (MC, "TLA+ model of the runners (spec/Runner.tla: serial, imap_unordered process pool, imap thread pool; worker Take/Read/Finish, main Skip/Drop/Add/Persist) model-checked over all interleavings; code->spec validation (spec/RunnerTrace.tla) of hook event traces and outcomes of real multi-process / multi-thread runs; completion orders emitted by TLC drive per-file delay plans",
            "TLC shows that per-file records, written files, skip count and exit status do not depend on pool size, completion order or path order for <= 4 files; real runs with processes in {1,2,4}, permuted paths, delay plans, lint and fix(apply) on generated directories are recorded through the guarded hook in runner.py and validated event by event (each file taken, finished, consumed once; persist only in the main process after the add) and against the serial baseline.",
            "Needs the SQLFLUFF_VERIF hook commit for the worker-side events (without it only main-side events and outcomes are validated; evidence says which). Delays only bias the order: every observed order is validated, none is required. Notes: notes/C24.md.",
            "DESIGN.md §5 C24"),
    "C08": (MC, "TLA+ contract of rendering (spec/Render.tla part jj: skeleton space, fast-path condition) + spec/RenderTrace.tla; TLC-enumerated Jinja skeletons rendered by the real templater and by an independently built jinja2 environment; corpus and fixture files",
            "Every balanced skeleton <= 5 fragments over 14 fragment kinds (and <= 3 over all 22) is rendered through the real JinjaTemplater and the reference environment; TLC requires rendered = reference, the fast path only for marker-free sources and then rendered = source; fixture files with their own contexts/macros, CRLF and trailing-newline variants and undefined variables are validated the same way.",
            "The reference is jinja2 itself (trusted). Undefined-variable rendering is only checked for the presence of a TMP violation. Notes: notes/C08.md.",
            "DESIGN.md §5 C08"),
    "C09": (MC, "TLA+ contract state machine for python format strings and for every placeholder style (spec/Render.tla parts py, ph), cross-checked against string.Formatter; TLC enumerates all strings to length 6-7 over the character classes x styles; spec->code replay through the real PythonTemplater / PlaceholderTemplater; RenderTrace for longer generated strings",
            "All strings <= 6 over 7 classes (and <= 7 over 5) are rendered by the real python templater: valid strings must render to the contract's text without a TMP violation, invalid ones must give a TMP violation and nothing else may escape; all strings <= 4-5 over the parameter alphabet x the 12 placeholder styles must render with each matched parameter replaced, and the produced slices must reproduce the rendering.",
            "The spec's format-string grammar agrees with string.Formatter on all enumerated strings (a disagreement is a machinery failure). Known findings: escaped braces / conversions / greedy spec in the dot rewrite, empty format spec. Notes: notes/C09.md.",
            "DESIGN.md §5 C09"),
    "C18": (MC, "TLA+ outcome contract + transcription of the CLI/API counters and gates (spec/Outcome.tla), TLC enumerates the scenario space; spec->code replay of every scenario through CLI path, CLI stdin and the python API; completed records validated by spec/OutcomeTrace.tla; FixLoop limit rollback",
            "Every abstract scenario (TMP fatal / non-fatal, PRS raised / unparsable section) x (unsuppressed, noqa, ignore, warnings) x fixable violation x fix_even_unparsable x fix/format x entry point is built from concrete blocks and run for real; a file with any templating or parsing error must come back byte-identical unless fix_even_unparsable is set, and a loop-limit run must return the original text with its violations unfixable.",
            "Scope: 1-2 files per scenario, 1 243 scenarios (quick). Trusted: scenario concretiser, in-process CliRunner (+ a subprocess sample). Notes: notes/C18.md.",
            "DESIGN.md §5 C18"),
    "C19": (MC, "spec/Outcome.tla: the result is a function of (text, effective config), the entry point is not a parameter; TLC-enumerated scenarios run through path / stdin --stdin-filename / API and compared clause by clause (OutcomeTrace); corpus leg on dialect fixtures",
            "The same text and configuration (incl. inline directives and nested .sqlfluff) is linted and fixed through the three entry points: violation records, fixed text and exit status must agree; 1 243 scenarios plus a corpus leg.",
            "API has no exit status. Known findings: stdin fix exit/flags (F23 and relatives), ignore=linting in the API. Notes: notes/C19.md.",
            "DESIGN.md §5 C19"),
    "C22": (MC, "spec/Outcome.tla ExitLint / ExitFix contract with a transcription of the CLI counters (TLC reports where they differ); every enumerated scenario run through lint / fix / format x path / stdin and validated by OutcomeTrace",
            "Exit status of lint, fix and format is compared with the contract (1 exactly for an unsuppressed, non-warning violation that remains, or an unsuppressed TMP/PRS error blocking fixing; warnings never; usage errors 2) over the whole enumerated scenario space.",
            "Known findings: stdin samples unfixable before the discard (F23), fix_even_unparsable + templater error on stdin, unknown dialect in a config file exits 1. Notes: notes/C22.md.",
            "DESIGN.md §5 C22"),
    "C34": (MC, "spec/Outcome.tla skip contract (size > limit => Skipped, never parsed / linted / rewritten, counted, fails only with large_file_skip_fail) + transcription of byte/char limit handling; scenarios around both limits with multi-byte text x serial/parallel x lint/fix",
            "Files of size limit-1, limit, limit+1 in bytes and in characters (multi-byte text) are run through lint and fix, serial and parallel, with and without large_file_skip_fail; skipped files must produce no later event, be counted, stay byte-identical and affect the exit status only through the flag.",
            "Known finding: a file over large_file_skip_char_limit is swallowed in render_string (F11). Notes: notes/C34.md.",
            "DESIGN.md §5 C34"),
    "C21": (MC, "TLA+ model of rule_reference_map / _expand_rule_refs / get_rulepack with a recursive glob matcher (spec/RuleSelect.tla), TLC exhaustive on a synthetic colliding registry and on constants extracted from the live registry; spec->code replay through the real get_rulepack; lint-mode differential (RuleSelectTrace): rule r under selection S vs alone",
            "All allow/deny pairs of <= 2 selectors (codes, names, groups, aliases, globs, unknowns) are expanded by the TLA+ contract and by the real code (171k pairs); recorded lint runs show that every reported code is selected and that each rule reports the same violations alone as under the whole selection.",
            "Glob semantics = fnmatch (case-sensitive). Unique rule names assumed (checked on the live registry each run). Notes: notes/C21.md.",
            "DESIGN.md §5 C21"),
    "C33": (MC, "TLA+ transcription of deduplicate_in_source_space + contract (spec/Report.tla), TLC exhaustive; spec->code replay with real error objects; ReportTrace validation of lint runs on loop / variant templates",
            "All violation lists <= 4 x <= 3 variants with duplicate signatures and out-of-order input are replayed into the real function; recorded reports of templated inputs (loops, several variants, all rules) contain no two violations with the engine's source signature, are sorted by (line, pos) and lose no signature.",
            "Duplicates on the user-visible key (code, line, pos, description) with different fix edits are counted, not failed (statement does not call them one violation). Notes: notes/C33.md.",
            "DESIGN.md §5 C33"),
    "C28": (MC, "TLA+ transcription of to_tuple + structural_simplify and the serialisation contract (spec/TreeRecord.tla), TLC exhaustive over small trees; spec->code replay on real segment trees; TreeRecordTrace validation of API records and CLI json / yaml / human output",
            "Every tree <= 5 nodes with duplicate-type siblings, empty raws and metas is serialised by the real code and compared with the contract; for fixture files the API record and the CLI parse output in all formats (+- code-only, +- include-meta) list every token once in file order, concatenate to the rendered SQL and nest types as the tree does.",
            "Known finding: the human format prints comments of an unparsable section out of order. Notes: notes/C28.md.",
            "DESIGN.md §5 C28"),
    "C29": (MC, "reference graph of every expanded dialect extracted at check time (harness/vf/dialect_graph.py) and explored by TLC (spec/DialectGraph.tla: reachability from the root, invariant node defined); extraction bound to the code by observed Dialect.ref calls; witnesses generated for dangling references; DialectLexTrace for the any-character lexer clause",
            "All 28 dialects load; TLC visits every grammar element reachable from each root and reports every reference that resolves to nothing; every Dialect.ref call observed while parsing fixtures is a node of the extracted graph (else machinery failure); each dialect's lexer accepts every character of a sample covering all Unicode categories.",
            "175 reachable dangling references (121 root causes) exist today and are listed as known findings keyed (defining dialect, reference). Notes: notes/C29.md.",
            "DESIGN.md §5 C29"),
    "C16": (EX, "step-wise semantic contract spec/SemContract.tla (rows' = rows unless the rule is documented to change behaviour) validated by SemTrace on recorded fix runs of generated executable SQLite queries; the row multiset of every adopted version is computed by sqlite3",
            "300 (quick) generated queries over a fixed schema and three data sets are fixed with all rules except ST06 and CV05; the SQL of every adopted fix batch is executed and must return the same multiset of rows; a violation names the rule that introduced it.",
            "Exploration: the oracle is SQLite, the spec contributes the per-step contract and the exception list. Known findings: ST07 USING->ON with SELECT *, ST04 `ELSE 3END`, RF03 on ORDER BY positions (sqlite), CV12 after ST07. Notes: notes/C16.md.",
            "DESIGN.md §5 C16"),
    "C27": (MC, "TLA+ model of configuration layering and per-file isolation (spec/ConfigLayers.tla: defaults < user < cwd..file chain < extra file < overrides < inline; transcription of nested_combine order, make_child_from_path, inline processing on a copy), TLC exhaustive; spec->code replay on materialised hierarchies; ConfigLayersTrace validation of file histories",
            "Every assignment of 2 keys to the layers for 2-3 files in a 2-level tree is materialised on disk (ini and toml/cfg variants, HOME redirected, --config, overrides, inline directives) and observed through the config the pipeline actually uses and through rule behaviour; the effective value must be the last setter's and must not depend on which files were processed before (both lint_paths and lint_string entry styles, permuted orders).",
            "Config between HOME and cwd is deliberately left out (ambiguous in the statement). Known finding: a config above cwd but outside HOME is honoured. Notes: notes/C27.md.",
            "DESIGN.md §5 C27"),
    "C32": (EX, "TLA+ model of process-level shared state and operation histories (spec/Session.tla), TLC enumerates all histories to the bound; spec->code: each history run in one fresh process and compared per operation with fresh-process baselines (SessionTrace); strace of CLI lint/parse/render for the read-only clause",
            "All histories of length <= 2 (quick) / 3 (thorough) over ~12 operations chosen to touch each piece of shared state (Jinja blocks and loops, disable_noqa_except, nested and inline config, output formats, parse errors, variants) give the same violations, parse records, rendered text and fixed strings as the same operation in a fresh process (second baseline under another PYTHONHASHSEED); lint/parse/render never open an input for writing, rename, unlink, chmod or change content, inode or mtime.",
            "Results are compared by value; internal state that does not change results is reported as DRIFT. Notes: notes/C32.md.",
            "DESIGN.md §5 C32"),
    "C25": (MC, "TLA+ contract + transcription of paths_from_path / _iter_files_in_path (outer and inner ignore specs, exact-file arguments, extensions, spellings, working directory) in spec/Discovery.tla, TLC exhaustive; spec->code replay of every enumerated world materialised on disk",
            "TLC shows the transcribed walk refines the contract (files under the paths with a configured extension and not matched by an applicable ignore file; the same selection for relative, ./relative, absolute and '.' spellings) over 272 worlds x 180 queries; every world is created in a temp dir and queried through the real paths_from_path (235k calls, plus subprocess runs for the default working_path); the pre-fix retention test is kept as a regression model that TLC must break.",
            "Pattern matching is supplied as a table (pathspec is trusted). Ignore files above the working directory are left unspecified. Known finding: `dir/*` + `!dir/x.sql` prunes the directory. Notes: notes/C25.md.",
            "DESIGN.md §5 C25"),
    "C26": (MC, "TLA+ model of _safe_create_replace_file / persist_tree over an abstract file system with fail and crash at every operation (spec/AtomicWrite.tla, AtomicWriteOps.tla), TLC exhaustive; every fail/crash plan replayed on the real code by fault injection (AtomicWriteObs); strace of a real `sqlfluff fix` validated against the op order (AtomicWriteTrace)",
            "For every operation of the write path (stat, mkstemp in the same directory, write, flush, fsync, close, chmod, rename, cleanup) and each outcome (ok / raises / process dies) the real code is driven there by injected faults or os._exit in a forked child, and the directory afterwards must be a state the model allows: the target is the complete original or the complete fixed content, no temp file remains on return, mode, encoding and BOM are kept, with a suffix the original is untouched; the syscall trace shows temp in the same directory, data synced before rename, target never opened for writing.",
            "580 plan replays (quick). fsync removal is only observable in the strace trace. Known finding: shutil.move falls back to an in-place copy when rename fails. Notes: notes/C26.md.",
            "DESIGN.md §5 C26"),
    "C13": (MC, "TLA+ transcription of Linter.lint_fix_parsed (spec/FixLoop.tla: phases, loop counter, previous_versions, last_fixes, validity, limit rollback) with contract AdoptedTreesValid / NoRevisit / LimitRollback, TLC exhaustive, every behaviour replayed into the real engine with synthetic rules; contract state machine over recorded fix runs (spec/FixContract.tla + FixTrace.tla): re-parse of the fixed text must be clean when the input was",
            "24 976 enumerated rule behaviours (3 versions, 2 rules, limits 1-3, phase and fix-compatibility assignments) are replayed into the real lint_fix_parsed: an invalid version is never adopted, a limit hit returns the original tree; recorded fix runs over fixtures of every dialect, rule cases, templated cases and operator/keyword-adjacent mutants must re-lex and re-parse cleanly whenever the input did.",
            "Rules are abstracted as version -> proposal functions in the model; the 80 rules themselves are decided on explored inputs. Known findings: LT01 touch between signs (F15), RF06 unquoting a host, F12/F13 templated cases. Notes: notes/C13.md.",
            "DESIGN.md §5 C13"),
    "C17": (MC, "spec/FixLoop.tla: TLC establishes IdempotentIfAcyclic (acyclic proposal graph, no limit hit, fix-compatible proposers => a second run adopts nothing) and exhibits the counterexample for each dropped hypothesis; behaviours replayed into the real engine; FixTrace clause SecondRunNoChange on recorded double fix runs (format rules, layout group, all rules)",
            "The engine is shown idempotent exactly up to rule oscillation on the model and on the real lint_fix_parsed (24 976 replays); for recorded inputs (fixtures of every dialect, rule cases with fixes, layout-config variations) fixing the fixed text again must change nothing.",
            "Known findings: LT05/LT09 undo each other on a single long select target (F7), an exasol fixture where a fresh parse gives LT02 new fixes. The sticky rules_this_phase quirk is modelled as it is. Notes: notes/C17.md.",
            "DESIGN.md §5 C17"),
    "C12": (EX, "FixContract.tla clause Relex (token sequence of the re-lexed fixed text == non-meta leaves of the fixed tree) validated by FixTrace on recorded fix runs incl. whitespace/operator-adjacent mutants",
            "For every recorded fix run (fixtures of every dialect, rule cases, mutants such as `a - -b`, `a/ *b`, keyword gluing) the fixed text is re-lexed with the same dialect and must give exactly the fixed tree's tokens: fixes never glue two tokens into one or split one in two.",
            "Exploration. Known findings: LT01 touch between signs / number and dot / bracket (F15 class), RF06 host unquoting. Notes: notes/C12.md.",
            "DESIGN.md §5 C12"),
    "C14": (EX, "FixContract.tla clause LayoutStep (per adopted fix batch of a layout rule: sequence of non-whitespace, non-comment token texts of the rendered SQL unchanged, multiset of comments unchanged) validated by FixTrace on recorded layout-only fix runs x layout configurations",
            "Layout-only fix runs over fixtures of every dialect, whitespace mutants and templated cases under comma / operator position, indent unit, line length and implicit-indent variations: every adopted batch may add, remove or move only spaces, tabs and newlines.",
            "Exploration; comments compared modulo trailing spaces. Known findings: F12 (templated expression written twice), F13 (LT04 moves a comma across a loop body). Notes: notes/C14.md.",
            "DESIGN.md §5 C14"),
    "C15": (EX, "FixContract.tla clause CapStep (same token count; each token equal, or of an unquoted keyword/identifier/function/type/boolean-null kind and casefold-equal) validated by FixTrace on recorded runs of CP01-CP05 x every policy x case mutants",
            "Capitalisation-only fix runs over fixtures of every dialect, case mutants, quoted identifiers, strings and comments under every capitalisation policy of each rule: output differs from input only in the letter case of unquoted tokens.",
            "Exploration. Known findings: the `snake` policy inserts underscores by design (F8); materialize CP01 upper-cases a quoted size. Notes: notes/C15.md.",
            "DESIGN.md §5 C15"),
    "C20": (MC, "TLA+ contract + transcription of IgnoreMask (spec/Noqa.tla), TLC exhaustive; spec->code replay of every enumerated case; code->spec trace validation of generated files (NoqaTrace)",
            "TLC shows the transcribed masking algorithm refines the noqa contract for every directive list/violation set in scope, every such case is replayed into the real IgnoreMask, and recorded lint runs of generated files (all reference forms, tree and source-fallback masks, disable_noqa) are validated against the same contract.",
            "Scope: 3 lines, <=2 (quick) / <=3 (thorough) directives, <=2 violations, codes {A,B,PRS}. Trusted: object builders, file concretiser, code mapping LT01/CP01/PRS. `used` of enable directives and of several directives hiding the same violation is left unconstrained (ambiguous in the statement).",
            "DESIGN.md §5 C20"),
    "C31": (MC, "TLA+ contract + transcriptions of bisect/scan/infer_next_position (spec/LineCol.tla), TLC exhaustive, TLAPS inductive invariant; spec->code replay; code->spec validation of recorded calls (LineColTrace)",
            "Exhaustive for all strings up to the bound over {newline, other} x all offsets, each replayed into the real functions on both source and templated side; recorded calls from corpus lint runs validated; the scanning machine's invariant is proved for unbounded input by TLAPS.",
            "Bound: string length <= 9 (quick) / 13 (thorough). Trusted: bisect_left library contract, concretisation of the 'other' class, the recorder wrapper. The TLAPS proof covers the scanning form only.",
            "DESIGN.md §5 C31"),
}


def main() -> None:
    props = [json.loads(l) for l in open(os.path.join(VERIF, "properties.jsonl"))]
    hooks_file = os.path.join(VERIF, "hooks.json")
    hooks = json.load(open(hooks_file)) if os.path.exists(hooks_file) else {"source_commits": []}
    checks, na = [], []
    pending = json.load(open(os.path.join(VERIF, "not_applicable.json"))) if os.path.exists(os.path.join(VERIF, "not_applicable.json")) else {}
    for p in props:
        pid = p["id"]
        if pid in CHECKS:
            lvl, tech, text, note, ref = CHECKS[pid]
            checks.append({
                "property_id": pid,
                "quick_cmd": f"./check {pid} --tier quick",
                "thorough_cmd": f"./check {pid} --tier thorough",
                "evidence_file": f"/verif/evidence/{pid}.json",
                "replay_cmd_template": f"./check {pid} --replay {{path}}",
                "engine": "vf",
                "level_claimed": {"category": lvl, "text": text, "design_ref": ref},
                "level_note": note,
                "technique": tech,
            })
        else:
            na.append({"property_id": pid, "reason": pending.get(pid, "check not built yet (build in progress); will be decided by the TLA+ specification like the others")})
    m = {
        "version": 1,
        "setup_cmd": "./setup.sh",
        "hooks": {
            "guard": "SQLFLUFF_VERIF",
            "enable": "checks export SQLFLUFF_VERIF=1 themselves for the runs that need the runner trace hook; nothing is built",
            "baseline_off_cmd": "cd /repo && env -u SQLFLUFF_VERIF /venv/bin/python -m pytest -ra -q -p no:cacheprovider --timeout=900 --continue-on-collection-errors",
            "source_commits": hooks.get("source_commits", []),
            "add_only": True,
        },
        "engines": [{
            "name": "vf", "path": "/verif/harness/vf",
            "serves_properties": [c["property_id"] for c in checks],
            "kind_free_text": "TLA+ specifications (spec/*.tla) model-checked with TLC (and TLAPS for C31), bound to sqlfluff by spec->code replay of TLC-enumerated behaviours and code->spec validation of recorded traces; python harness under harness/vf",
        }],
        "checks": checks,
        "notes": "See DESIGN.md. ./check <id> --tier quick|thorough; exit 0/1, exit 2 = machinery failure. known_findings.json lists genuine defects (open and fixed).",
        "not_applicable": na,
    }
    with open(os.path.join(VERIF, "MANIFEST.json"), "w") as fh:
        json.dump(m, fh, indent=1)
    print(f"MANIFEST.json: {len(checks)} checks, {len(na)} not_applicable")


if __name__ == "__main__":
    main()
