"""Regenerates /verif/MANIFEST.json from the table below (python -m vf.manifest_gen)."""
import json
import os

from .tlc import VERIF

MC = "model_checking"
EX = "exploration"

# id -> (level, technique, level text, level note, design ref)
CHECKS = {
    "C20": (MC, "TLA+ contract + transcription of IgnoreMask (spec/Noqa.tla), TLC exhaustive; spec->code replay of every enumerated case; code->spec trace validation of generated files (NoqaTrace)",
            "TLC shows the transcribed masking algorithm refines the noqa contract for every directive list/violation set in scope, every such case is replayed into the real IgnoreMask, and recorded lint runs of generated files (all reference forms, tree and source-fallback masks, disable_noqa) are validated against the same contract.",
            "Scope: 3 lines, <=2 (quick) / <=3 (thorough) directives, <=2 violations, codes {A,B,PRS}. Trusted: object builders, file concretiser, code mapping LT01/CP01/PRS. `used` of enable directives and of several directives hiding the same violation is left unconstrained (ambiguous in the statement).",
            "DESIGN.md §5 C20"),
    "C31": (MC, "TLA+ contract + transcriptions of bisect/scan/infer_next_position (spec/LineCol.tla), TLC exhaustive, TLAPS inductive invariant; spec->code replay; code->spec validation of recorded calls (LineColTrace)",
            "Exhaustive for all strings up to the bound over {newline, other} x all offsets, each replayed into the real functions on both source and templated side; recorded calls from corpus lint runs validated; the scanning machine's invariant is proved for unbounded input by TLAPS.",
            "Bound: string length <= 9 (quick) / 13 (thorough). Trusted: bisect_left library contract, concretisation of the 'other' class, the recorder wrapper. The TLAPS proof covers the scanning form only.",
            "DESIGN.md §5 C31"),
}


def main() -> None:
    props = [json.loads(l) for l in open(os.path.join(VERIF, "properties.jsonl"))]
    hooks_file = os.path.join(VERIF, "hooks.json")
    hooks = json.load(open(hooks_file)) if os.path.exists(hooks_file) else {"source_commits": []}
    checks, na = [], []
    pending = json.load(open(os.path.join(VERIF, "not_applicable.json"))) if os.path.exists(os.path.join(VERIF, "not_applicable.json")) else {}
    for p in props:
        pid = p["id"]
        if pid in CHECKS:
            lvl, tech, text, note, ref = CHECKS[pid]
            checks.append({
                "property_id": pid,
                "quick_cmd": f"./check {pid} --tier quick",
                "thorough_cmd": f"./check {pid} --tier thorough",
                "evidence_file": f"/verif/evidence/{pid}.json",
                "replay_cmd_template": f"./check {pid} --replay {{path}}",
                "engine": "vf",
                "level_claimed": {"category": lvl, "text": text, "design_ref": ref},
                "level_note": note,
                "technique": tech,
            })
        else:
            na.append({"property_id": pid, "reason": pending.get(pid, "check not built yet (build in progress); will be decided by the TLA+ specification like the others")})
    m = {
        "version": 1,
        "setup_cmd": "./setup.sh",
        "hooks": {
            "guard": "SQLFLUFF_VERIF",
            "enable": "checks export SQLFLUFF_VERIF=1 themselves for the runs that need the runner trace hook; nothing is built",
            "baseline_off_cmd": "cd /repo && env -u SQLFLUFF_VERIF /venv/bin/python -m pytest -ra -q -p no:cacheprovider --timeout=900 --continue-on-collection-errors",
            "source_commits": hooks.get("source_commits", []),
            "add_only": True,
        },
        "engines": [{
            "name": "vf", "path": "/verif/harness/vf",
            "serves_properties": [c["property_id"] for c in checks],
            "kind_free_text": "TLA+ specifications (spec/*.tla) model-checked with TLC (and TLAPS for C31), bound to sqlfluff by spec->code replay of TLC-enumerated behaviours and code->spec validation of recorded traces; python harness under harness/vf",
        }],
        "checks": checks,
        "notes": "See DESIGN.md. ./check <id> --tier quick|thorough; exit 0/1, exit 2 = machinery failure. known_findings.json lists genuine defects (open and fixed).",
        "not_applicable": na,
    }
    with open(os.path.join(VERIF, "MANIFEST.json"), "w") as fh:
        json.dump(m, fh, indent=1)
    print(f"MANIFEST.json: {len(checks)} checks, {len(na)} not_applicable")


if __name__ == "__main__":
    main()
